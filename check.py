#!/usr/bin/env python3-vt
"""Entry point of every registered check:   python3-vt check.py Cxx [--tier quick|thorough] [--replay FILE]

exit 0  every obligation of the property discharged, bounded layer clean (known findings printed)
exit 1  VIOLATION property=Cxx replay=<path> [no-failing-input-found]
exit 2  UNDECIDED (solver unknown / construct outside the modelled subset) and nothing violated
exit 3  CHECKER-ERROR (the machinery itself failed)
"""
import argparse
import hashlib
import json
import os
import re
import subprocess
import sys
import time
import traceback

VERIF = os.path.dirname(os.path.abspath(__file__))
sys.path.insert(0, VERIF)
os.environ.setdefault("VERIF_SCRATCH", os.path.join(VERIF, ".scratch"))
os.makedirs(os.environ["VERIF_SCRATCH"], exist_ok=True)

NATIVE_PY = "/venv/bin/python"


def safe(name):
    return re.sub(r"[^A-Za-z0-9_.#+-]", "_", name)[:150]


def load_known():
    p = os.path.join(VERIF, "known_findings.json")
    if not os.path.exists(p):
        return []
    return json.load(open(p))["findings"]


def run_native(pid, tier, seed, replay=None):
    cmd = [NATIVE_PY, os.path.join(VERIF, "native", "run.py"), pid, "--tier", tier, "--seed", str(seed)]
    if replay:
        cmd += ["--replay", replay]
    env = dict(os.environ)
    env["PYTHONPATH"] = os.environ.get("VERIF_REPO", "/repo") + os.pathsep + VERIF
    env["PYTHONHASHSEED"] = "0"
    p = subprocess.run(cmd, capture_output=True, text=True, env=env, cwd=VERIF)
    if p.returncode != 0:
        raise RuntimeError(f"native layer crashed (exit {p.returncode}):\n{p.stderr[-3000:]}")
    # last line of stdout is the JSON result
    return json.loads(p.stdout.strip().splitlines()[-1])


def main():
    ap = argparse.ArgumentParser()
    ap.add_argument("pid")
    ap.add_argument("--tier", default=os.environ.get("VERIF_TIER", "quick"))
    ap.add_argument("--replay")
    ap.add_argument("--no-native", action="store_true")
    ap.add_argument("--no-proof", action="store_true")
    ap.add_argument("--write-baseline", action="store_true")
    args = ap.parse_args()
    pid, tier = args.pid, args.tier
    if args.write_baseline:
        os.environ["VERIF_WRITE_BASELINE"] = "1"
    if tier not in ("quick", "thorough"):
        tier = "quick"
    seed = int(os.environ.get("VERIF_SEED", "0") or 0)
    t0 = time.time()

    if args.replay:
        return replay(pid, args.replay, tier, seed)

    from contracts.properties import PROPS
    if pid not in PROPS:
        print(f"CHECKER-ERROR unknown property {pid}")
        return 3
    cfg = PROPS[pid]
    known = [k for k in load_known() if k["property"] == pid and k["status"] == "known"]
    lines = []
    violations = []       # (replay path, suffix)
    undecided = []
    evidence = {"property_id": pid, "tier": tier, "seed": seed, "level": cfg["level"], "coverage": {}, "assumptions": [],
                "wall_s": 0.0, "violations": 0}
    cov = evidence["coverage"]
    printed_known = []

    # ------------------------------------------------------------------ proof layer
    proof = None
    if cfg.get("functions") and not args.no_proof:
        from pyvc import proofrun, bigstack
        proof = bigstack.run(proofrun.run_property, pid, cfg, tier, known)
        cov.update(proof["coverage"])
        evidence["assumptions"] += proof["assumptions"]
        for f in proof["failed"]:
            rp = os.path.join(VERIF, "replays", pid, safe(f["name"]) + ".json")
            os.makedirs(os.path.dirname(rp), exist_ok=True)
            f["replay_cmd"] = f"python3-vt check.py {pid} --replay {rp}"
            json.dump(f, open(rp, "w"), indent=1, default=str)
            if f.get("concrete") is not None:
                try:
                    res = run_native(pid, tier, seed, replay=rp)
                    f["native_replay"] = {"violations": res["violations"], "notes": res.get("notes", [])}
                    f["replayed"] = bool(res["violations"])
                except Exception as e:
                    f["native_replay"] = {"error": str(e)[-600:]}
                json.dump(f, open(rp, "w"), indent=1, default=str)
            suffix = "" if f.get("replayed") else " no-failing-input-found"
            violations.append((rp, suffix, f["name"]))
        for u in proof["undecided"]:
            cand = u.pop("candidate", None)
            if cand is not None:
                rp = os.path.join(VERIF, "replays", pid, "candidate-" + safe(u["name"]) + ".json")
                os.makedirs(os.path.dirname(rp), exist_ok=True)
                cand["replay_cmd"] = f"python3-vt check.py {pid} --replay {rp}"
                json.dump(cand, open(rp, "w"), indent=1, default=str)
                try:
                    res = run_native(pid, tier, seed, replay=rp)
                except Exception as e:
                    res = {"violations": [], "notes": [str(e)[-300:]]}
                if res["violations"]:
                    cand["native_replay"] = {"violations": res["violations"], "notes": res.get("notes", [])}
                    cand["replayed"] = True
                    json.dump(cand, open(rp, "w"), indent=1, default=str)
                    violations.append((rp, "", u["name"]))
                    continue        # decided: a concrete legal input violates the contract on the real code
                os.unlink(rp)
            undecided.append(u)
        for kf in proof["known_hit"]:
            printed_known.append(kf)
        if proof.get("error"):
            print("CHECKER-ERROR " + proof["error"])
            return 3

    # ------------------------------------------------------------------ bounded layer (labelled bounded)
    native = None
    if cfg.get("native") and not args.no_native:
        try:
            native = run_native(pid, tier, seed)
        except Exception as e:
            print("CHECKER-ERROR " + str(e).replace("\n", " | ")[:2000])
            return 3
        nb = {"rule": native["rule"], "evaluations": native["evaluations"], "distinct_nontrivial": native["distinct_nontrivial"],
              "bound": native.get("bound", ""), "exhaustive": native.get("exhaustive", False), "label": "bounded stand-in, never counted as proved",
              "samples": native.get("samples", [])[:5], "sections": native.get("sections", {})}
        cov["bounded"] = nb
        cov.setdefault("evaluations", native["evaluations"])
        cov.setdefault("distinct_nontrivial", native["distinct_nontrivial"])
        cov.setdefault("rule", native["rule"])
        if "samples" not in cov:
            cov["samples"] = native.get("samples", [])[:5]
        else:
            cov["samples"] = cov["samples"] + native.get("samples", [])[:3]
        for v in native["violations"]:
            hit = None
            for kf in known:
                if kf.get("native_match") and kf["native_match"] == v.get("finding_key"):
                    hit = kf
            if hit:
                if hit not in printed_known:
                    printed_known.append(hit)
                continue
            h = hashlib.sha1(json.dumps(v, sort_keys=True, default=str).encode()).hexdigest()[:10]
            rp = os.path.join(VERIF, "replays", pid, f"native-{safe(v.get('check', 'case'))}-{h}.json")
            os.makedirs(os.path.dirname(rp), exist_ok=True)
            v["replay_cmd"] = f"python3-vt check.py {pid} --replay {rp}"
            v["property"] = pid
            json.dump(v, open(rp, "w"), indent=1, default=str)
            violations.append((rp, "", v.get("check", "bounded")))
        # known findings whose witness no longer fails are stale -> checker error
        for st in native.get("stale_known", []):
            if any(kf.get("native_match") == st for kf in known):
                print(f"NOTE: the witness of known finding {st} no longer fails on this tree (no KNOWN-FINDING line is printed for it)")

    # ------------------------------------------------------------------ assumed contracts validated bounded
    for aname in cfg.get("assumption_checks", []) if not args.no_native else []:
        try:
            ares = run_native(aname, tier, seed)
        except Exception as e:
            print("CHECKER-ERROR " + str(e).replace("\n", " | ")[:2000])
            return 3
        cov.setdefault("assumptions_validated_bounded", {})[aname] = {
            "rule": ares["rule"], "bound": ares.get("bound", ""), "evaluations": ares["evaluations"], "deviations": len(ares["violations"]),
            "label": "bounded validation of an assumed contract; the assumption stays an assumption"}
        for v in ares["violations"][:3]:
            # the proofs rest on this assumption: where it fails they do not apply to this tree (never a property violation)
            undecided.append({"name": f"assumption {aname}", "reason": f"{v.get('what')} on input {v.get('input')!r}: observed {v.get('observed')}; "
                              f"the proofs that use the mark model do not apply to this tree"})

    if args.write_baseline and proof and not proof["failed"] and not undecided:
        bp = os.path.join(VERIF, "baseline", "obligations.json")
        base = json.load(open(bp)) if os.path.exists(bp) else {}
        base[pid] = sorted(proof["names"])
        json.dump(base, open(bp, "w"), indent=0, sort_keys=True)
        print(f"baseline for {pid}: {len(base[pid])} obligation names written")

    # ------------------------------------------------------------------ report
    for kf in printed_known:
        print(f"KNOWN-FINDING: property={pid} {kf['what']}")
    for u in undecided:
        print(f"UNDECIDED property={pid} obligation={u['name']} reason={u['reason'][:300]}")
    seen = set()
    for rp, suffix, what in violations:
        if rp in seen:
            continue
        seen.add(rp)
        print(f"VIOLATION property={pid} replay={rp}{suffix}")
    evidence["violations"] = len(seen)
    evidence["wall_s"] = round(time.time() - t0, 2)
    cov["known_findings_printed"] = [k["what"] for k in printed_known]
    cov["undecided"] = [u["name"] for u in undecided]
    if cfg["level"] == "other" or "explanation" in cfg:
        cov["explanation"] = cfg.get("explanation", "")
    cov.setdefault("trusted_base", [])
    evidence["assumptions"] = sorted(set(evidence["assumptions"]))
    os.makedirs(os.path.join(VERIF, "evidence"), exist_ok=True)
    json.dump(evidence, open(os.path.join(VERIF, "evidence", f"{pid}.json"), "w"), indent=1, default=str)
    if proof:
        print(f"{pid}: obligations {cov.get('obligations', 0)} discharged {cov.get('discharged', 0)} "
              f"(functions {len(cov.get('functions_under_contract', []))}, solver {cov.get('solver_time_s', {}).get('total', 0)}s)")
    if native:
        print(f"{pid}: bounded layer {native['evaluations']} evaluations, {native['distinct_nontrivial']} distinct non-trivial, {len(native['violations'])} violating")
    print(f"{pid}: wall {evidence['wall_s']}s")
    if seen:
        return 1
    if undecided:
        return 2
    return 0


def replay(pid, path, tier, seed):
    d = json.load(open(path))
    if d.get("kind") == "obligation" and d.get("concrete") is None:
        print(f"replay file names obligation {d['name']}; the solver gave no concrete input (see 'solver_output').")
        print(f"VIOLATION property={pid} replay={path} no-failing-input-found")
        return 1
    res = run_native(pid, tier, seed, replay=path)
    for nt in res.get("notes", []):
        print("note:", nt)
    if res["violations"]:
        print(json.dumps(res["violations"][0], default=str)[:2000])
        print(f"VIOLATION property={pid} replay={path}")
        return 1
    print("replay: the recorded input no longer violates the property")
    return 0


if __name__ == "__main__":
    if os.environ.get("PYTHONHASHSEED") != "0":
        # deterministic set/dict-of-str iteration: the same source gives byte-identical queries on every run
        os.execve(sys.executable, [sys.executable] + sys.argv, dict(os.environ, PYTHONHASHSEED="0"))
    # last line of defence against a hang (every solver call is already bounded): a quick check that is still running after
    # 14 minutes, a thorough one after 2 hours, stops as a checker error (exit 3) instead of sitting there
    import threading
    _limit = 7200 if ("thorough" in sys.argv or os.environ.get("VERIF_TIER") == "thorough") else 840

    def _too_long():
        sys.stdout.write(f"CHECKER-ERROR the check did not finish within {_limit} s\n")
        sys.stdout.flush()
        os._exit(3)
    _wd = threading.Timer(_limit, _too_long)
    _wd.daemon = True
    _wd.start()
    try:
        sys.exit(main())
    except SystemExit:
        raise
    except Exception:
        traceback.print_exc()
        print("CHECKER-ERROR " + traceback.format_exc().splitlines()[-1])
        sys.exit(3)
