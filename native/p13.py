"""C13 bounded stand-in: name parts against an executable transcription of BibTeX's name algorithm (native/names_ref.py),
validated first on the repository's own BibTeX-derived corpus."""
import atexit
import itertools
import multiprocessing
import random

from bibtexparser.library import Library
from bibtexparser.middlewares.names import InvalidNameError, NameParts, SplitNameParts, parse_single_name_into_parts
from bibtexparser.model import Entry, Field, MiddlewareErrorBlock
from native.names_ref import (RefInvalidName, ends_with_lone_backslash, load_corpus, name_sections, partition, parts_dict,
                              validate_on_corpus, von_last_model)

TOKENS = ["AA", "bb", "Cc", "dd", "1", "{x}", "{\\'E}x", "{\\'e}x", "\\'A", ",", " ", "~", "{", "}", "\\"]
NT = len(TOKENS)
NAME_FIELDS = ("author", "editor", "translator")
F8V = "F8-von-last"
F8B = "F8-trailing-backslash"
N13 = "N13-special-char-case"
PARTS = ("first", "von", "last", "jr")

RULE = ("names = the 149 corpus names, concatenations of tokens from " + repr(TOKENS) + " (all sequences up to a length, then seeded "
        "samples of longer ones) and random names (words of every case, braced groups, special characters, accents, escapes, "
        "0..3 commas, '~', unbalanced braces).  The reference first decides validity (balanced braces, at most two top-level "
        "commas, no trailing comma).  Valid: parse_single_name_into_parts must not raise, (a) its words are exactly the "
        "top-level words, each once, in order within the comma sections, (b) the partition equals the reference partition. "
        "Invalid: InvalidNameError, and through SplitNameParts a MiddlewareErrorBlock holding the entry with the offending field "
        "unchanged.  C13.name / C13.middleware evaluate one input; one C13.layer / C13.sample evaluation covers a block of names "
        "in worker processes; non-trivial = the name has a word or is invalid; distinct = distinct name / field list")
BOUND = {
    "quick": "149 corpus names, every token sequence of length 0..4 one by one (54,241 names), every sequence of length 5 "
             "(759,375 names, 15 blocks), 1.6 million seeded random sequences each of length 6 and 7 (NOT exhaustive there), "
             "4000 random names, 1500 entries through SplitNameParts",
    "thorough": "149 corpus names, every token sequence of length 0..4 one by one, every sequence of length 5, 6 and 7 "
                "(183 million names, blocks), 8 million seeded random sequences each of length 8 and 9 (NOT exhaustive there), "
                "60000 random names, 20000 entries through SplitNameParts",
}
EXHAUSTIVE = False

_corpus_checked = []


def _require_corpus_agreement():
    """The transcription must reproduce every corpus case before it is used as an oracle (a disagreement is an oracle
    bug and stops the run)."""
    if not _corpus_checked:
        res = validate_on_corpus()
        for k, (ok, total, bad) in res.items():
            if bad:
                raise RuntimeError("reference disagrees with the repo corpus (%s): %r" % (k, bad[:3]))
        _corpus_checked.append({k: (ok, total) for k, (ok, total, bad) in res.items()})
    return _corpus_checked[0]


# ------------------------------------------------------------------------------------------------ one name
def _undouble(name, obs, n_sections):
    """Defect model of F8-trailing-backslash: a lone backslash at the very end of the name is stored twice.  Returns the
    observed parts with that doubling undone (or None if the model does not apply)."""
    if not ends_with_lone_backslash(name):
        return None
    part = "last" if n_sections == 1 else "first"
    if not obs[part] or not obs[part][-1].endswith("\\\\"):
        return None
    fixed = {k: list(v) for k, v in obs.items()}
    fixed[part][-1] = fixed[part][-1][:-1]
    return fixed


def _conservation(sections, obs):
    if len(sections) == 1:
        ok = obs["first"] + obs["von"] + obs["last"] == sections[0] and obs["jr"] == []
    else:
        ok = (obs["von"] + obs["last"] == sections[0] and obs["first"] == sections[-1]
              and obs["jr"] == (sections[1] if len(sections) == 3 else []))
    return ok


def _classify(name, sections, exp, obs):
    """Which recognised defect family (if any) turns the expected partition into the observed one?"""
    # the word-case family is tried first: with the von/last rule repaired in the code, an observed partition that equals the
    # reference partition over the code's own word cases is N13 even when the von/last defect model happens to give the same parts
    models = [(partition(sections, code_like=True), N13), (von_last_model(sections), F8V), (von_last_model(sections, code_like=True), F8V)]
    for m, key in models:
        if m is not None and m == obs:
            return key
    und = _undouble(name, obs, len(sections))
    if und is not None:
        if und == exp or any(m is not None and m == und for m, _ in models):
            return F8B
    return None


def name_violation(name, parse=parse_single_name_into_parts):
    try:
        sections = name_sections(name)
    except RefInvalidName as why:
        try:
            got = parse(name)
        except InvalidNameError:
            return None
        except Exception as e:
            return {"what": "invalid name (%s) raised something other than InvalidNameError" % why, "expected": "InvalidNameError",
                    "observed": "%s: %s" % (type(e).__name__, e), "name": name, "finding_key": None}
        return {"what": "invalid name (%s) was accepted" % why, "expected": "InvalidNameError", "observed": repr(got), "name": name, "finding_key": None}
    exp = partition(sections)
    try:
        got = parse(name)
    except Exception as e:
        return {"what": "valid name raised", "expected": repr(exp), "observed": "%s: %s" % (type(e).__name__, e), "name": name, "finding_key": None}
    if not isinstance(got, NameParts) or not all(isinstance(getattr(got, p), list) for p in PARTS):
        return {"what": "result is not a NameParts of lists", "expected": repr(exp), "observed": repr(got), "name": name, "finding_key": None}
    obs = parts_dict(got)
    if obs == exp:
        return None
    what = "partition differs from BibTeX's rule" if _conservation(sections, obs) else \
        "conservation: the words of first+von+last+jr are not the top-level words %r" % (sections,)
    return {"what": what, "expected": repr(exp), "observed": repr(obs), "name": name, "finding_key": _classify(name, sections, exp, obs)}


def check_name(spec):
    _require_corpus_agreement()
    return name_violation(spec["name"])


def check_corpus(spec):
    """One corpus case: the reference must agree with it (else oracle bug -> exception), and so must the code."""
    _require_corpus_agreement()
    name, exp = load_corpus()["parts"][spec["i"]]
    exp = {k: list(exp[k]) for k in PARTS}
    if partition(name_sections(name)) != exp:
        raise RuntimeError("oracle bug: reference disagrees with corpus case %r" % name)
    v = name_violation(name)
    return v


# ------------------------------------------------------------------------------------------------ blocks of names
_pool = None


def _get_pool():
    global _pool
    if _pool is None:
        _pool = multiprocessing.get_context("fork").Pool(min(16, multiprocessing.cpu_count() or 1))
        atexit.register(_pool.terminate)
    return _pool


def _eval_many(names):
    n, counts, firsts = 0, {}, {}
    for s in names:
        n += 1
        v = name_violation(s)
        if v is not None:
            k = v["finding_key"]
            counts[k] = counts.get(k, 0) + 1
            if k not in firsts:
                firsts[k] = v
    return n, counts, firsts


def _task_prefix(args):
    length, prefix = args
    head = "".join(TOKENS[i] for i in prefix)
    return _eval_many(head + "".join(t) for t in itertools.product(TOKENS, repeat=length - len(prefix)))


def _task_sample(args):
    length, n, seed = args
    rng = random.Random(seed)
    return _eval_many("".join(rng.choice(TOKENS) for _ in range(length)) for _ in range(n))


def _merge(results, label):
    total, counts, firsts = 0, {}, {}
    for n, c, f in results:          # task order: independent of scheduling
        total += n
        for k, x in c.items():
            counts[k] = counts.get(k, 0) + x
        for k, v in f.items():
            firsts.setdefault(k, v)
    if not counts:
        return None
    # one verdict per block: an unexplained difference always wins, otherwise the rarest family (all counts are reported)
    key = None if None in counts else min(counts, key=lambda k: (counts[k], k))
    w = firsts[key]
    return {"what": "%s: %s" % (label, w["what"]), "expected": w["expected"], "observed": w["observed"], "witness": w["name"],
            "finding_key": key, "names": total, "violating_names": {str(k): x for k, x in counts.items()},
            "first_witness_per_key": {str(k): v["name"] for k, v in firsts.items()}}


def check_layer(spec):
    """All token sequences of length spec['len'] starting with spec['prefix'] (token indices)."""
    _require_corpus_agreement()
    length, prefix = spec["len"], list(spec["prefix"])
    ext = min(2, length - len(prefix))
    tasks = [(length, prefix + list(p)) for p in itertools.product(range(NT), repeat=ext)]
    return _merge(_get_pool().map(_task_prefix, tasks, chunksize=1), "block of %d-token names" % length)


def check_sample(spec):
    _require_corpus_agreement()
    per = spec["n"] // 16
    tasks = [(spec["len"], per, spec["seed"] * 1000 + k) for k in range(16)]
    return _merge(_get_pool().map(_task_sample, tasks, chunksize=1), "sample of %d-token names" % spec["len"])


# ------------------------------------------------------------------------------------------------ middleware
def _valid(name):
    try:
        name_sections(name)
        return True
    except RefInvalidName:
        return False


def check_middleware(spec):
    _require_corpus_agreement()
    fields, inplace = spec["fields"], spec["inplace"]
    entry = Entry(entry_type="book", key="key1", fields=[Field(key=k, value=(list(v) if isinstance(v, list) else v), start_line=i)
                                                         for i, (k, v) in enumerate(fields)], start_line=3, raw="@book{key1,...}")
    name_fields = [(k, v) for k, v in fields if k in NAME_FIELDS]
    first_bad = next((k for k, v in name_fields if not all(_valid(n) for n in v)), None)
    try:
        out = SplitNameParts(allow_inplace_modification=inplace).transform(Library([entry]))
    except Exception as e:
        return {"what": "SplitNameParts raised", "expected": "an entry or a MiddlewareErrorBlock", "observed": "%s: %s" % (type(e).__name__, e), "finding_key": None}
    if len(out.blocks) != 1:
        return {"what": "SplitNameParts did not return exactly one block", "expected": "1 block", "observed": repr(out.blocks)[:200], "finding_key": None}
    b = out.blocks[0]
    if not inplace and [f.value for f in entry.fields] != [v for _, v in fields]:
        return {"what": "copy mode modified the input entry", "expected": repr(fields), "observed": repr([f.value for f in entry.fields]), "finding_key": None}
    if first_bad is None:
        if not isinstance(b, Entry):
            return {"what": "all names valid but no Entry came back", "expected": "Entry", "observed": repr(b)[:200], "finding_key": None}
        got_entry = b
    else:
        if not isinstance(b, MiddlewareErrorBlock):
            return {"what": "field %s holds an invalid name but no MiddlewareErrorBlock came back (silently altered name)" % first_bad,
                    "expected": "MiddlewareErrorBlock", "observed": repr(b)[:300], "finding_key": None}
        if not isinstance(b.error, InvalidNameError):
            return {"what": "error block does not carry an InvalidNameError", "expected": "InvalidNameError", "observed": repr(b.error), "finding_key": None}
        got_entry = b.ignore_error_block
        if not isinstance(got_entry, Entry):
            return {"what": "error block does not retain the entry", "expected": "Entry", "observed": repr(got_entry)[:200], "finding_key": None}
    if got_entry.key != "key1" or got_entry.entry_type != "book" or [f.key for f in got_entry.fields] != [k for k, _ in fields]:
        return {"what": "entry key/type/field keys changed", "expected": repr([k for k, _ in fields]), "observed": repr([f.key for f in got_entry.fields]), "finding_key": None}
    seen_bad = False
    for (k, v), f in zip(fields, got_entry.fields):
        if k not in NAME_FIELDS or k == first_bad or seen_bad:
            seen_bad = seen_bad or k == first_bad
            # non-name fields never change; the offending field keeps its original value; later fields are untouched
            if f.value != v:
                return {"what": "field %s must be unchanged%s" % (k, " (it holds the invalid name)" if k == first_bad else ""),
                        "expected": repr(v), "observed": repr(f.value), "finding_key": None}
            continue
        if first_bad is not None and f.value == v:
            continue            # documented: the middleware may be "not or only partially applied" inside an error block
        if not isinstance(f.value, list) or len(f.value) != len(v):
            return {"what": "field %s is not a list of %d NameParts" % (k, len(v)), "expected": "%d NameParts" % len(v), "observed": repr(f.value)[:300], "finding_key": None}
        for n, np in zip(v, f.value):
            viol = name_violation(n, parse=lambda _n, _np=np: _np)
            if viol:
                viol["what"] = "field %s through SplitNameParts: %s" % (k, viol["what"])
                return viol
    return None


CHECKS = {"C13.corpus": check_corpus, "C13.name": check_name, "C13.layer": check_layer, "C13.sample": check_sample, "C13.middleware": check_middleware}


# ------------------------------------------------------------------------------------------------ generation
WORDS = ["AA", "Bb", "bb", "cc", "DD", "de", "la", "van", "von", "La", "Jean", "Knuth", "E.", "Jr.", "III", "d'Aviano", "1", "2004", "{x}", "{bb}", "{DD}",
         "{de la}", "{\\'E}mile", "{\\'e}mile", "\\'Emile", "\\'emile", "{\\LaTeX}", "{\\sltt DVI}", "{\\sltt xDVIx}", "{b}B", "{B}b", "\\BB{b}", "\\bb{b}",
         "Vall{\\'e}e", "{\\v{S}}imon", "{\\v{s}}imon", "{\\relax}de", "{\\1}bb", "{1\\bb}", "{foo \\relax bar}", "{\\ bb}", "{A, B}", "x\\", "y\\\\", "\\,", "\\{",
         "\\}", "-", "a-b", "{", "}", "{{q}}"]
WORD_SEPS = [" ", " ", " ", " ", "  ", "~", "\t", "\n", ", ", ",", " , ", "", "\\ ", "\\~"]


def rand_name(rng, valid_only=False):
    n = rng.choice([1, 2, 2, 3, 3, 3, 4, 4, 5, 6, 8])
    words = WORDS if not valid_only else [w for w in WORDS if w not in ("{", "}")]
    out = [rng.choice(["", "", "", " ", ","])] if not valid_only else [""]
    for i in range(n):
        out.append(rng.choice(words))
        if i < n - 1:
            out.append(rng.choice(WORD_SEPS))
    out.append(rng.choice(["", "", "", "", " ", ",", "\\", "~"]) if not valid_only else "")
    return "".join(out)


def _nontrivial(name):
    try:
        return any(name_sections(name))
    except RefInvalidName:
        return True


def generate(tier, rng):
    _require_corpus_agreement()
    for i in range(len(load_corpus()["parts"])):
        yield "C13.corpus", {"i": i}, True
    for name, _reason in load_corpus()["invalid"]:
        yield "C13.name", {"name": name}, True
    for length in range(0, 5):
        for seq in itertools.product(TOKENS, repeat=length):
            s = "".join(seq)
            yield "C13.name", {"name": s}, _nontrivial(s)
    for length in ([5] if tier == "quick" else [5, 6, 7]):
        for first in range(NT):
            yield "C13.layer", {"len": length, "prefix": [first]}, True
    for length in ((6, 7) if tier == "quick" else (8, 9)):
        for k in range(8):
            yield "C13.sample", {"len": length, "n": 200000 if tier == "quick" else 1000000, "seed": rng.randrange(10 ** 6)}, True
    for _ in range(4000 if tier == "quick" else 60000):
        s = rand_name(rng)
        yield "C13.name", {"name": s}, _nontrivial(s)
    fixed = [[["author", ["AA bb CC"]]], [["author", ["AA,"]]], [["author", ["AA", "{BB"]], ["title", "T, {x"]],
             [["editor", ["Cc, dd, AA"]], ["author", ["AA, BB, CC, DD"]], ["translator", ["bb CC"]]], [["title", "AA,"], ["year", "1990"]]]
    for i in range(1500 if tier == "quick" else 20000):
        if i < 2 * len(fixed):
            fields = fixed[i % len(fixed)]
        else:
            keys = rng.sample(list(NAME_FIELDS), rng.choice([1, 2, 3]))
            p_invalid = rng.choice([0.0, 0.0, 0.15, 0.5])
            fields = [[k, [rand_name(rng, valid_only=rng.random() >= p_invalid) for _ in range(rng.choice([1, 1, 2, 3]))]] for k in keys]
            fields.append(["title", rng.choice(["AA, BB, CC, DD", "{unbalanced", "T"])])
            rng.shuffle(fields)
        yield "C13.middleware", {"fields": fields, "inplace": bool(i % 2)}, True


def known_witnesses():
    """Does each recognised defect family still have its witness on the current tree?  (False -> stale entry.)"""
    out = {}
    for key, names in ((F8V, ["AA bb CC dd"]), (F8B, ["Name\\"]),
                       (N13, ["AA {\\v{S}}imon CC", "AA {\\1}bb CC", "{1\\bb} AA, CC", "AA {\\ bb} CC"])):
        vs = [name_violation(n) for n in names]
        out[key] = any(v is not None and v.get("finding_key") == key for v in vs)
    return out
