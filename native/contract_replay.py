"""Replay of a solver counter-model on the real code: rebuild the concrete inputs, call the real function
under its whole contract (runtime reading of the same clause texts), report every violated clause.

Usage (through run.py):  run.py Cxx --replay FILE   where FILE has kind == "obligation" and a "concrete" part.
"""
import copy
import importlib
import json

from native import dsl


def build_value(spec, objs):
    k = spec["k"]
    if k in ("str", "int", "bool"):
        return spec["v"]
    if k == "none":
        return None
    if k == "ref":
        return objs[spec["id"]]
    if k == "list":
        lst = []
        objs[spec["id"]] = lst
        lst.extend(build_value(x, objs) for x in spec["items"])
        return lst
    if k == "tuple":
        return tuple(build_value(x, objs) for x in spec["items"])
    if k == "dict":
        d = {}
        objs[spec["id"]] = d
        for kk, vv in spec["items"]:
            d[build_value(kk, objs)] = build_value(vv, objs)
        return d
    if k == "set":
        return set(build_value(x, objs) for x in spec["items"])
    if k == "obj":
        cls = dsl.repo_classes().get(spec["cls"])
        if cls is None:
            import builtins
            cls = getattr(builtins, spec["cls"])
        if isinstance(cls, type) and issubclass(cls, BaseException):
            o = cls.__new__(cls)
        else:
            o = object.__new__(cls)
        objs[spec["id"]] = o
        for a, v in spec["attrs"].items():
            object.__setattr__(o, a, build_value(v, objs))
        return o
    if k == "class":
        return dsl.repo_classes()[spec["name"]]
    raise ValueError(k)


def replay(d):
    """d: replay file content.  Returns a list of violation dicts (empty = not reproduced)."""
    reg = dsl.registry()
    q = d["function"]
    c = reg["contracts"][q]
    fn, kind = dsl.resolve_function(q.split("#")[0])
    objs = {}
    order = d["concrete"]["order"]
    params = {p: build_value(d["concrete"]["params"][p], objs) for p in order}
    pre_ids = dsl.reachable_ids(list(params.values()))
    memo = {}
    old_params = copy.deepcopy(params, memo)
    ctx = dsl.Ctx(dict(params), old_env=old_params, memo=memo, pre_ids=pre_ids)
    # reverse map copy -> original for identity comparisons
    rev = {}
    todo = list(params.values())
    seen = set()
    while todo:
        o = todo.pop()
        if id(o) in seen or isinstance(o, (str, int, float, bool, type(None), type)):
            continue
        seen.add(id(o))
        if id(o) in memo:
            rev[id(memo[id(o)])] = o
        if isinstance(o, (list, tuple, set)):
            todo.extend(o)
        elif isinstance(o, dict):
            todo.extend(o.values())
        elif hasattr(o, "__dict__"):
            todo.extend(vars(o).values())
    ctx.rev_obj = rev
    notes = []
    strict = bool(d.get("strict_requires"))
    # the input must satisfy the precondition natively, otherwise the model is not a legal input
    for name, text in (c.get("requires") or {}).items():
        try:
            if not dsl.ev(text, ctx):
                return [], [f"precondition {name} does not hold on the reconstructed input"]
        except dsl.NotEvaluable as e:
            notes.append(f"requires {name} not evaluable natively ({e})")
            if strict:
                # a candidate found without the quantified hypotheses is only a witness if it is provably a legal input
                return [], notes + ["candidate rejected: its legality cannot be established natively"]
        except Exception as e:
            return [], [f"precondition {name} raised {type(e).__name__} on the reconstructed input"]
    args = [params[p] for p in order]
    result, exc = None, None
    try:
        result = fn(*args)
    except Exception as e:     # noqa
        exc = e
    viols = []
    raises = c.get("raises") or {}
    if exc is not None:
        allowed = [k for k in raises if any(b.__name__ == k for b in type(exc).__mro__)]
        ctx.extra = {"exc": exc}
        if not allowed:
            viols.append({"what": f"{type(exc).__name__} escapes {q}; the contract allows {sorted(raises) or 'no exception'}",
                          "clause": f"raises#no-{type(exc).__name__}", "observed": repr(exc)[:300], "expected": "no such exception"})
        else:
            spec = raises[allowed[0]]
            if spec.get("when") is not None:
                try:
                    ctx.in_old = True
                    ok = dsl.ev(spec["when"], ctx)
                    ctx.in_old = False
                    if not ok:
                        viols.append({"what": f"{allowed[0]} raised although its condition does not hold", "clause": f"raises#{allowed[0]}.when",
                                      "expected": spec["when"], "observed": repr(exc)[:200]})
                except dsl.NotEvaluable as e:
                    ctx.in_old = False
                    notes.append(f"raises.when not evaluable ({e})")
            for name, text in (spec.get("ensures") or {}).items():
                try:
                    if not dsl.ev(text, ctx):
                        viols.append({"what": f"exceptional postcondition {name} violated", "clause": f"raises#{allowed[0]}.{name}", "expected": text,
                                      "observed": "clause evaluates to False on the real objects"})
                except dsl.NotEvaluable as e:
                    notes.append(f"{name} not evaluable ({e})")
    else:
        ctx.extra = {"result": result}
        for ecls, spec in raises.items():
            if spec.get("when") is not None and spec.get("exact", True):
                try:
                    ctx.in_old = True
                    w = dsl.ev(spec["when"], ctx)
                    ctx.in_old = False
                    if w:
                        viols.append({"what": f"returns normally although {ecls} was due", "clause": f"raises#{ecls}.must-raise", "expected": spec["when"],
                                      "observed": repr(result)[:200]})
                except dsl.NotEvaluable as e:
                    ctx.in_old = False
                    notes.append(f"when not evaluable ({e})")
        for name, text in (c.get("ensures") or {}).items():
            try:
                if not dsl.ev(text, ctx):
                    viols.append({"what": f"postcondition {name} violated", "clause": f"ensures#{name}", "expected": text,
                                  "observed": f"result = {result!r}"[:400]})
            except dsl.NotEvaluable as e:
                notes.append(f"{name} not evaluable ({e})")
            except Exception as e:
                notes.append(f"{name}: evaluation raised {type(e).__name__}: {e}")
    for v in viols:
        v["inputs"] = {p: repr(params[p])[:300] for p in order}
    return viols, notes
