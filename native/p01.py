"""C01 bounded stand-in: parse_string / write_string never raise, never hang; failed blocks carry error + raw text.

Oracle (from the property statement): for the input text, `bibtexparser.parse_string(text)` returns a Library (no
exception of any kind, RecursionError included), every block in it is a Block, every failed block carries an exception
object as `error` and a str as `raw`, and `bibtexparser.write_string(library)` returns a str (no exception).  A wall
limit per input stands for "no hang": small inputs run under an interval timer, the size-scaled inputs run in a forked
child that is killed when the limit passes.
"""
import re
import signal

import bibtexparser
from bibtexparser.library import Library
from bibtexparser.model import Block
from native import tokens

ALPHA = ["{", "}", "\"", ",", "=", "\n", "\\", "@a", "@string", "@comment", "x"]

RULE = ("(1) every token sequence, smallest first, over the 11 tokens { } \" , = LF backslash @a @string @comment x (all six "
        "marks, the escape, the three handler kinds entry/string/brace-block, plain text); (2) random garbage: token soup "
        "over the full 19-token alphabet, arbitrary Unicode (controls, NUL, exotic whitespace, astral planes, lone "
        "surrogates) mixed with marks, and mutated valid blocks; (3) size-scaled families of n lines / n levels: blank "
        "lines (LF, CRLF), comment-only lines, blank runs inside an entry / a value / after a block, '{'*n alone / in a "
        "value / balanced n deep in value, @comment, @string, '}'*n, quote runs, blocks unterminated at EOF, n blocks "
        "each cut off by the next, n small entries, n duplicate keys, n strings, n fields, one very long line, '@' runs, @string definitions referring to each other (ring of n, chain of n in both orders, self references, # concatenations) and referenced from entry fields; plus 6 small documents of such rings. "
        "distinct = distinct text; non-trivial = the text has a non-whitespace character")
BOUND = {"quick": "all sequences of <= 5 tokens over 11 tokens (177,156); 3000 random texts of <= 200 characters; 38 families x n in {10, 100, 1000} "
                  "lines/levels; wall limit 10 s per input",
         "thorough": "all sequences of <= 6 tokens over 11 tokens (1,948,717); 60000 random texts of <= 400 characters; 38 families x n in "
                     "{10, 100, 1000, 10^4, 10^5}; wall limit 10 s per small input, 120 s per size-scaled input"}

F1 = "F1-recursion-newlines"
SMALL_LIMIT_S = 10.0
# the splitter's marks (only used to *classify* a RecursionError as the known family: a long run of newline marks)
_MARK = re.compile(r"(?<!\\)[\{\}\",=\n]|@[\w]*( |\t)*(?={)")


class _WallLimit(BaseException):
    pass


def _on_alarm(signum, frame):
    raise _WallLimit()


def _short(s, n=120):
    r = repr(s)
    return r if len(r) <= n else r[:n] + "...(%d chars)" % len(s)


def _longest_newline_mark_run(text):
    best = run = 0
    for m in _MARK.finditer(text):
        if m.group(0) == "\n":
            run += 1
            if run > best:
                best = run
        else:
            run = 0
    return best


def _exc_violation(call, e, text):
    key = None
    if isinstance(e, RecursionError) and _longest_newline_mark_run(text) >= 200:
        key = F1
    if isinstance(e, _WallLimit):
        return {"what": "%s did not return within the wall limit" % call, "expected": "a result", "observed": "still running"}
    return {"what": "%s raised" % call, "expected": "no exception (syntax errors become failed blocks)",
            "observed": "%s: %s" % (type(e).__name__, _short(str(e), 100)), "finding_key": key}


def _core(text):
    try:
        lib = bibtexparser.parse_string(text)
    except (KeyboardInterrupt, SystemExit):
        raise
    except BaseException as e:
        return _exc_violation("parse_string", e, text)
    if not isinstance(lib, Library):
        return {"what": "parse_string did not return a Library", "expected": "Library", "observed": type(lib).__name__}
    for i, b in enumerate(lib.blocks):
        if not isinstance(b, Block):
            return {"what": "block %d of the library is not a Block" % i, "expected": "Block", "observed": type(b).__name__}
    for b in lib.failed_blocks:
        if not isinstance(b.error, BaseException):
            return {"what": "a failed block carries no error", "expected": "an exception object", "observed": _short(b.error)}
        if not isinstance(b.raw, str):
            return {"what": "a failed block carries no raw text", "expected": "str", "observed": _short(b.raw)}
    try:
        out = bibtexparser.write_string(lib)
    except (KeyboardInterrupt, SystemExit):
        raise
    except BaseException as e:
        return _exc_violation("write_string(parse_string(text))", e, text)
    if not isinstance(out, str):
        return {"what": "write_string did not return a str", "expected": "str", "observed": type(out).__name__}
    return None


def _guarded(text, limit_s=SMALL_LIMIT_S):
    old = signal.signal(signal.SIGALRM, _on_alarm)
    signal.setitimer(signal.ITIMER_REAL, limit_s)
    try:
        return _core(text)
    except _WallLimit:       # fired between the guarded calls: still "too slow"
        return {"what": "parse/write did not finish within the wall limit", "expected": "a result", "observed": "still running"}
    finally:
        signal.setitimer(signal.ITIMER_REAL, 0)
        signal.signal(signal.SIGALRM, old)


def _fast(text):
    v = _guarded(text)
    return None if v is None else (v.get("finding_key") or "?")


_PRE = None
_SHOWN = {}


def check_text(spec):
    """spec: the input text itself."""
    global _PRE
    pre, _PRE = _PRE, None
    if pre is not None and pre[0] == spec:
        verdict = pre[1]
        if verdict is None:
            return None
        if verdict != "?" and _SHOWN.get(verdict, 0) >= 3:
            return {"what": "same family as the first violations reported (replay this input for the details)", "finding_key": verdict}
        _SHOWN[verdict] = _SHOWN.get(verdict, 0) + 1
    return _guarded(spec)


# ---- size-scaled families -------------------------------------------------------------------------------------------
FAMILIES = {
    "blank_lf": lambda n: "\n" * n,
    "blank_crlf": lambda n: "\r\n" * n,
    "comment_lines": lambda n: "% a comment-only line\n" * n,
    "comment_lines_then_entry": lambda n: "% c\n" * n + "@a{k, t = {x}}\n",
    "entry_then_blank": lambda n: "@a{k, t = {x}}\n" + "\n" * n,
    "blank_inside_entry": lambda n: "@a{k,\n" + "\n" * n + "t = {x}}",
    "blank_inside_value": lambda n: "@a{k, t = {" + "\n" * n + "}}",
    "blank_inside_comment": lambda n: "@comment{" + "x\n" * n + "}",
    "open_braces": lambda n: "{" * n,
    "open_braces_in_value": lambda n: "@a{k, t = " + "{" * n,
    "nested_value": lambda n: "@a{k, t = " + "{" * n + "x" + "}" * n + "}",
    "nested_comment": lambda n: "@comment{" + "{" * n + "}" * n + "}",
    "nested_string": lambda n: "@string{s = " + "{" * n + "}" * n + "}",
    "nested_preamble_open": lambda n: "@preamble{" + "{" * n,
    "close_braces": lambda n: "}" * n,
    "close_braces_after_entry": lambda n: "@a{k, t = {x}}" + "}" * n,
    "quotes": lambda n: "\"" * n,
    "quotes_in_value": lambda n: "@a{k, t = " + "\"" * n,
    "unterminated_at_eof": lambda n: "@a{k,\n" + "".join(" f%d = {x},\n" % i for i in range(n)),
    "unterminated_value_at_eof": lambda n: "@a{k,\n t = {" + "word word\n" * n,
    "unterminated_cut_by_next": lambda n: "".join("@a{k%d,\n t = {x\n" % i for i in range(n)),
    "unterminated_strings": lambda n: "".join("@string{s%d = \"v\n" % i for i in range(n)),
    "many_entries": lambda n: "".join("@a{k%d,\n t = {x},\n y = 1990\n}\n\n" % i for i in range(n)),
    "many_entries_one_line": lambda n: "".join("@a{k%d, t = {x}} " % i for i in range(n)),
    "many_duplicate_keys": lambda n: "@a{k, t = {x}}\n" * n,
    "many_strings": lambda n: "".join("@string{s%d = \"v\"}\n" % i for i in range(n)) + "@a{k, t = s1}\n",
    "many_fields": lambda n: "@a{k,\n" + "".join(" f%d = {x},\n" % i for i in range(n)) + "}",
    "many_duplicate_fields": lambda n: "@a{k,\n" + " f = {x},\n" * n + "}",
    "long_line": lambda n: "@a{k, t = {" + "x" * (10 * n) + "}}",
    "at_signs": lambda n: "@" * n,
    "block_starts": lambda n: "@a{" * n,
    "backslashes": lambda n: "\\" * n + "\n" + "\\{" * n,
    "commas_and_equals": lambda n: "@a{k" + ",=" * n,
    # @string definitions given in terms of other @strings (unenclosed values), referenced from an entry field
    "string_ring": lambda n: "".join("@string{s%d = s%d}\n" % (i, (i + 1) % n) for i in range(n)) + "@a{k, t = s0, u = s%d}\n" % (n // 2),
    "string_chain": lambda n: "".join("@string{s%d = s%d}\n" % (i, i + 1) for i in range(n)) + "@string{s%d = \"v\"}\n@a{k, t = s0}\n" % n,
    "string_chain_backwards": lambda n: "@string{s0 = \"v\"}\n" + "".join("@string{s%d = s%d}\n" % (i + 1, i) for i in range(n)) + "@a{k, t = s%d}\n" % n,
    "string_self_references": lambda n: "".join("@string{s%d = s%d}\n@a{k%d, t = s%d}\n" % (i, i, i, i) for i in range(n)),
    "string_concatenations": lambda n: "@string{a = b # a}\n@string{b = a # b}\n" + "".join("@a{k%d, t = a # b, u = b}\n" % i for i in range(n)),
}
# small documents with @string definitions referring to each other (rings, self reference, reference to a missing name)
STRING_DOCS = ["@string{a = b}\n@string{b = a}\n@article{k, journal = a}\n",
               "@string{a = a}\n@article{k, journal = a}\n",
               "@string{a = b}\n@string{b = c}\n@string{c = a}\n@article{k, x = c, y = b, z = a, w = d}\n",
               "@article{k, journal = a}\n@string{a = b}\n@string{b = a}\n",
               "@string{a = b}\n@string{b = \"v\"}\n@article{k, journal = a, other = B}\n@string{B = a}\n",
               "@string{a = b}\n@string{b = a}\n@article{k, journal = a\n@article{k2, journal = b}\n"]


def _family_text(spec):
    return FAMILIES[spec["family"]](spec["n"])


def _scaled_child(spec):
    return _core(_family_text(spec))


def check_scaled(spec):
    """spec: {"family": name, "n": int, "limit_s": seconds}; evaluated in a forked child that is killed at the limit."""
    status, res = tokens.with_timeout(_scaled_child, spec, spec["limit_s"])
    if status == "ok":
        return res
    if status == "timeout":
        return {"what": "parse_string/write_string did not finish within %s s (child killed)" % spec["limit_s"], "expected": "a result",
                "observed": "no result for %d characters" % len(_family_text(spec))}
    if status == "died":
        return {"what": "the interpreter died while parsing/writing", "expected": "a result", "observed": "child exit code %r" % (res,)}
    raise RuntimeError("oracle error in child: %s" % (res,))


CHECKS = {"C01.text": check_text, "C01.scaled": check_scaled}

# ---- random garbage ---------------------------------------------------------------------------------------------------
_SPECIAL = ["\x00", "\x0b", "\x0c", "\x1c", "\x1d", "\x1e", "\x1f", "\x85", "\xa0", "\u2028", "\u2029", "\ufeff", "\u200b", "\u0301", "\u202e",
            "\ud800", "\udfff", "\U0001f600", "\U0010ffff", "\u0130", "\u017f", "\u00df", "\u0663", "\u00b2", "@\u017ftring",
            "@\uff23\uff2f\uff2d\uff2d\uff25\uff2e\uff34", "@\u00e9", "\r", "%"]
_VALID = ["@article{k,\n  title = {A {nested} title},\n  year = 1990,\n  author = \"Q, A and B\"\n}\n", "@string{s = \"a string\"}\n",
          "@preamble{\"pre\" # s}\n", "@comment{explicit {nested}}\n", "@book{b, title = s # \" and \" # {x}, month = jan}\n", "free text\n"]


def _rand_char(r):
    k = r.random()
    if k < 0.3:
        return r.choice(tokens.ALPHABET)
    if k < 0.5:
        return r.choice(_SPECIAL)
    if k < 0.7:
        return chr(r.randrange(0x20, 0x7f))
    if k < 0.85:
        return chr(r.randrange(0, 0x3000))
    return chr(r.randrange(0, 0x110000))


def _rand_text(r, maxlen):
    mode = r.randrange(3)
    if mode == 0:
        return "".join(r.choice(tokens.ALPHABET) for _ in range(r.randrange(1, 60)))
    if mode == 1:
        return "".join(_rand_char(r) for _ in range(r.randrange(1, maxlen)))
    s = "".join(r.choice(_VALID) for _ in range(r.randrange(1, 4)))
    for _ in range(r.randrange(1, 6)):
        i = r.randrange(len(s) + 1)
        op = r.randrange(4)
        if op == 0:
            s = s[:i] + s[i + r.randrange(1, 8):]
        elif op == 1:
            s = s[:i] + _rand_char(r) + s[i:]
        elif op == 2:
            s = s[:i]
        else:
            j = r.randrange(len(s) + 1)
            s = s[:min(i, j)] + s[max(i, j):] + s[min(i, j):max(i, j)]
    return s[:maxlen]


def generate(tier, rng):
    global _PRE
    quick = tier == "quick"
    for text, verdict in tokens.scan(_fast, ALPHA, 5 if quick else 6):
        _PRE = (text, verdict)
        yield "C01.text", text, bool(text.strip())
    for text in STRING_DOCS:
        yield "C01.text", text, True
    sizes = [10, 100, 1000] if quick else [10, 100, 1000, 10 ** 4, 10 ** 5]
    for n in sizes:
        for fam in FAMILIES:
            yield "C01.scaled", {"family": fam, "n": n, "limit_s": 10 if n <= 1000 else 120}, True
    for _ in range(3000 if quick else 60000):
        text = _rand_text(rng, 200 if quick else 400)
        yield "C01.text", text, bool(text.strip())


def known_witnesses():
    v = check_scaled({"family": "blank_lf", "n": 1100, "limit_s": 10})
    return {F1: bool(v) and v.get("finding_key") == F1}
