"""Derivations of the dialect grammar (DESIGN.md section 6) with constructive ground truth.

A *derivation* is a JSON-serialisable list of block derivations.  Every optional slot may be omitted
(whitespace slots default to "", lists to [], `comma` to True, keywords to their lower-case spelling):

  entry    {"t":"entry","lead":ws,"type":T,"hs":hs,"w0":ws,"key":K,"w1":ws,"comma":bool,"w2":ws,"fields":[F..],"trail":ws}
             renders  lead '@' T hs '{' w0 K w1 [ ',' w2 F.. ] '}' trail          (comma False => no fields)
  field F  {"key":k,"e1":ws,"e2":ws,"pieces":[P..],"cws":[[ws,ws]..],"wa":ws,"comma":bool,"wb":ws}
             renders  k e1 '=' e2 VALUE wa [ ',' wb ]        (comma may be False on the last field only)
  VALUE    P0 ( c1 '#' c2 Pi )*            cws[i-1] = [c1, c2]
  piece P  ["num",digits] | ["ident",name] | ["brace",inner] | ["quote",inner]     ({inner} / "inner")
  string   {"t":"string","kw":"String","hs","w0","key","e1","e2","pieces","cws","w3"}
             renders  lead '@' kw hs '{' w0 key e1 '=' e2 VALUE w3 '}' trail
  preamble {"t":"preamble","kw","hs","text"}     ecomment {"t":"ecomment","kw","hs","text"}
  icomment {"t":"icomment","text"}               (free text, stripped, non-blank)

`render`, `layout` and `truth` are computed from the derivation alone (string concatenation and
counting), never by parsing.  `problems(d)` is the recogniser of the grammar's side conditions
(written from DESIGN.md section 6); generators only emit derivations for which it returns None.
"""
import re

WS_UNITS = [" ", "\t", "\n", "\r\n"]
_WS_RE = re.compile(r"(?: |\t|\n|\r\n)*\Z")
_HS_RE = re.compile(r"[ \t]*\Z")
_TYPE_RE = re.compile(r"\w+\Z")
_NUM_RE = re.compile(r"[0-9]+\Z")
BLOCKSTART_RE = re.compile(r"@\w*[ \t]*\{")
_KEY_FORBIDDEN = set('{}",=#\\')
RESERVED = ("comment", "preamble", "string")


# ------------------------------------------------------------------------------------------ rendering

def piece_text(p):
    k, t = p
    if k == "brace":
        return "{" + t + "}"
    if k == "quote":
        return '"' + t + '"'
    return t


def value_text(pieces, cws=None):
    out = [piece_text(pieces[0])]
    for i, p in enumerate(pieces[1:]):
        c = cws[i] if cws and i < len(cws) else ("", "")
        out += [c[0], "#", c[1], piece_text(p)]
    return "".join(out)


def _field_text(f):
    s = f["key"] + f.get("e1", "") + "=" + f.get("e2", "") + value_text(f["pieces"], f.get("cws")) + f.get("wa", "")
    if f.get("comma", True):
        s += "," + f.get("wb", "")
    return s


def block_text(b):
    """Text of one block without its lead/trail whitespace."""
    t = b["t"]
    if t == "icomment":
        return b["text"]
    if t == "entry":
        s = "@" + b["type"] + b.get("hs", "") + "{" + b.get("w0", "") + b["key"] + b.get("w1", "")
        if b.get("comma", True):
            s += "," + b.get("w2", "") + "".join(_field_text(f) for f in b.get("fields", []))
        return s + "}"
    if t == "string":
        return ("@" + b.get("kw", "string") + b.get("hs", "") + "{" + b.get("w0", "") + b["key"] + b.get("e1", "") + "="
                + b.get("e2", "") + value_text(b["pieces"], b.get("cws")) + b.get("w3", "") + "}")
    if t == "preamble":
        return "@" + b.get("kw", "preamble") + b.get("hs", "") + "{" + b["text"] + "}"
    if t == "ecomment":
        return "@" + b.get("kw", "comment") + b.get("hs", "") + "{" + b["text"] + "}"
    raise ValueError(t)


def layout(d):
    """(text, starts): the document and the offset of every block's first character."""
    parts, starts, pos = [], [], 0
    for b in d:
        lead = b.get("lead", "")
        body = block_text(b)
        trail = b.get("trail", "")
        starts.append(pos + len(lead))
        parts += [lead, body, trail]
        pos += len(lead) + len(body) + len(trail)
    return "".join(parts), starts


def render(d):
    return layout(d)[0]


def truth(d):
    """Expected blocks: lower-cased type, exact key, (field key, verbatim value) in order, string key/value,
    preamble text, comment text (texts stripped: 'up to surrounding whitespace'), 0-based line of the first character."""
    text, starts = layout(d)
    out = []
    for b, off in zip(d, starts):
        line = text.count("\n", 0, off)
        t = b["t"]
        if t == "entry":
            fields = [[f["key"], value_text(f["pieces"], f.get("cws"))] for f in b.get("fields", [])] if b.get("comma", True) else []
            out.append({"t": "entry", "type": b["type"].lower(), "key": b["key"], "fields": fields, "line": line})
        elif t == "string":
            out.append({"t": "string", "key": b["key"], "value": value_text(b["pieces"], b.get("cws")), "line": line})
        elif t == "preamble":
            out.append({"t": "preamble", "value": b["text"].strip(), "line": line})
        elif t == "ecomment":
            out.append({"t": "ecomment", "comment": b["text"].strip(), "line": line})
        else:
            out.append({"t": "icomment", "comment": b["text"].strip(), "line": line})
    return out


# ------------------------------------------------------------------------------- side-condition recogniser

def _scan_balanced(s, quote_mode=False):
    """None if `s` is legal balanced text, else a reason.  quote_mode: additionally no unescaped '"' at depth 0.
    A backslash always forms a pair with the next character (an escaped delimiter or a TeX control symbol)."""
    depth, i, n = 0, 0, len(s)
    while i < n:
        c = s[i]
        if c == "\\":
            if i + 1 >= n:
                return "text ends in a backslash"
            if s[i + 1] in "\\\n\r":
                return "backslash before backslash/newline"
            i += 2
            continue
        if c == "{":
            depth += 1
        elif c == "}":
            depth -= 1
            if depth < 0:
                return "unbalanced }"
        elif c == '"' and quote_mode and depth == 0:
            return "unescaped quote at depth 0 of a quoted piece"
        i += 1
    if depth:
        return "unbalanced {"
    return None


def _name_problem(s):
    if not s:
        return "empty name"
    for c in s:
        if c in _KEY_FORBIDDEN or c.isspace():
            return "illegal character %r in name" % c
    return None


def _ws_problem(b, names, rx=_WS_RE):
    for nme in names:
        if not rx.match(b.get(nme, "")):
            return "slot %s is not whitespace of the grammar" % nme
    return None


def _value_problem(pieces, cws):
    if not pieces:
        return "value without pieces"
    if cws is not None and len(cws) not in (0, len(pieces) - 1):
        return "cws length"
    for c in cws or []:
        if not (_WS_RE.match(c[0]) and _WS_RE.match(c[1])):
            return "concat whitespace"
    for k, t in pieces:
        if k == "num":
            if not _NUM_RE.match(t):
                return "num"
        elif k == "ident":
            r = _name_problem(t)
            if r:
                return r
        elif k == "brace":
            r = _scan_balanced(t)
            if r:
                return r
        elif k == "quote":
            r = _scan_balanced(t, quote_mode=True)
            if r:
                return r
        else:
            return "piece kind"
    return None


def quote_has_inner_quote(t):
    """Does the inner text of a quoted piece contain an unescaped '"' inside braces (legal BibTeX)?"""
    depth, i = 0, 0
    while i < len(t):
        c = t[i]
        if c == "\\":
            i += 2
            continue
        if c == "{":
            depth += 1
        elif c == "}":
            depth -= 1
        elif c == '"' and depth > 0:
            return True
        i += 1
    return False


def has_f4_trigger(d):
    """The derivation contains an entry field with a quoted piece whose text has a '"' inside braces."""
    for b in d:
        if b["t"] == "entry":
            for f in b.get("fields", []):
                for k, t in f["pieces"]:
                    if k == "quote" and quote_has_inner_quote(t):
                        return True
    return False


def problems(d, distinct=True):
    """None when `d` is a derivation of the dialect grammar satisfying every side condition, else a reason.
    distinct=True additionally requires pairwise distinct entry keys, string keys and per-entry field keys
    (documents with repeated keys are C09's domain)."""
    prev = None
    ekeys, skeys = set(), set()
    for b in d:
        t = b["t"]
        r = _ws_problem(b, ("lead", "trail"))
        if r:
            return r
        if t == "icomment":
            s = b["text"]
            if not s or s != s.strip():
                return "free text must be non-blank and stripped"
            if prev == "icomment":
                return "adjacent free-text comments"
            if s.endswith("\\") or "\\\n" in s or "\\\r" in s or "\\\\" in s:
                return "backslash rule in free text"
        elif t == "entry":
            if not _TYPE_RE.match(b["type"]) or b["type"].lower().startswith(RESERVED):
                return "entry type"
            r = _ws_problem(b, ("hs",), _HS_RE) or _ws_problem(b, ("w0", "w1", "w2")) or _name_problem(b["key"])
            if r:
                return r
            fields = b.get("fields", [])
            if not b.get("comma", True) and fields:
                return "fields without a comma after the key"
            fk = set()
            for i, f in enumerate(fields):
                r = (_name_problem(f["key"]) or _ws_problem(f, ("e1", "e2", "wa", "wb")) or _value_problem(f["pieces"], f.get("cws")))
                if r:
                    return r
                if not f.get("comma", True) and i != len(fields) - 1:
                    return "missing comma between fields"
                if distinct and f["key"] in fk:
                    return "repeated field key"
                fk.add(f["key"])
            if distinct and b["key"] in ekeys:
                return "repeated entry key"
            ekeys.add(b["key"])
        elif t == "string":
            if b.get("kw", "string").lower() != "string":
                return "keyword"
            r = (_ws_problem(b, ("hs",), _HS_RE) or _ws_problem(b, ("w0", "e1", "e2", "w3")) or _name_problem(b["key"])
                 or _value_problem(b["pieces"], b.get("cws")))
            if r:
                return r
            if distinct and b["key"] in skeys:
                return "repeated string key"
            skeys.add(b["key"])
        elif t in ("preamble", "ecomment"):
            if b.get("kw", "preamble" if t == "preamble" else "comment").lower() != ("preamble" if t == "preamble" else "comment"):
                return "keyword"
            r = _ws_problem(b, ("hs",), _HS_RE) or _scan_balanced(b["text"])
            if r:
                return r
        else:
            return "block kind"
        prev = t
    # global side conditions, on the rendered text and the constructive block offsets
    text, starts = layout(d)
    legal = {off for b, off in zip(d, starts) if b["t"] != "icomment"}
    for m in BLOCKSTART_RE.finditer(text):
        if m.start() not in legal:
            return "text of the form @word{ that is not a block start (offset %d)" % m.start()
    if "\\\n" in text or "\\\r" in text:
        return "newline preceded by a backslash"
    return None


# ----------------------------------------------------------------------------- bounded-exhaustive enumeration
# Weighted token cost (COST): an entry block 1, a @string/@preamble/@comment block 2, a free-text comment 1 + its atoms,
# the comma after an entry key 1, each value piece 1, a trailing comma 1, each atom of inner text 1 or 2 (see the
# alphabets; a nested group is 1 + its content), each non-empty whitespace slot 2 (3 units, 2 for hs), a
# non-default spelling of the type/keyword 2.  Keys are assigned by position (Kk0,Kk1.. / Ss0,Ss1.. / Ta,Ub,Vc..; mixed case on purpose) and are free.

E_WS = [" ", "\n", "\r\n"]
E_HS = [" ", "\t"]
E_ATOMS = {"v": {1: ["a", ","], 2: ["=", "@", "\n", "\\{", "\\}", "\\\""]},     # field / string values ('"' costs 1 where legal)
           "b": {1: ["a"], 2: ["@", "\n", "\\}"]}}                                  # @preamble / @comment bodies
E_FREE = {1: ["x", "{", "}"], 2: ["%", '"', ",", "=", "@"]}                 # free-text atoms by cost
E_FKEYS = ["Ta", "Ub", "Vc", "Wd", "Xe", "Yf", "Zg"]
COST = {"entry": 1, "string": 2, "preamble": 2, "ecomment": 2, "icomment": 1, "comma": 1, "tcomma": 1, "ws": 2, "var": 2}


def _slot(alts):
    def f(n):
        return [""] if n == 0 else (alts if n == COST["ws"] else [])
    return f


_ws = _slot(E_WS)
_hs = _slot(E_HS)


def _opt(default, alts):
    def f(n):
        return [default] if n == 0 else (alts if n == COST["var"] else [])
    return f


_text_cache = {}


def _texts(n, quote_ok, inner_quote_ok, alpha="v"):
    """All inner texts of exact cost n.  quote_ok: a bare '"' may occur at this level;
    inner_quote_ok: ... inside nested groups."""
    key = (n, quote_ok, inner_quote_ok, alpha)
    r = _text_cache.get(key)
    if r is not None:
        return r
    if n == 0:
        r = [""]
    else:
        r = []
        for c, atoms in sorted(E_ATOMS[alpha].items()):
            if c > n:
                continue
            atoms = atoms + (['"'] if quote_ok and c == 1 else [])
            rest = _texts(n - c, quote_ok, inner_quote_ok, alpha)
            for a in atoms:
                for x in rest:
                    r.append(a + x)
        for m in range(n):
            for g in _texts(m, inner_quote_ok, inner_quote_ok, alpha):
                for x in _texts(n - 1 - m, quote_ok, inner_quote_ok, alpha):
                    r.append("{" + g + "}" + x)
    _text_cache[key] = r
    return r


_piece_cache = {}


def _pieces1(n, allow_f4):
    """single pieces of exact cost n"""
    key = (n, allow_f4)
    r = _piece_cache.get(key)
    if r is None:
        r = []
        if n == 1:
            r += [["num", "1"], ["ident", "x"]]
        if n >= 1:
            r += [["brace", t] for t in _texts(n - 1, True, True)]
            r += [["quote", t] for t in _texts(n - 1, False, allow_f4)]
        _piece_cache[key] = r
    return r


def _prod(n, slots):
    """tuples (v0, v1, ..) with slots[i](c_i) containing v_i and sum(c_i) == n"""
    if not slots:
        if n == 0:
            yield ()
        return
    first, rest = slots[0], slots[1:]
    for c in range(n + 1):
        vals = first(c)
        if not vals:
            continue
        for tail in _prod(n - c, rest):
            for v in vals:
                yield (v,) + tail


_value_cache = {}


def _values(n, allow_f4):
    """(pieces, cws) of exact cost n: 1..3 pieces"""
    key = (n, allow_f4)
    r = _value_cache.get(key)
    if r is not None:
        return r
    r = []
    for k in (1, 2, 3):
        if n < k:
            break
        slots = [lambda c: _pieces1(c, allow_f4)]
        for _ in range(k - 1):
            slots += [_ws, _ws, lambda c: _pieces1(c, allow_f4)]
        for tup in _prod(n, slots):
            pieces = [tup[0]] + [tup[3 * i + 3] for i in range(k - 1)]
            cws = [[tup[3 * i + 1], tup[3 * i + 2]] for i in range(k - 1)]
            r.append((pieces, cws))
    _value_cache[key] = r
    return r


def _put(dct, **kw):
    for k, v in kw.items():
        if v != "":
            dct[k] = v
    return dct


def _fields(n, allow_f4, idx=0):
    """field lists (possibly empty) of exact cost n; the last field may lack its comma (a present
    trailing comma costs 1)."""
    if n == 0:
        yield []
        return
    if idx >= len(E_FKEYS):
        return
    # this field is the last one: with or without trailing comma
    for vc in range(1, n + 1):
        vals = _values(vc, allow_f4)
        if not vals:
            continue
        for e1, e2, wa in _prod(n - vc, [_ws, _ws, _ws]):
            for pieces, cws in vals:
                f = _put({"key": E_FKEYS[idx], "pieces": pieces, "comma": False}, e1=e1, e2=e2, wa=wa)
                if cws:
                    f["cws"] = cws
                yield [f]
        if n - vc >= COST["tcomma"]:
            for e1, e2, wa, wb in _prod(n - vc - COST["tcomma"], [_ws, _ws, _ws, _ws]):
                for pieces, cws in vals:
                    f = _put({"key": E_FKEYS[idx], "pieces": pieces}, e1=e1, e2=e2, wa=wa, wb=wb)
                    if cws:
                        f["cws"] = cws
                    yield [f]
        # more fields follow (comma is part of the separator, free)
        for c_here in range(0, n - vc):
            rest_cost = n - vc - c_here
            if rest_cost < 1:
                continue
            heads = []
            for e1, e2, wa, wb in _prod(c_here, [_ws, _ws, _ws, _ws]):
                for pieces, cws in vals:
                    f = _put({"key": E_FKEYS[idx], "pieces": pieces}, e1=e1, e2=e2, wa=wa, wb=wb)
                    if cws:
                        f["cws"] = cws
                    heads.append(f)
            if not heads:
                continue
            for tail in _fields(rest_cost, allow_f4, idx + 1):
                if not tail:
                    continue
                for h in heads:
                    yield [h] + tail


def _kw(word):
    return _opt(word, [word.upper(), word[0].upper() + word[1:]] if word != "string" else ["STRING", "sTrInG"])


def _blocks(n, i, allow_f4, prev_kind):
    """blocks of exact cost n at position i (n >= 1)"""
    m = n - COST["entry"]
    if m >= 0:
        # entry without comma
        for lead, typ, hs, w0, w1 in _prod(m, [_ws, _opt("a", ["Ab"]), _hs, _ws, _ws]):
            yield _put({"t": "entry", "type": typ, "key": "Kk%d" % i, "comma": False}, lead=lead, hs=hs, w0=w0, w1=w1)
        # entry with comma and fields
        m -= COST["comma"]
        for fc in range(0, m + 1):
            flists = list(_fields(fc, allow_f4))
            if not flists:
                continue
            for lead, typ, hs, w0, w1, w2 in _prod(m - fc, [_ws, _opt("a", ["Ab"]), _hs, _ws, _ws, _ws]):
                for fl in flists:
                    b = _put({"t": "entry", "type": typ, "key": "Kk%d" % i}, lead=lead, hs=hs, w0=w0, w1=w1, w2=w2)
                    if fl:
                        b["fields"] = fl
                    yield b
    # string
    m = n - COST["string"]
    for vc in range(1, m + 1):
        vals = _values(vc, allow_f4)
        for lead, kw, hs, w0, e1, e2, w3 in _prod(m - vc, [_ws, _kw("string"), _hs, _ws, _ws, _ws, _ws]):
            for pieces, cws in vals:
                b = _put({"t": "string", "key": "Ss%d" % i, "pieces": pieces}, lead=lead, hs=hs, w0=w0, e1=e1, e2=e2, w3=w3)
                if kw != "string":
                    b["kw"] = kw
                if cws:
                    b["cws"] = cws
                yield b
    # preamble / explicit comment
    for t, word in (("preamble", "preamble"), ("ecomment", "comment")):
        m = n - COST[t]
        for tc in range(0, m + 1):
            for lead, kw, hs in _prod(m - tc, [_ws, _kw(word), _hs]):
                for txt in _texts(tc, True, True, "b"):
                    b = _put({"t": t, "text": txt}, lead=lead, hs=hs)
                    if kw != word:
                        b["kw"] = kw
                    yield b
    # free text: at least one atom, an internal separator " " / "\n" costs 1
    m = n - COST["icomment"]
    if prev_kind != "icomment" and m >= 1:
        for lc in (0, COST["ws"]):
            if m - lc < 1:
                continue
            for lead in _ws(lc):
                for txt in _free(m - lc):
                    yield _put({"t": "icomment", "text": txt}, lead=lead)


_free_cache = {}


def _free(n):
    r = _free_cache.get(n)
    if r is None:
        r = []
        for c, atoms in sorted(E_FREE.items()):
            if c == n:
                r += atoms
            elif c < n:
                r += [a + x for a in atoms for x in _free(n - c)]
                if n - c - 1 >= 1:
                    r += [a + sep + x for a in atoms for sep in (" ", "\n") for x in _free(n - c - 1)]
        _free_cache[n] = r
    return r


def _docs(n, i, allow_f4, prev_kind):
    """block lists of exact cost n starting at position i (without the final trail slot)"""
    if n == 0:
        yield []
        return
    for c in range(1, n + 1):
        rest = n - c
        if rest == 0:
            for b in _blocks(c, i, allow_f4, prev_kind):
                yield [b]
        else:
            tails = {}
            for b in _blocks(c, i, allow_f4, prev_kind):
                ic = b["t"] == "icomment"
                if ic not in tails:
                    tails[ic] = list(_docs(rest, i + 1, allow_f4, b["t"]))
                for tl in tails[ic]:
                    yield [b] + tl


def enumerate_small(budget, allow_f4=True):
    """Every derivation of token cost <= budget over the small alphabets above, smallest first, deterministic.
    Derivations violating a side condition (e.g. '@' directly before a group) are filtered out by `problems`."""
    yield []
    for n in range(1, budget + 1):
        for tr in (0, COST['ws']):
            if n - tr < 1:
                continue
            for trail in _ws(tr):
                for d in _docs(n - tr, 0, allow_f4, None):
                    if trail:
                        d = d[:-1] + [dict(d[-1], trail=trail)]
                    if problems(d) is None:
                        yield d


# ------------------------------------------------------------------------------------- random derivations

R_WORDS = ["a", "b", "Ab", "x y", "The", "of", "1", "42", "é", "ß", "ö", "z", "Z", " ", "i.e.", "A-B", "~", "--", "$x^2$", "a_1",
           "%", "&", "'", "`", "(", ")", "[", "]", ":", ";", ".", "!", "?", "/", "+", "*", "<", ">", "|"]
R_MARKS = [",", "=", "#", "@", "@ ", "a@b", "@x ", ", ", " = ", "\n", "\r\n", " ", "\t", "  ", "\n\n"]
R_ESC = ["\\{", "\\}", "\\\"", "\\'e", "\\&", "\\%", "\\alpha ", "\\_", "\\~n", "\\,", "\\="]
R_TYPES = ["article", "Article", "BOOK", "misc", "a", "InProceedings", "in_proc2", "x1", "É", "techReport", "Commen", "str", "_"]
R_KEYCH = "abcxyzABC0189_:.-/+*!?'&()[]<>|~^;$%@éß"
R_FKEYS = ["title", "author", "year", "month", "a", "b", "T", "note", "url", "x-y", "date_added", "é", "k1", "journal", "pages", "f:1"]
R_IDENTS = ["jan", "feb", "JAN", "xyz", "acm", "s", "S", "a.b", "x1", "a-b"]


def rand_ws(rng, p_empty=0.45):
    if rng.random() < p_empty:
        return ""
    return "".join(rng.choice(WS_UNITS + [" ", "\n"]) for _ in range(rng.choice([1, 1, 1, 2, 3])))


def rand_hs(rng):
    return rng.choice(["", "", "", " ", "\t", "  ", " \t"])


def rand_text(rng, size, quote_ok, inner_quote_ok, depth=0):
    out = []
    for _ in range(rng.randrange(size + 1)):
        r = rng.random()
        if r < 0.40:
            out.append(rng.choice(R_WORDS))
        elif r < 0.62:
            out.append(rng.choice(R_MARKS))
        elif r < 0.72:
            out.append(rng.choice(R_ESC))
        elif r < 0.82 and quote_ok:
            out.append('"')
        elif depth < 4:
            g = "{" + rand_text(rng, max(0, size - 1), inner_quote_ok, inner_quote_ok, depth + 1) + "}"
            if out and re.search(r"@\w*[ \t]*\Z", out[-1]):
                out.append(".")       # '@word' directly before a group would read as a block start
            out.append(g)
    s = "".join(out)
    # repair accidental joins: '@' + word + '{' across atoms
    while True:
        m = BLOCKSTART_RE.search(s)
        if not m:
            break
        s = s[:m.end() - 1] + "." + s[m.end() - 1:]
    return s


def rand_name(rng, used=None, pool=None):
    for _ in range(100):
        if pool and rng.random() < 0.7:
            k = rng.choice(pool)
        else:
            k = "".join(rng.choice(R_KEYCH) for _ in range(rng.choice([1, 2, 3, 5, 8])))
        if used is None or k not in used:
            if used is not None:
                used.add(k)
            return k
    raise RuntimeError("name pool exhausted")


def rand_piece(rng, size, allow_f4, idents):
    r = rng.random()
    if r < 0.12:
        return ["num", str(rng.choice([0, 1, 12, 1990, 2024, 7, 100000]))]
    if r < 0.27:
        return ["ident", rng.choice(idents)]
    if r < 0.67:
        return ["brace", rand_text(rng, size, True, True)]
    return ["quote", rand_text(rng, size, False, allow_f4)]


def rand_value(rng, size, allow_f4, idents):
    k = rng.choice([1, 1, 1, 1, 1, 2, 2, 3])
    pieces = [rand_piece(rng, size, allow_f4, idents) for _ in range(k)]
    cws = [[rand_ws(rng, 0.3), rand_ws(rng, 0.3)] for _ in range(k - 1)]
    return pieces, cws


def _case(rng, word):
    r = rng.random()
    if r < 0.4:
        return word
    if r < 0.6:
        return word.upper()
    if r < 0.8:
        return word[0].upper() + word[1:]
    return "".join(c.upper() if rng.random() < 0.5 else c for c in word)


def random_derivation(rng, size, allow_f4=True, kinds=None):
    """One random derivation (distinct keys); `size` bounds the number of blocks, fields and text atoms."""
    kinds = kinds or ["entry"] * 5 + ["string"] * 2 + ["preamble", "ecomment", "icomment", "icomment"]
    for _attempt in range(200):
        n = rng.randrange(size + 1)
        ks = []
        for _ in range(n):
            k = rng.choice(kinds)
            if k == "icomment" and ks and ks[-1] == "icomment":
                k = "entry"
            ks.append(k)
        used_s, used_e = set(), set()
        skeys = [rand_name(rng, used_s, ["jan", "s", "acm", "S", "x1"]) for k in ks if k == "string"]
        idents = R_IDENTS + skeys * 3
        d, si = [], 0
        for k in ks:
            b = {"t": k}
            lead = rand_ws(rng, 0.3)
            if lead:
                b["lead"] = lead
            if k == "entry":
                b["type"] = rng.choice(R_TYPES)
                b["key"] = rand_name(rng, used_e, ["k", "Knuth1984", "a:b", "k2", "x"])
                _put(b, hs=rand_hs(rng), w0=rand_ws(rng), w1=rand_ws(rng))
                nf = rng.choice([0, 0, 1, 1, 2, 3, min(size, 5)])
                if nf == 0 and rng.random() < 0.5:
                    b["comma"] = False
                else:
                    _put(b, w2=rand_ws(rng, 0.2))
                    used_f, fields = set(), []
                    for j in range(nf):
                        pieces, cws = rand_value(rng, size, allow_f4, idents)
                        f = _put({"key": rand_name(rng, used_f, R_FKEYS), "pieces": pieces}, e1=rand_ws(rng), e2=rand_ws(rng), wa=rand_ws(rng))
                        if cws:
                            f["cws"] = cws
                        if j == nf - 1 and rng.random() < 0.5:
                            f["comma"] = False
                        else:
                            _put(f, wb=rand_ws(rng, 0.2))
                        fields.append(f)
                    if fields:
                        b["fields"] = fields
            elif k == "string":
                pieces, cws = rand_value(rng, size, allow_f4, idents)
                b["key"] = skeys[si]
                si += 1
                b["pieces"] = pieces
                if cws:
                    b["cws"] = cws
                kw = _case(rng, "string")
                if kw != "string":
                    b["kw"] = kw
                _put(b, hs=rand_hs(rng), w0=rand_ws(rng), e1=rand_ws(rng), e2=rand_ws(rng), w3=rand_ws(rng))
            elif k in ("preamble", "ecomment"):
                word = "preamble" if k == "preamble" else "comment"
                kw = _case(rng, word)
                if kw != word:
                    b["kw"] = kw
                _put(b, hs=rand_hs(rng))
                b["text"] = rand_text(rng, size, True, True)
            else:
                txt = ""
                for _ in range(20):
                    parts = [rng.choice(R_WORDS + ["%", "% comment", "{", "}", '"', ",", "=", "@", "x@y", "\n", " ", "\r\n", "\\&", "text"])
                             for _ in range(1 + rng.randrange(size + 1))]
                    txt = "".join(parts).strip()
                    if txt and not BLOCKSTART_RE.search(txt):
                        break
                    txt = "free text"
                b["text"] = txt
            d.append(b)
        if d:
            tr = rand_ws(rng, 0.5)
            if tr:
                d[-1]["trail"] = tr
        if problems(d) is None:
            return d
    raise RuntimeError("could not build a derivation")
