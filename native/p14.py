"""C14 bounded stand-in: split/merge of names is an inverse pair -- through the function pair and through the whole
parse_string / write_string stack.  Domain and diagnosis use the independent references in native/names_ref.py."""
import atexit
import itertools
import multiprocessing
import random

import bibtexparser
from bibtexparser.middlewares.names import (InvalidNameError, MergeCoAuthors, MergeNameParts, NameParts, SeparateCoAuthors,
                                            SplitNameParts, parse_single_name_into_parts, split_multiple_persons_names)
from bibtexparser.model import Entry
from native.names_ref import (RefInvalidName, name_sections, odd_trailing_backslashes, partition, parts_dict, ref_merge_last_first,
                              ref_split, von_last_model)
from native.p13 import TOKENS, _require_corpus_agreement, rand_name

NT = len(TOKENS)
NAME_FIELDS = ("author", "editor", "translator")
F7 = "F7-escape-in-and"
F8V = "F8-von-last"
N13 = "N13-special-char-case"
N14 = "N14-backslash-before-closing-brace"

RULE = ("name lists of 1..3 persons; a person is a concatenation of tokens from " + repr(TOKENS) + " or a random name (C13 generator) that "
        "the reference accepts as in the property's domain: valid name, non-empty Last, no word ending in an odd number of "
        "backslashes.  C14.functions: split + parse, merge last-name-first + ' and '.join, split + parse again -> the same "
        "NameParts list.  C14.stack: a document with author/editor/translator values, parse_string(append_middleware="
        "[SeparateCoAuthors, SplitNameParts]) -> write_string(prepend_middleware=[MergeNameParts, MergeCoAuthors]) -> parse "
        "again -> the same structured names (documents are restricted to values whose braces are balanced also when escapes "
        "are ignored and that have no backslash directly before a brace, so that the grammar layer is not what is tested). "
        "Every input is first run through the reference pipeline, which must itself satisfy the law (else the run stops). "
        "One C14.layer / C14.sample evaluation covers a block of single-person lists in worker processes; "
        "non-trivial = every input (at least one person with a Last name); distinct = distinct person list / field list")
BOUND = {
    "quick": "single persons: every in-domain token sequence of length 1..4 one by one, every sequence of length 5 (15 blocks, "
             "759,375 sequences filtered to the domain), 800,000 seeded random sequences each of length 6 and 7; 6000 lists of 2..3 "
             "persons drawn from the in-domain sequences of length <= 3 and from random names; 1500 documents through the stack, plus documents pairing a person with its same-words twin of another structure",
    "thorough": "single persons: every in-domain token sequence of length 1..6 (blocks from length 5), 8 million seeded random "
                "sequences each of length 7 and 8; 80000 lists of 2..3 persons; 15000 documents through the stack, plus same-words twins",
}
EXHAUSTIVE = False


# ------------------------------------------------------------------------------------------------ domain
def in_domain(person):
    """Property C14's side condition for one person, decided by the reference only."""
    try:
        sections = name_sections(person)
    except RefInvalidName:
        return False
    if any(odd_trailing_backslashes(w) for sec in sections for w in sec):
        return False
    return bool(partition(sections)["last"])


def list_in_domain(persons):
    value = " and ".join(persons)
    return all(in_domain(p) for p in persons) and len(ref_split(value)) == len(persons)


def _ref_law(value):
    """The law inside the reference model; a failure means the oracle or the stated domain is wrong -> stop the run."""
    r1 = [partition(name_sections(n)) for n in ref_split(value)]
    merged = " and ".join(ref_merge_last_first(p) for p in r1)
    r2 = [partition(name_sections(n)) for n in ref_split(merged)]
    if r1 != r2:
        raise RuntimeError("oracle bug: the reference pipeline is not an inverse pair on %r: %r -> %r -> %r" % (value, r1, merged, r2))
    return r1


# ------------------------------------------------------------------------------------------------ function pair
def _law_fails(value, split, parse):
    """Does split -> parse -> merge (reference merge) -> split -> parse change the parts, for the given split / parse?"""
    try:
        p1 = [parse(n) for n in split(value)]
        merged = " and ".join(ref_merge_last_first(p) for p in p1)
        return [parse(n) for n in split(merged)] != p1
    except (RefInvalidName, InvalidNameError):
        return True


def _ref_parse(n):
    return partition(name_sections(n))


def _model_f8v(n):
    s = name_sections(n)
    return von_last_model(s) or partition(s)


def _model_n13(n):
    return partition(name_sections(n), code_like=True)


def _model_both(n):
    s = name_sections(n)
    return von_last_model(s, code_like=True) or partition(s, code_like=True)


def _diagnose(value):
    """Attribute a failing round trip to a recognised defect family: which defect *model* (reference + exactly that
    defect) already breaks the law on this input?  Classification only; None = unexplained."""
    try:
        for p in [parse_single_name_into_parts(n) for n in split_multiple_persons_names(value)]:
            if p.merge_last_name_first != ref_merge_last_first(parts_dict(p)):
                return None                               # the merge itself is off: not a known family
    except Exception:
        pass
    if _law_fails(value, ref_split, _model_f8v):
        return F8V
    if _law_fails(value, ref_split, _model_n13):
        return N13
    if _law_fails(value, ref_split, _model_both):
        return F8V
    if "\\" in value and _law_fails(value, split_multiple_persons_names, _ref_parse):
        return F7
    if "\\" in value and _law_fails(value, split_multiple_persons_names, _model_both):
        return F7                                         # needs the splitter defect together with a parse defect
    return None


def functions_violation(persons):
    value = " and ".join(persons)
    _ref_law(value)
    try:
        names1 = split_multiple_persons_names(value)
        parts1 = [parse_single_name_into_parts(n) for n in names1]
        merged = " and ".join(p.merge_last_name_first for p in parts1)
        names2 = split_multiple_persons_names(merged)
        parts2 = [parse_single_name_into_parts(n) for n in names2]
    except Exception as e:
        return {"what": "the pipeline raised on in-domain names", "expected": "no exception", "observed": "%s: %s" % (type(e).__name__, e),
                "value": value, "finding_key": _diagnose(value)}
    if parts2 != parts1:
        return {"what": "split(merge(split(x))) differs from split(x); merged text = %r" % merged,
                "expected": repr([parts_dict(p) for p in parts1]), "observed": repr([parts_dict(p) for p in parts2]),
                "value": value, "finding_key": _diagnose(value)}
    return None


def check_functions(spec):
    _require_corpus_agreement()
    if not list_in_domain(spec["persons"]):
        raise RuntimeError("spec outside the property's domain: %r" % (spec["persons"],))
    return functions_violation(spec["persons"])


# ------------------------------------------------------------------------------------------------ blocks (single persons)
_pool = None


def _get_pool():
    global _pool
    if _pool is None:
        _pool = multiprocessing.get_context("fork").Pool(min(16, multiprocessing.cpu_count() or 1))
        atexit.register(_pool.terminate)
    return _pool


def _eval_many(names):
    n, dom, counts, firsts = 0, 0, {}, {}
    for s in names:
        n += 1
        if not list_in_domain([s]):
            continue
        dom += 1
        v = functions_violation([s])
        if v is not None:
            k = v["finding_key"]
            counts[k] = counts.get(k, 0) + 1
            if k not in firsts:
                firsts[k] = v
    return n, dom, counts, firsts


def _task_prefix(args):
    length, prefix = args
    head = "".join(TOKENS[i] for i in prefix)
    return _eval_many(head + "".join(t) for t in itertools.product(TOKENS, repeat=length - len(prefix)))


def _task_sample(args):
    length, n, seed = args
    rng = random.Random(seed)
    return _eval_many("".join(rng.choice(TOKENS) for _ in range(length)) for _ in range(n))


def _merge(results, label):
    total, dom, counts, firsts = 0, 0, {}, {}
    for n, d, c, f in results:          # task order: independent of scheduling
        total += n
        dom += d
        for k, x in c.items():
            counts[k] = counts.get(k, 0) + x
        for k, v in f.items():
            firsts.setdefault(k, v)
    if not counts:
        return None
    key = None if None in counts else min(counts, key=lambda k: (counts[k], k))     # unexplained first, else the rarest family
    w = firsts[key]
    return {"what": "%s: %s" % (label, w["what"]), "expected": w["expected"], "observed": w["observed"], "witness": w["value"],
            "finding_key": key, "sequences": total, "in_domain": dom, "violating_names": {str(k): x for k, x in counts.items()},
            "first_witness_per_key": {str(k): v["value"] for k, v in firsts.items()}}


def check_layer(spec):
    _require_corpus_agreement()
    length, prefix = spec["len"], list(spec["prefix"])
    ext = min(2, length - len(prefix))
    tasks = [(length, prefix + list(p)) for p in itertools.product(range(NT), repeat=ext)]
    return _merge(_get_pool().map(_task_prefix, tasks, chunksize=1), "block of single persons of %d tokens" % length)


def check_sample(spec):
    _require_corpus_agreement()
    per = spec["n"] // 16
    tasks = [(spec["len"], per, spec["seed"] * 1000 + k) for k in range(16)]
    return _merge(_get_pool().map(_task_sample, tasks, chunksize=1), "sample of single persons of %d tokens" % spec["len"])


# ------------------------------------------------------------------------------------------------ whole stack
def plain_for_grammar(value):
    """Side condition of C14.stack (keeps the grammar layer out of the picture): braces balance also when escapes are
    ignored, never go negative, and no brace / quote is directly preceded by a backslash; the value does not end with a backslash."""
    depth = 0
    for i, c in enumerate(value):
        if c in "{}\"" and i > 0 and value[i - 1] == "\\":
            return False
        if c == "{":
            depth += 1
        elif c == "}":
            depth -= 1
            if depth < 0:
                return False
    return depth == 0 and not value.endswith("\\")


def make_doc(fields):
    lines = ["@article{key1,"]
    for k, persons in fields:
        lines.append("  %s = {%s}," % (k, " and ".join(persons)))
    lines.append("  title = {A and B, C}")
    lines.append("}")
    return "\n".join(lines) + "\n"


def _structured(lib, what):
    """-> ({field: [parts dict, ...]}, None) or (None, violation)."""
    entries = [b for b in lib.blocks if isinstance(b, Entry)]
    if len(lib.blocks) != 1 or len(entries) != 1:
        return None, {"what": what + ": not exactly one entry", "expected": "one Entry", "observed": repr(lib.blocks)[:300], "finding_key": None}
    out = {}
    for f in entries[0].fields:
        if f.key in NAME_FIELDS:
            if not isinstance(f.value, list) or not all(isinstance(x, NameParts) for x in f.value):
                return None, {"what": "%s: field %s is not a list of NameParts" % (what, f.key), "expected": "list of NameParts", "observed": repr(f.value)[:300], "finding_key": None}
            out[f.key] = [parts_dict(x) for x in f.value]
        elif f.key == "title" and f.value != "A and B, C":
            return None, {"what": what + ": the title field changed", "expected": "'A and B, C'", "observed": repr(f.value), "finding_key": None}
    return out, None


def check_stack(spec):
    _require_corpus_agreement()
    fields = spec["fields"]
    for k, persons in fields:
        if not list_in_domain(persons) or not plain_for_grammar(" and ".join(persons)):
            raise RuntimeError("spec outside the property's domain: %r" % (persons,))
        _ref_law(" and ".join(persons))
    doc = make_doc(fields)
    # classification of a stack failure: a field whose function-level round trip already fails carries that family;
    # otherwise (N14) the merged text of a field ends with a backslash, which lands directly before the closing brace
    fails = [v for v in (functions_violation(persons) for _, persons in fields) if v]
    if fails:
        key = None if any(v["finding_key"] is None for v in fails) else fails[0]["finding_key"]
    else:
        merged = [" and ".join(ref_merge_last_first(p) for p in _ref_law(" and ".join(persons))) for _, persons in fields]
        key = N14 if any(m.endswith("\\") for m in merged) else None
    try:
        lib1 = bibtexparser.parse_string(doc, append_middleware=[SeparateCoAuthors(), SplitNameParts()])
        s1, bad = _structured(lib1, "first parse")
        if bad:
            return dict(bad, finding_key=key)
        if sorted(s1) != sorted(k for k, _ in fields):
            return {"what": "first parse: name fields differ", "expected": repr(sorted(k for k, _ in fields)), "observed": repr(sorted(s1)), "finding_key": None}
        text2 = bibtexparser.write_string(lib1, prepend_middleware=[MergeNameParts(), MergeCoAuthors()])
        lib2 = bibtexparser.parse_string(text2, append_middleware=[SeparateCoAuthors(), SplitNameParts()])
    except Exception as e:
        return {"what": "the stack raised on in-domain names", "expected": "no exception", "observed": "%s: %s" % (type(e).__name__, e), "finding_key": key}
    s2, bad = _structured(lib2, "second parse of %r" % text2)
    if bad:
        return dict(bad, finding_key=key)
    if s2 != s1:
        return {"what": "structured names differ after write + re-parse; written text = %r" % text2, "expected": repr(s1), "observed": repr(s2), "finding_key": key}
    return None


CHECKS = {"C14.functions": check_functions, "C14.layer": check_layer, "C14.sample": check_sample, "C14.stack": check_stack}


# ------------------------------------------------------------------------------------------------ generation
def _rand_person(rng, pool):
    for _ in range(50):
        p = rng.choice(pool) if rng.random() < 0.6 else rand_name(rng, valid_only=True)
        if in_domain(p):
            return p
    return "AA"


def generate(tier, rng):
    _require_corpus_agreement()
    pool = []
    for length in range(1, 5):
        for seq in itertools.product(TOKENS, repeat=length):
            s = "".join(seq)
            if list_in_domain([s]):
                if length <= 3:
                    pool.append(s)
                yield "C14.functions", {"persons": [s]}, True
    for length in ([5] if tier == "quick" else [5, 6]):
        for first in range(NT):
            yield "C14.layer", {"len": length, "prefix": [first]}, True
    for length in ((6, 7) if tier == "quick" else (7, 8)):
        for k in range(4 if tier == "quick" else 8):
            yield "C14.sample", {"len": length, "n": 200000 if tier == "quick" else 1000000, "seed": rng.randrange(10 ** 6)}, True
    for witness in (["AA bb CC dd"], ["AA bb CC", "dd, EE"], ["Cc, dd, AA", "{x} AA", "bb Cc dd EE"]):
        yield "C14.functions", {"persons": witness}, True
    done = 0
    while done < (6000 if tier == "quick" else 80000):
        persons = [_rand_person(rng, pool) for _ in range(rng.choice([2, 2, 3]))]
        if list_in_domain(persons):
            done += 1
            yield "C14.functions", {"persons": persons}, True
    # persons that share their words but not their structure, together in one document (one middleware instance)
    done = 0
    for base in ["Brinch Hansen, Per", "bb CC, AA"] + [p for p in pool if "," in p]:
        tw = _twin(base)
        if tw is None:
            continue
        for persons in ([base, tw], [tw, base]):
            if list_in_domain(persons) and plain_for_grammar(" and ".join(persons)):
                done += 1
                yield "C14.stack", {"fields": [["author", persons]]}, True
        if done >= (400 if tier == "quick" else 4000):
            break
    done = 0
    while done < (1500 if tier == "quick" else 15000):
        keys = rng.sample(list(NAME_FIELDS), rng.choice([1, 1, 2, 3]))
        fields = [[k, [_rand_person(rng, pool) for _ in range(rng.choice([1, 1, 2, 3]))]] for k in keys]
        if all(list_in_domain(p) and plain_for_grammar(" and ".join(p)) for _, p in fields):
            done += 1
            yield "C14.stack", {"fields": fields}, True


def _twin(person):
    """a second in-domain person with the same words in the same order but another part structure (e.g. the comma form
    'Brinch Hansen, Per' and the comma-free 'Per Brinch Hansen'): anything that identifies persons by their words alone
    confuses the two"""
    try:
        parts = _ref_parse(person)
    except RefInvalidName:
        return None
    twin = " ".join(parts["first"] + parts["von"] + parts["last"] + parts["jr"])
    try:
        if twin == person or not in_domain(twin) or _ref_parse(twin) == parts:
            return None
    except RefInvalidName:
        return None
    return twin


def known_witnesses():
    v = functions_violation(["AA bb CC dd"])
    w = check_stack({"fields": [["author", ["y\\\\ DD"]]]})
    return {F8V: bool(v and v.get("finding_key") == F8V), N14: bool(w and w.get("finding_key") == N14)}
