"""C12 bounded stand-in: co-author splitting against an independent reference splitter (native/names_ref.py)."""
import atexit
import itertools
import multiprocessing
import random

from bibtexparser.library import Library
from bibtexparser.middlewares.names import MergeCoAuthors, SeparateCoAuthors, split_multiple_persons_names
from bibtexparser.model import Entry, Field
from native.names_ref import braces_balanced, conservation_error, neutralise_escapes, ref_split

TOKENS = ["A", "b", "and", "AND", "aNd", "an", "d", " ", "\t", "\n", "~", "{", "}", "\\", ",", "{and}", "\\a", "\\ "]
NT = len(TOKENS)
NAME_FIELDS = ("author", "editor", "translator")
F7 = "F7-escape-in-and"

RULE = ("strings = concatenations of tokens from " + repr(TOKENS) + " (all sequences up to a length, then seeded samples of longer "
        "ones) plus random long author lists (words, braced groups, accents, escapes, every separator spelling, occasional "
        "unbalanced braces); each string is checked for (a) conservation [pieces are contiguous slices of the stripped text, "
        "in order, gaps are exactly blank-and-blank], (b) equality with the reference splitter when brace-balanced, "
        "(c) split(' and '.join(pieces)) == pieces; the same through SeparateCoAuthors/MergeCoAuthors on author/editor/translator "
        "fields (other fields untouched, copy mode leaves the input alone).  C12.string / C12.middleware evaluate one input; "
        "one C12.layer / C12.sample evaluation covers a whole block of strings in worker processes (count in BOUND and in the "
        "violation's 'strings'); non-trivial = the stripped string is not empty; distinct = distinct string / field list")
BOUND = {
    "quick": "every token sequence of length 0..4 one by one (111,151 strings), every sequence of length 5 (1,889,568 strings, "
             "18 layer blocks), 4 million seeded random sequences of length 6 (NOT exhaustive there), 3000 random long author lists, 1500 entries "
             "through the middlewares",
    "thorough": "every token sequence of length 0..4 one by one, every sequence of length 5 and 6 (35.9 million strings, layer "
                "blocks), 20 million seeded random sequences each of length 7 and 8 (NOT exhaustive there: 18^7 = 6.1e8), 50000 "
                "random long author lists, 20000 entries through the middlewares",
}
EXHAUSTIVE = False


# ------------------------------------------------------------------------------------------------ one string
def _pieces_violation(s, pieces):
    """Clauses (a) and (b) for the pieces obtained from s."""
    if not isinstance(pieces, list):
        return {"what": "result is not a list", "expected": "list", "observed": repr(pieces)}
    err = conservation_error(s, pieces)
    if err:
        return {"what": "conservation: " + err, "expected": "pieces + ' and ' gaps cover the stripped text", "observed": repr(pieces)}
    if braces_balanced(s):
        exp = ref_split(s)
        if pieces != exp:
            return {"what": "pieces differ from the separator rule", "expected": repr(exp), "observed": repr(pieces)}
    return None


def _plain_violation(s, split):
    """The three clauses on one string, no classification.  `split` is the function under test."""
    try:
        pieces = split(s)
    except Exception as e:      # the property allows no exception on any string
        return {"what": "splitting raised", "expected": "a list of names", "observed": "%s: %s" % (type(e).__name__, e)}
    v = _pieces_violation(s, pieces)
    if v:
        return v
    try:
        again = split(" and ".join(pieces))
    except Exception as e:
        return {"what": "re-splitting the merged pieces raised", "expected": repr(pieces), "observed": "%s: %s" % (type(e).__name__, e)}
    if again != pieces:
        return {"what": "merge with ' and ' then split is not the identity on the pieces", "expected": repr(pieces), "observed": repr(again)}
    return None


def _classify(v, s, split):
    """family F7: the difference needs a backslash escape -- the same text with every escape replaced by inert letters
    satisfies all three clauses."""
    v["string"] = s
    v["finding_key"] = F7 if ("\\" in s and _plain_violation(neutralise_escapes(s), split) is None) else None
    return v


def string_violation(s, split=split_multiple_persons_names):
    v = _plain_violation(s, split)
    return _classify(v, s, split) if v is not None else None


def check_string(spec):
    return string_violation(spec["s"])


# ------------------------------------------------------------------------------------------------ blocks of strings
_pool = None


def _get_pool():
    global _pool
    if _pool is None:
        _pool = multiprocessing.get_context("fork").Pool(min(16, multiprocessing.cpu_count() or 1))
        atexit.register(_pool.terminate)
    return _pool


def _eval_many(strings):
    n, counts, firsts = 0, {}, {}
    for s in strings:
        n += 1
        v = string_violation(s)
        if v is not None:
            k = v["finding_key"]
            counts[k] = counts.get(k, 0) + 1
            if k not in firsts:
                firsts[k] = v
    return n, counts, firsts


def _task_prefix(args):
    length, prefix = args
    rest = length - len(prefix)
    head = "".join(TOKENS[i] for i in prefix)
    return _eval_many(head + "".join(t) for t in itertools.product(TOKENS, repeat=rest))


def _task_sample(args):
    length, n, seed = args
    rng = random.Random(seed)
    return _eval_many("".join(rng.choice(TOKENS) for _ in range(length)) for _ in range(n))


def _merge(results, label):
    total, counts, firsts = 0, {}, {}
    for n, c, f in results:          # in task order: independent of scheduling
        total += n
        for k, x in c.items():
            counts[k] = counts.get(k, 0) + x
        for k, v in f.items():
            firsts.setdefault(k, v)
    if not counts:
        return None
    # one verdict per block: an unexplained difference always wins, otherwise the rarest family (all counts are reported)
    key = None if None in counts else min(counts, key=lambda k: (counts[k], k))
    w = firsts[key]
    return {"what": "%s: %s" % (label, w["what"]), "expected": w["expected"], "observed": w["observed"], "witness": w["string"],
            "finding_key": key, "strings": total, "violating_strings": {str(k): x for k, x in counts.items()},
            "first_witness_per_key": {str(k): v["string"] for k, v in firsts.items()}}


def check_layer(spec):
    """All token sequences of length spec['len'] that start with spec['prefix'] (token indices)."""
    length, prefix = spec["len"], list(spec["prefix"])
    ext = min(2, length - len(prefix))
    tasks = [(length, prefix + list(p)) for p in itertools.product(range(NT), repeat=ext)]
    return _merge(_get_pool().map(_task_prefix, tasks, chunksize=1), "block of %d-token strings" % length)


def check_sample(spec):
    """spec['n'] random token sequences of length spec['len'] from seed spec['seed'] (16 fixed sub-streams)."""
    per = spec["n"] // 16
    tasks = [(spec["len"], per, spec["seed"] * 1000 + k) for k in range(16)]
    return _merge(_get_pool().map(_task_sample, tasks, chunksize=1), "sample of %d-token strings" % spec["len"])


# ------------------------------------------------------------------------------------------------ middlewares
def _entry(fields):
    return Entry(entry_type="article", key="k", fields=[Field(key=k, value=v, start_line=i) for i, (k, v) in enumerate(fields)],
                 start_line=0, raw="@article{k,...}")


def _one_block(lib, what):
    if len(lib.blocks) != 1 or not isinstance(lib.blocks[0], Entry):
        return None, {"what": what + " did not return exactly one entry", "expected": "one Entry", "observed": repr(lib.blocks)[:200]}
    return lib.blocks[0], None


def check_middleware(spec):
    fields, inplace = spec["fields"], spec["inplace"]
    original = _entry(fields)
    try:
        e1, bad = _one_block(SeparateCoAuthors(allow_inplace_modification=inplace).transform(Library([original])), "SeparateCoAuthors")
    except Exception as e:
        return {"what": "SeparateCoAuthors raised", "expected": "an entry", "observed": "%s: %s" % (type(e).__name__, e), "finding_key": None}
    if bad:
        return dict(bad, finding_key=None)
    if not inplace and [(f.key, f.value) for f in original.fields] != [tuple(x) for x in fields]:
        return {"what": "copy mode modified the input entry", "expected": repr(fields), "observed": repr([(f.key, f.value) for f in original.fields]), "finding_key": None}
    if [f.key for f in e1.fields] != [k for k, _ in fields] or e1.key != "k" or e1.entry_type != "article":
        return {"what": "entry type/key/field order changed", "expected": repr([k for k, _ in fields]), "observed": repr([f.key for f in e1.fields]), "finding_key": None}
    lists = {}
    for (k, v), f in zip(fields, e1.fields):
        if k in NAME_FIELDS:
            got = f.value
            viol = _pieces_violation(v, got)
            if viol:
                viol["what"] = "field %s after SeparateCoAuthors: %s" % (k, viol["what"])
                return _classify(viol, v, split_multiple_persons_names)
            lists[k] = list(got)
        elif f.value != v:
            return {"what": "SeparateCoAuthors changed the non-name field " + k, "expected": repr(v), "observed": repr(f.value), "finding_key": None}
    try:
        e2, bad = _one_block(MergeCoAuthors(allow_inplace_modification=inplace).transform(Library([e1])), "MergeCoAuthors")
        if bad:
            return dict(bad, finding_key=None)
        for f in e2.fields:
            exp = " and ".join(lists[f.key]) if f.key in lists else dict(fields)[f.key]
            if f.value != exp:
                return {"what": "MergeCoAuthors on field " + f.key, "expected": repr(exp), "observed": repr(f.value), "finding_key": None}
        e3, bad = _one_block(SeparateCoAuthors(allow_inplace_modification=inplace).transform(Library([e2])), "SeparateCoAuthors (2nd)")
        if bad:
            return dict(bad, finding_key=None)
        for f in e3.fields:
            if f.key in lists and f.value != lists[f.key]:
                return {"what": "Separate(Merge(pieces)) != pieces on field " + f.key, "expected": repr(lists[f.key]), "observed": repr(f.value), "finding_key": None}
    except Exception as e:
        return {"what": "merge / second separate raised", "expected": "no exception", "observed": "%s: %s" % (type(e).__name__, e), "finding_key": None}
    return None


CHECKS = {"C12.string": check_string, "C12.layer": check_layer, "C12.sample": check_sample, "C12.middleware": check_middleware}


# ------------------------------------------------------------------------------------------------ generation
WORDS = ["Knuth", "Donald", "E.", "de", "la", "van", "{Simon and Schuster}", "\\'Etienne", "M{\\\"u}ller", "{\\'E}mile", "and", "And", "AND",
         "an", "d", "nd", "a", "Jr.", "Smith,", "J.", "\\and", "a\\nd", "an\\d", "\\ ", "x\\", "{and}", "{ and }", "Sand", "andy", "~", "\\~",
         "O'Neil", "{", "}", "{{a} and b}", "1990", ",", "\\\\", "\\{", "\\}"]
SEPS = [" ", " ", " ", "  ", "\t", "\n", "\r\n", "~", ", ", " and ", " and ", " and ", " AND ", " And ", "\nand\t", "\tand\n", " and~", "~and ",
        " and", "and ", " and  and ", "  and  ", ""]


WORDS_NOESC = [w for w in WORDS if "\\" not in w]


def rand_author_list(rng):
    n = rng.choice([1, 2, 3, 4, 5, 6, 8, 12])
    words = WORDS if rng.random() < 0.5 else WORDS_NOESC       # half of the lists are free of backslashes
    out = [rng.choice(["", "", " ", "\n", "and ", " and "])]
    for i in range(n):
        out.append(rng.choice(words))
        out.append(rng.choice(SEPS))
    out.append(rng.choice(words + ["", "", ""]))
    out.append(rng.choice(["", "", " ", "\t", " and", " and "]))
    return "".join(out)


def _nontrivial(s):
    return bool(s.strip(" \t\r\n"))


def generate(tier, rng):
    for length in range(0, 5):
        for seq in itertools.product(TOKENS, repeat=length):
            s = "".join(seq)
            yield "C12.string", {"s": s}, _nontrivial(s)
    for length in ([5] if tier == "quick" else [5, 6]):
        for first in range(NT):
            yield "C12.layer", {"len": length, "prefix": [first]}, True
    if tier == "quick":
        for k in range(20):
            yield "C12.sample", {"len": 6, "n": 200000, "seed": rng.randrange(10 ** 6)}, True
    else:
        for length in (7, 8):
            for k in range(20):
                yield "C12.sample", {"len": length, "n": 1000000, "seed": rng.randrange(10 ** 6)}, True
    for _ in range(3000 if tier == "quick" else 50000):
        s = rand_author_list(rng)
        yield "C12.string", {"s": s}, _nontrivial(s)
    n_mw = 1500 if tier == "quick" else 20000
    fixed = ["A and B", "A and \\'Etienne B", "{A and B} and C", " A AND b\tand\nC ", "", "   ", "A~and B"]
    for i in range(n_mw):
        vals = [fixed[i % len(fixed)] if i < 3 * len(fixed) else rand_author_list(rng) for _ in range(3)]
        keys = rng.sample(list(NAME_FIELDS), rng.choice([1, 2, 3]))
        fields = [[k, v] for k, v in zip(keys, vals)] + [["title", rng.choice(["X and Y", "{T} and more", ""])]]
        rng.shuffle(fields)
        yield "C12.middleware", {"fields": fields, "inplace": bool(i % 2)}, any(_nontrivial(v) for k, v in fields if k in NAME_FIELDS)


def known_witnesses():
    """Does each recognised defect family still have its witness on the current tree?  (False -> stale entry.)"""
    out = {}
    v = string_violation("A and \\'Etienne B")
    w = string_violation("A a\\ind B")
    out[F7] = bool(v and v.get("finding_key") == F7) or bool(w and w.get("finding_key") == F7)
    return out
