"""Shared helpers of the bounded layer: JSON specs <-> real model objects, random libraries."""
import copy

from bibtexparser.library import Library
from bibtexparser.model import (Block, DuplicateBlockKeyBlock, DuplicateFieldKeyBlock, Entry, ExplicitComment, Field,
                                ImplicitComment, MiddlewareErrorBlock, ParsingFailedBlock, Preamble, String)
from bibtexparser.exceptions import BlockAbortedException
from bibtexparser.writer import BibtexFormat

KEYS = ["a", "ab", "title", "author", "year", "month", "averyveryverylongfieldkey", "x1", "Ab", ""]
VALUES = ["{v}", "\"q\"", "1990", "{a {nested} b}", "jan", "{}", "{multi\nline}", "a # b", "{é ü}"]
TYPES = ["article", "book", "misc", "inproceedings"]
EKEYS = ["k", "k2", "Knuth1984", "a:b", "", "dup"]


def block_from_spec(s):
    t = s["t"]
    if t == "entry":
        return Entry(entry_type=s["type"], key=s["key"], fields=[Field(key=k, value=v, start_line=i) for i, (k, v) in enumerate(s["fields"])],
                     start_line=s.get("line", 0), raw=s.get("raw", "@raw"))
    if t == "string":
        return String(key=s["key"], value=s["value"], start_line=s.get("line", 0), raw=s.get("raw", "@string"))
    if t == "preamble":
        return Preamble(value=s["value"], start_line=s.get("line", 0), raw=s.get("raw", "@preamble"))
    if t == "ecomment":
        return ExplicitComment(comment=s["comment"], start_line=s.get("line", 0), raw=s.get("raw", "@comment"))
    if t == "icomment":
        return ImplicitComment(comment=s["comment"], start_line=s.get("line", 0), raw=s.get("raw", s["comment"]))
    if t == "failed":
        return ParsingFailedBlock(error=BlockAbortedException(s.get("error", "boom"), 3), start_line=s.get("line", 0), raw=s["raw"])
    if t == "dupfield":
        return DuplicateFieldKeyBlock(duplicate_keys=set(s["dups"]), entry=block_from_spec(s["entry"]))
    if t == "mwerror":
        return MiddlewareErrorBlock(block_from_spec(s["block"]), ValueError(s.get("error", "mw")))
    raise ValueError(t)


def library_from_spec(specs):
    lib = Library()
    for s in specs:
        lib.add(block_from_spec(s))      # same-key entries/strings become DuplicateBlockKeyBlock here
    return lib


def format_from_spec(f):
    fmt = BibtexFormat()
    if f is None:
        return None
    fmt.indent = f["indent"]
    fmt.value_column = f["value_column"]
    fmt.block_separator = f["block_separator"]
    fmt.trailing_comma = f["trailing_comma"]
    if f.get("parsing_failed_comment") is not None:
        fmt.parsing_failed_comment = f["parsing_failed_comment"]
    return fmt


def rand_entry_spec(rng, maxfields=4, values=VALUES, distinct_keys=True):
    n = rng.choice([0, 1, 2, 3, maxfields])
    keys = rng.sample(KEYS, min(n, len(KEYS))) if distinct_keys else [rng.choice(KEYS) for _ in range(n)]
    return {"t": "entry", "type": rng.choice(TYPES), "key": rng.choice(EKEYS), "fields": [[k, rng.choice(values)] for k in keys],
            "line": rng.randrange(50), "raw": "@raw{" + str(rng.randrange(99)) + "}"}


def rand_block_spec(rng, values=VALUES):
    r = rng.random()
    if r < 0.45:
        return rand_entry_spec(rng, values=values)
    if r < 0.55:
        return {"t": "string", "key": rng.choice(["s", "t", "jan", "dup"]), "value": rng.choice(values), "line": rng.randrange(50), "raw": "@string{..}"}
    if r < 0.63:
        return {"t": "preamble", "value": rng.choice(["p", "\"a\" # b", ""]), "line": 1, "raw": "@preamble{..}"}
    if r < 0.72:
        return {"t": "ecomment", "comment": rng.choice(["c", "two\nlines", ""]), "line": 1, "raw": "@comment{..}"}
    if r < 0.82:
        return {"t": "icomment", "comment": rng.choice(["% free", "text\nmore", "x"]), "line": 2}
    if r < 0.9:
        return {"t": "failed", "raw": rng.choice(["@article{broken", "@a{k,\n x = {y\n", "", "one\ntwo\nthree"]), "line": 3}
    if r < 0.95:
        e = rand_entry_spec(rng, values=values, distinct_keys=False)
        return {"t": "dupfield", "dups": ["a"], "entry": e}
    return {"t": "mwerror", "block": rand_entry_spec(rng, values=values)}


def rand_library_spec(rng, maxblocks=5, values=VALUES):
    return [rand_block_spec(rng, values) for _ in range(rng.randrange(maxblocks + 1))]


def snapshot(obj, depth=0):
    """Structural snapshot (values + identity-free shape) used for before/after comparisons."""
    if depth > 8:
        return "..."
    if isinstance(obj, (str, int, float, bool, type(None))):
        return obj
    if isinstance(obj, (list, tuple)):
        return [type(obj).__name__] + [snapshot(x, depth + 1) for x in obj]
    if isinstance(obj, (set, frozenset)):
        return ["set"] + sorted(repr(snapshot(x, depth + 1)) for x in obj)
    if isinstance(obj, dict):
        return {"__dict__": [[snapshot(k, depth + 1), snapshot(v, depth + 1)] for k, v in obj.items()]}
    if isinstance(obj, BaseException):
        return ["exc", type(obj).__name__, repr(obj.args)]
    if isinstance(obj, Library):
        return ["Library", snapshot(obj._blocks, depth + 1), snapshot(list(obj._entries_by_key), depth + 1), snapshot(list(obj._strings_by_key), depth + 1)]
    if hasattr(obj, "__dict__"):
        return [type(obj).__name__, {k: snapshot(v, depth + 1) for k, v in sorted(vars(obj).items())}]
    return repr(obj)
