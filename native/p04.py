"""C04 bounded stand-in: malformed text never damages neighbouring well-formed blocks (resync at the next '@type{').

Reference for a triple is what the property itself names: the blocks of D1 parsed alone and of D2 parsed alone.
(a) prefix : blocks(D1 + LF + X)  start with  blocks(D1)          (D1 ends in a complete block)
(b) suffix : blocks(X + LF + D2)  end with    blocks(D2)          (D2 starts with '@type{'; LF puts it at a line start)
(c) pairs  : blocks(D1 + LF + D2) == blocks(D1) ++ blocks(D2)
Blocks are compared by kind, type, key, field keys/values, string/preamble/comment content and raw text; start lines are
compared modulo one constant offset for the whole of D2 (and are equal for D1).  Splitter only (parse_stack=[]): with the
default stack an @string defined in X legitimately changes field values of D2 that refer to it.
"""
import zlib

import bibtexparser
from bibtexparser.model import (DuplicateBlockKeyBlock, DuplicateFieldKeyBlock, Entry, ExplicitComment, ImplicitComment,
                                ParsingFailedBlock, Preamble, String)
from native import tokens

# Well-formed documents.  Entry/string keys are unique over the pool and use characters (capitals, ':', digits 2-9) that
# no X can contain, so X can never define a key of D1/D2 (a duplicate key legitimately turns the later block into a
# duplicate-key wrapper - excluded by construction, not filtered afterwards).
DOCS = {
    "entry_simple": "@article{Knuth:84,\n  title = {The TeXbook},\n  year = 1984\n}",
    "entry_nested": "@book{Lamport:94,\n  title = {A {Nested {Deep}} Title},\n  note = {with, commas = and \"quotes\" inside}\n}",
    "entry_quoted": "@inproceedings{Dijkstra:68,\n  title = \"Go To, Considered = Harmful\",\n  pages = \"1--2\",\n}",
    "entry_concat": "@misc{Hoare:69, title = \"An \" # {Axiomatic} # BASIS, month = JAN}",
    "entry_bare": "@misc{Turing:36}",
    "entry_bare_comma": "@misc{Church:36,}",
    "entry_spaced": "@ARTICLE {Spaced:22 , a = {b} , c = 3 }",
    "entry_multiline": "@article{Multi:23,\n  abstract = {line one\n    line two\n\n    line four},\n  v\n    = w\n}",
    "entry_escaped": "@article{Esc:24, title = {A \\{ brace \\} and \\\" quote}, u = \"q \\{ \\}\"}",
    "entry_dupfield": "@misc{Dup:25, a = {1}, a = {2}}",
    "string_quoted": "@string{JAN = \"January\"}",
    "string_braced": "@STRING{PUB = {Addison {W}esley}}",
    "preamble": "@preamble{\"Preamble {text} \" # JAN}",
    "comment": "@comment{An explicit comment, with = marks {nested {twice}} \"q\"}",
    "comment_multiline": "@Comment{first line\n  second line\n}",
    "multi": ("@string{FEB = {February}}\n\n% a free comment line\nFree text, with = marks \"too\".\n\n@article{Multi:26,\n  title = {T},\n  month = FEB\n}\n"
              "@comment{between}\n@preamble{\"p\"}\n\n\n@book{Multi:27, title = \"Q\"}"),
    "two_on_a_line": "@misc{Line:28, a = 2} @misc{Line:29, b = {3}}",
    "free_then_entry": "Free text first,\nsecond line\n@article{Free:32, t = {x}}",
    "entry_then_free": "@article{Free:33, t = {x}}\nTrailing free text, with = \"marks\"",
}
ENDS_COMPLETE = [n for n, d in DOCS.items() if d.endswith("}")]              # usable as D1 in (a)
STARTS_BLOCK = [n for n, d in DOCS.items() if d.startswith("@")]              # usable as D2
FORBIDDEN_IN_X = set("ABCDEFGHIJKLMNOPQRSTUVWXYZ:23456789")      # every pool key contains one of these; no X may

ALPHA_FULL = tokens.ALPHABET
ALPHA_12 = ["{", "}", "\"", ",", "=", "\n", "\\", "@a", "@comment", "@string", "x", " "]

RULE = ("D1/D2 from a pool of %d hand-written well-formed documents (entries bare/nested/quoted/concatenated/multi-line/escaped/"
        "spaced/duplicate-field, @string, @preamble, @comment, free text, several blocks, two blocks on a line); D1 ends in a "
        "complete block, D2 starts with '@type{'; always joined with LF so D2 starts at a line start.  X: every token "
        "sequence (smallest first) over the 19-token alphabet; for <= 2 tokens crossed with every D1 and every D2, for longer "
        "X one D1 and one D2 chosen by crc32(X); plus random truncations/corruptions of valid blocks in full triples "
        "D1+LF+X+LF+D2.  X is restricted to characters that cannot spell a key of the pool (pool keys contain capitals/':'/"
        "digits 2-9), so X never legitimately turns a pool block into a duplicate-key wrapper; no other restriction on X "
        "(X may end inside an open block, an open quote, or with a backslash).  distinct = distinct (D1, X, D2) spec; "
        "non-trivial = X has a non-whitespace character (pairs: always)") % len(DOCS)
BOUND = {"quick": "all X of <= 4 tokens over 19 tokens (137,561 X; prefix + suffix check each; X of <= 2 tokens x all %d D1 / %d D2); all ordered pairs of "
                  "the pool for (c); 3000 random triples" % (len(ENDS_COMPLETE), len(STARTS_BLOCK)),
         "thorough": "all X of <= 5 tokens over 19 tokens (2,613,660) and of exactly 6 tokens over the 12 tokens { } \" , = LF backslash @a @comment "
                     "@string x space (2,985,984); prefix + suffix check each; all ordered pairs; 40000 random triples"}


def _short(s, n=200):
    r = repr(s)
    return r if len(r) <= n else r[:n] + "..."


def _sig(b):
    """What C04 compares: everything except start lines."""
    t = type(b).__name__
    if isinstance(b, DuplicateFieldKeyBlock):
        return (t, tuple(sorted(b.duplicate_keys)), _sig(b.ignore_error_block))
    if isinstance(b, DuplicateBlockKeyBlock):
        return (t, b.key, _sig(b.ignore_error_block))
    if isinstance(b, ParsingFailedBlock):
        return (t, b.raw, type(b.error).__name__)
    if isinstance(b, Entry):
        return (t, b.entry_type, b.key, tuple((f.key, f.value) for f in b.fields), b.raw)
    if isinstance(b, String):
        return (t, b.key, b.value, b.raw)
    if isinstance(b, Preamble):
        return (t, b.value, b.raw)
    if isinstance(b, (ExplicitComment, ImplicitComment)):
        return (t, b.comment, b.raw)
    return (t, repr(b))


def _lines(b):
    e = b.ignore_error_block if isinstance(b, (DuplicateBlockKeyBlock, DuplicateFieldKeyBlock)) else b
    out = [b.start_line]
    if isinstance(e, Entry):
        out += [f.start_line for f in e.fields]
    return out


def _parse(text):
    return bibtexparser.parse_string(text, parse_stack=[]).blocks


_REF = {}


def _ref(name):
    """Blocks of a pool document parsed on its own (the reference the property names); must itself be free of failures."""
    if name not in _REF:
        blocks = _parse(DOCS[name])
        bad = [b for b in blocks if isinstance(b, ParsingFailedBlock) and not isinstance(b, DuplicateFieldKeyBlock)]
        if bad or not blocks:
            raise RuntimeError("pool document %s is not well-formed for the parser: %r" % (name, [b.raw for b in bad]))
        for b in blocks:
            e = b.ignore_error_block if isinstance(b, DuplicateFieldKeyBlock) else b
            if isinstance(e, (Entry, String)) and not FORBIDDEN_IN_X.intersection(e.key):
                raise RuntimeError("pool key %r could be spelled by X" % e.key)
        _REF[name] = ([_sig(b) for b in blocks], [_lines(b) for b in blocks])
    return _REF[name]


def _compare(got_blocks, ref, where, offset_free):
    """got_blocks: the slice that must equal the reference document's blocks."""
    rsig, rlines = ref
    gsig = [_sig(b) for b in got_blocks]
    if gsig != rsig:
        i = next((i for i, (g, r) in enumerate(zip(gsig, rsig)) if g != r), min(len(gsig), len(rsig)))
        return {"what": "%s: block %d differs from the document parsed on its own" % (where, i),
                "expected": _short(rsig[i] if i < len(rsig) else "(no more blocks)"), "observed": _short(gsig[i] if i < len(gsig) else "(missing)")}
    glines = [_lines(b) for b in got_blocks]
    offs = {g - r for gl, rl in zip(glines, rlines) for g, r in zip(gl, rl)}
    if len(offs) > 1 or (not offset_free and offs - {0}):
        return {"what": "%s: start lines are not those of the document parsed on its own %s" % (where, "plus one constant offset" if offset_free else ""),
                "expected": _short(rlines), "observed": _short(glines)}
    return None


def _blocks_or_violation(text):
    try:
        return _parse(text), None
    except Exception as e:
        return None, {"what": "parsing raised", "expected": "a Library", "observed": "%s: %s" % (type(e).__name__, _short(str(e), 80)),
                      "finding_key": "F1-recursion-newlines" if isinstance(e, RecursionError) else None}


def _prefix(d1, x):
    ref = _ref(d1)
    blocks, v = _blocks_or_violation(DOCS[d1] + "\n" + x)
    if v:
        return v
    return _compare(blocks[:len(ref[0])], ref, "prefix D1", False)


def _suffix(x, d2):
    ref = _ref(d2)
    blocks, v = _blocks_or_violation(x + "\n" + DOCS[d2])
    if v:
        return v
    n = len(ref[0])
    return _compare(blocks[len(blocks) - n:] if len(blocks) >= n else blocks, ref, "suffix D2", True)


def _check_x(x):
    bad = FORBIDDEN_IN_X.intersection(x)
    if bad:
        raise ValueError("X contains characters reserved for pool keys: %r" % sorted(bad))


def check_prefix(spec):
    """spec: {"d1": pool name, "x": text}"""
    hit = _pre("p", spec)
    if hit is not _MISS:
        return hit
    _check_x(spec["x"])
    return _prefix(spec["d1"], spec["x"])


def check_suffix(spec):
    """spec: {"x": text, "d2": pool name}"""
    hit = _pre("s", spec)
    if hit is not _MISS:
        return hit
    _check_x(spec["x"])
    return _suffix(spec["x"], spec["d2"])


def check_triple(spec):
    """spec: {"d1": name, "x": text, "d2": name}: D1 + LF + X + LF + D2 starts with blocks(D1) and ends with blocks(D2)."""
    _check_x(spec["x"])
    r1, r2 = _ref(spec["d1"]), _ref(spec["d2"])
    blocks, v = _blocks_or_violation(DOCS[spec["d1"]] + "\n" + spec["x"] + "\n" + DOCS[spec["d2"]])
    if v:
        return v
    n1, n2 = len(r1[0]), len(r2[0])
    if len(blocks) < n1 + n2:
        return {"what": "fewer blocks than D1 and D2 have on their own", "expected": ">= %d" % (n1 + n2), "observed": _short([_sig(b) for b in blocks], 400)}
    return _compare(blocks[:n1], r1, "prefix D1", False) or _compare(blocks[len(blocks) - n2:], r2, "suffix D2", True)


def check_pair(spec):
    """spec: {"d1": name, "d2": name}: blocks(D1 + LF + D2) == blocks(D1) ++ blocks(D2)."""
    r1, r2 = _ref(spec["d1"]), _ref(spec["d2"])
    blocks, v = _blocks_or_violation(DOCS[spec["d1"]] + "\n" + DOCS[spec["d2"]])
    if v:
        return v
    n1, n2 = len(r1[0]), len(r2[0])
    if len(blocks) != n1 + n2:
        return {"what": "block count of the concatenation is not the sum", "expected": n1 + n2, "observed": _short([_sig(b) for b in blocks], 400)}
    return _compare(blocks[:n1], r1, "D1 of the pair", False) or _compare(blocks[n1:], r2, "D2 of the pair", True)


CHECKS = {"C04.prefix": check_prefix, "C04.suffix": check_suffix, "C04.triple": check_triple, "C04.pair": check_pair}

# ---- pool-evaluated enumeration -----------------------------------------------------------------------------------------
_MISS = object()
_PRE = None        # (x, d1, d2, verdict) from the pool; verdict: None or a string containing "p" / "s"


def _pick(x):
    h = zlib.crc32(x.encode("utf-8", "surrogatepass"))
    return ENDS_COMPLETE[h % len(ENDS_COMPLETE)], STARTS_BLOCK[(h >> 8) % len(STARTS_BLOCK)]


def _fast(x):
    d1, d2 = _pick(x)
    r = ("p" if _prefix(d1, x) else "") + ("s" if _suffix(x, d2) else "")
    return r or None


def _pre(which, spec):
    """Use the pool's verdict when it is for exactly this spec and says 'fine'; anything else is recomputed here."""
    pre = _PRE
    if pre is None or pre[0] != spec["x"]:
        return _MISS
    if which == "p" and pre[1] == spec.get("d1") and (pre[3] is None or "p" not in pre[3]):
        return None
    if which == "s" and pre[2] == spec.get("d2") and (pre[3] is None or "s" not in pre[3]):
        return None
    return _MISS


# ---- random truncations / corruptions -----------------------------------------------------------------------------------
_XVALID = ["@article{xk1,\n  title = {a {nested} title},\n  x = 1,\n  k = \"a, b = c\"\n}", "@string{xs = \"a string\"}", "@string{xt = {braced {x}}}",
           "@preamble{\"pre\" # xs}", "@comment{explicit {nested} comment}", "@a{k, x = \"{\" # x # \"}\"}", "free text, with = marks", "@a {k1,\n x\n = {1\n\n1}\n}"]
_XCHARS = tokens.ALPHABET + ["%", "\r", "@", "a", "(", ")", "'"]


assert not FORBIDDEN_IN_X.intersection("".join(tokens.ALPHABET + _XVALID + _XCHARS)), "X sources must not be able to spell a pool key"


def _rand_x(r):
    s = "\n".join(r.choice(_XVALID) for _ in range(r.randrange(1, 4)))
    for _ in range(r.randrange(1, 5)):
        i = r.randrange(len(s) + 1)
        op = r.randrange(5)
        if op == 0:
            s = s[:i]                                   # truncation
        elif op == 1:
            s = s[i:]                                   # lost head
        elif op == 2:
            s = s[:i] + s[i + r.randrange(1, 6):]       # deletion
        elif op == 3:
            s = s[:i] + r.choice(_XCHARS) + s[i:]       # insertion
        else:
            s = s[:i] + r.choice(_XCHARS) + s[i + 1:]   # substitution
    return s


def generate(tier, rng):
    global _PRE
    quick = tier == "quick"
    _PRE = None
    for d1 in DOCS:
        for d2 in STARTS_BLOCK:
            if d1 != d2:
                yield "C04.pair", {"d1": d1, "d2": d2}, True
    # X of <= 2 tokens against every D1 and every D2
    for x in (t for n in range(3) for t in tokens.seqs(ALPHA_FULL, n)):
        for d1 in ENDS_COMPLETE:
            yield "C04.prefix", {"d1": d1, "x": x}, bool(x.strip())
        for d2 in STARTS_BLOCK:
            yield "C04.suffix", {"x": x, "d2": d2}, bool(x.strip())
    plans = [(ALPHA_FULL, 3, 4)] if quick else [(ALPHA_FULL, 3, 5), (ALPHA_12, 6, 6)]
    for alpha, lo, hi in plans:
        for x, verdict in tokens.scan(_fast, alpha, hi, minlen=lo):
            d1, d2 = _pick(x)
            nt = bool(x.strip())
            _PRE = (x, d1, d2, verdict)
            yield "C04.prefix", {"d1": d1, "x": x}, nt
            _PRE = (x, d1, d2, verdict)
            yield "C04.suffix", {"x": x, "d2": d2}, nt
    _PRE = None
    d1s = ENDS_COMPLETE
    for _ in range(3000 if quick else 40000):
        d1 = rng.choice(d1s)
        d2 = rng.choice([n for n in STARTS_BLOCK if n != d1])
        yield "C04.triple", {"d1": d1, "x": _rand_x(rng), "d2": d2}, True
