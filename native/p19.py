"""C19 bounded stand-in: Entry as an insertion-ordered mapping of its fields (against a Python dict subjected to the
same operations) and structural equality of fields / non-failed blocks.

C19.mapping spec = {"type", "key", "start": [[k, v], ...], "ops": [op, ...], "copies": bool (also compare with copy/deepcopy at the end)}; ops:
    ["set_field", k, v]  e.set_field(Field(k, v, start_line=50 + step))      d[k] = v
    ["setitem", k, v]    e[k] = v                                            d[k] = v
    ["pop", k]           e.pop(k)                                            d.pop(k, None)
    ["pop_default", k, x] e.pop(k, x)                                        d.pop(k, x)
    ["del", k]           del e[k]                                            del d[k]        (KeyError when absent)
    ["get", k] ["get_default", k, x] ["contains", k] ["getitem", k]          d.get(k) / d.get(k, x) / k in d / d[k]
    ["items"] ["fields"] ["fields_dict"]                                     the three views, compared with d
After EVERY op: fields / fields_dict / items() against d (keys, values, order, object identity of the stored Field),
then get / in / [] for every pool key, one absent key and ENTRYTYPE / ID.
C19.equal spec = {"a": obj, "b": obj | None, "via": "independent" | "copy" | "deepcopy", "expect": bool, "diff": str}
obj = {"t": field|entry|string|preamble|ecomment|icomment, ..., "meta": {...}, "sub": bool (a trivial subclass)}."""
import copy
import itertools
import json

from bibtexparser.model import Entry, ExplicitComment, Field, ImplicitComment, Preamble, String

RULE = ("(a) operation sequences (set_field, item assignment, pop with/without default, item deletion, get, in, [], views) over the key pool "
        "title/Title/year/note (+ an absent key, ENTRYTYPE, ID for lookups) starting from entries with 0..3 distinct fields, compared step by "
        "step (results, order, identity of stored fields, all three views, every lookup) with a dict; at the end the entry must equal an "
        "independently constructed entry with the dict's content; (b) pairs of fields/blocks of the six non-failed classes differing in exactly "
        "one attribute (must be unequal, both directions) and identical / copy / deepcopy pairs (must be equal); "
        "non-trivial = at least one operation / every pair; distinct = distinct spec")
BOUND = {"quick": "all sequences of <= 3 mutating ops (16-op alphabet) from 4 start entries (0..3 fields) and all of 4 ops from 2 start entries "
                  "(0 and 2 fields), with the full lookup battery after every op; 2000 random sequences of depth 1..30 over all ops; "
                  "equality: 8 fixed + 300 random base objects x all single-attribute perturbations",
         "thorough": "all sequences of <= 4 mutating ops from 4 start entries and all of 5 ops from 2 start entries; 30000 random sequences; "
                     "equality: 8 fixed + 5000 random base objects"}

POOL = ["title", "Title", "year", "note"]
ABSENT = "zz"
_S = object()

CLS = {"field": Field, "entry": Entry, "string": String, "preamble": Preamble, "ecomment": ExplicitComment, "icomment": ImplicitComment}
SUB = {t: type("Sub" + c.__name__, (c,), {}) for t, c in CLS.items()}


def _viol(step, op, what, expected, observed, key=None):
    v = {"what": "step %d %s: %s" % (step, op, what), "expected": repr(expected)[:300], "observed": repr(observed)[:300]}
    if key:
        v["finding_key"] = key
    return v


# ------------------------------------------------------------------ (a) the mapping part
def _state(e, ref, etype, ekey):
    """fields / fields_dict / items() against the reference dict ref: k -> [value, Field object | None, start_line].
    Binds the Field object of keys written through item assignment.  -> None | (what, expected, observed)"""
    fields = e.fields
    exp = [(k, r[0]) for k, r in ref.items()]
    if type(fields) is not list or len(fields) != len(ref):
        return "fields: number / order of fields", exp, [(f.key, f.value) for f in fields]
    for f, (k, r) in zip(fields, ref.items()):
        if type(f) is not Field or f.key != k or f.value != r[0] or f.start_line != r[2]:
            return "fields: keys, values and order must be those of the dict", exp, [(f.key, f.value) for f in fields]
        if r[1] is None:
            r[1] = f
        elif f is not r[1]:
            return "fields: the stored Field object for %r was replaced by another object" % k, exp, [(f.key, f.value) for f in fields]
    fd = e.fields_dict
    if type(fd) is not dict or list(fd) != list(ref) or not all(fd[f.key] is f for f in fields):
        return "fields_dict does not describe the same fields in the same order as fields", exp, [(k, getattr(v, "value", v)) for k, v in fd.items()]
    it = e.items()
    if it != [("ENTRYTYPE", etype), ("ID", ekey)] + exp:
        return "items() does not describe type, key and the same fields in the same order", [("ENTRYTYPE", etype), ("ID", ekey)] + exp, it
    if e.entry_type != etype or e.key != ekey:
        return "entry type / key changed", (etype, ekey), (e.entry_type, e.key)
    # the views are descriptions: modifying what they returned must not change the entry (seen by the next _state call)
    fd.clear()
    del it[:]
    return None


def _lookup(e, ref, k):
    """get / in / [] for one key against the dict.  -> None | (what, expected, observed)"""
    r = ref.get(k)
    try:
        c = k in e
    except Exception as ex:
        return "%r in entry raised" % k, k in ref, repr(ex)
    if c is not (k in ref):
        return "%r in entry" % k, k in ref, c
    try:
        g, g2 = e.get(k), e.get(k, _S)
    except Exception as ex:
        return "get(%r) raised" % k, None, repr(ex)
    if r is None:
        if g is not None or g2 is not _S:
            return "get(%r) of an absent key must return the default" % k, None, (g, g2)
    elif g is not r[1] or g2 is not r[1]:
        return "get(%r) must return the stored field" % k, r[1], (g, g2)
    try:
        v = e[k]
        if r is None:
            return "entry[%r] of an absent key must raise KeyError" % k, "KeyError", v
        if v != r[0]:
            return "entry[%r]" % k, r[0], v
    except KeyError as ex:
        if r is not None:
            return "entry[%r] raised KeyError for a present key" % k, r[0], repr(ex)
    except Exception as ex:
        return "entry[%r] raised" % k, "KeyError" if r is None else r[0], repr(ex)
    return None


def _battery(e, ref, etype, ekey):
    for k in POOL:
        m = _lookup(e, ref, k)
        if m:
            return m
    m = _lookup(e, ref, ABSENT)
    if m:
        return m
    try:
        t, i = e["ENTRYTYPE"], e["ID"]
    except Exception as ex:
        return "entry['ENTRYTYPE'] / entry['ID'] raised", (etype, ekey), repr(ex)
    if t != etype or i != ekey:
        return "entry['ENTRYTYPE'] / entry['ID']", (etype, ekey), (t, i)
    return None


def _try(fn, *a):
    """call into the code under test: -> (exception | None, result)"""
    try:
        return None, fn(*a)
    except Exception as ex:
        return ex, None


def check_mapping(spec):
    etype, ekey = spec.get("type", "article"), spec.get("key", "K")
    init = [Field(k, v, start_line=i) for i, (k, v) in enumerate(spec["start"])]
    e = Entry(etype, ekey, list(init), start_line=3, raw="@raw")
    ref = {f.key: [f.value, f, f.start_line] for f in init}       # the insertion-ordered dictionary
    assert len(ref) == len(init) and "ENTRYTYPE" not in ref and "ID" not in ref, "spec outside the property's domain"
    recorded = None
    m = _state(e, ref, etype, ekey) or _battery(e, ref, etype, ekey)
    if m:
        return _viol(-1, "start", *m)
    for step, op in enumerate(spec["ops"]):
        name = op[0]
        k = op[1] if len(op) > 1 else None
        if name == "set_field":
            f = Field(k, op[2], start_line=50 + step)
            ex, r = _try(e.set_field, f)
            if k in ref:
                ref[k][:] = [op[2], f, 50 + step]           # replacing keeps the position
            else:
                ref[k] = [op[2], f, 50 + step]              # new keys append
        elif name == "setitem":
            ex, r = _try(e.__setitem__, k, op[2])
            if k in ref:
                ref[k][:] = [op[2], None, None]
            else:
                ref[k] = [op[2], None, None]
        elif name in ("pop", "pop_default"):
            dflt = op[2] if name == "pop_default" else None
            exp = ref.pop(k, None)                          # removal closes the gap
            ex, r = _try(e.pop, k, dflt) if name == "pop_default" else _try(e.pop, k)
            if ex is None and exp is None and r is not dflt:
                return _viol(step, op, "pop of an absent key must return the default", dflt, r)
            if ex is None and exp is not None and r is not exp[1]:
                return _viol(step, op, "pop must return the stored field", exp[1], r)
        elif name == "del":
            present = k in ref
            if present:
                del ref[k]
            ex, r = _try(e.__delitem__, k)
            if ex is None and not present:
                recorded = recorded or _viol(step, op, "deleting an absent key does not raise KeyError (a dict does)", "KeyError", "no exception",
                                             "N19-delitem-absent-no-keyerror")
            if type(ex) is KeyError and not present:
                ex = None
        elif name == "get_default":
            ex, r = _try(e.get, k, op[2])
            exp = ref[k][1] if k in ref else op[2]
            if ex is None and r is not exp:
                return _viol(step, op, "get with default", exp, r)
        elif name in ("get", "contains", "getitem"):
            ex = None
            if k in ("ENTRYTYPE", "ID"):
                ex, r = _try(e.__getitem__, k)
                if ex is None and r != (etype if k == "ENTRYTYPE" else ekey):
                    return _viol(step, op, "reserved lookup", etype if k == "ENTRYTYPE" else ekey, r)
            else:
                m = _lookup(e, ref, k)
                if m:
                    return _viol(step, op, *m)
        elif name in ("items", "fields", "fields_dict"):
            ex = None                                       # the three views are compared right below, after every op
        else:
            raise ValueError("unknown op %r" % (op,))
        if ex is not None:
            return _viol(step, op, "operation raised %s" % type(ex).__name__, "no exception", repr(ex))
        m = _state(e, ref, etype, ekey) or _battery(e, ref, etype, ekey)
        if m:
            return _viol(step, op, *m)
        fl = e.fields                                       # the lookups must not have touched the field list
        if len(fl) != len(ref) or any(f is not r[1] for f, r in zip(fl, ref.values())):
            return _viol(step, op, "get / in / [] lookups modified the field list", list(ref), [f.key for f in fl])
    # structural equality with an independently constructed entry holding the dict's content
    other = Entry(etype, ekey, [Field(k, r[0], r[2]) for k, r in ref.items()], start_line=3, raw="@raw")
    if not (e == other) or not (other == e) or (e != other):
        return _viol(len(spec["ops"]), "end", "entry != independently constructed entry with the same content", repr(other), repr(e))
    m = _state(e, ref, etype, ekey)
    if m:
        return _viol(len(spec["ops"]), "end", *m)
    if spec.get("copies"):
        for dc in (copy.deepcopy(e), copy.copy(e)):
            if not (e == dc) or not (dc == e) or dc is e:
                return _viol(len(spec["ops"]), "end", "entry != its (deep) copy", repr(dc), repr(e))
    return recorded


# ------------------------------------------------------------------ (b) structural equality
def build(s):
    t = s["t"]
    cls = SUB[t] if s.get("sub") else CLS[t]
    if t == "field":
        return cls(s["key"], s["value"], s.get("line"))
    if t == "entry":
        o = cls(s["type"], s["key"], [build(f) for f in s["fields"]], s.get("line"), s.get("raw"))
    elif t == "string":
        o = cls(s["key"], s["value"], s.get("line"), s.get("raw"))
    elif t == "preamble":
        o = cls(s["value"], s.get("line"), s.get("raw"))
    elif t in ("ecomment", "icomment"):
        o = cls(s["comment"], s.get("line"), s.get("raw"))
    else:
        raise ValueError(t)
    for k, v in s.get("meta", {}).items():
        o.set_parser_metadata(k, v)
    return o


def check_equal(spec):
    a = build(spec["a"])
    via = spec["via"]
    b = build(spec["b"]) if via == "independent" else copy.copy(a) if via == "copy" else copy.deepcopy(a)
    exp = spec["expect"]
    if via != "independent" and (b is a or type(b) is not type(a)):
        return {"what": "%s did not produce a new object of the same class" % via, "expected": type(a).__name__, "observed": type(b).__name__}
    try:
        r = [a == b, b == a, not (a != b), not (b != a)]
        refl = [a == a, b == b]
        alien = [a == None, a == "x", a == spec["a"]]    # noqa: E711
    except Exception as ex:
        return {"what": "comparison raised (%s)" % spec.get("diff"), "expected": exp, "observed": repr(ex)}
    if any(x is not True and x is not False for x in r + refl + alien):
        return {"what": "== did not return a bool", "expected": "bool", "observed": repr(r + refl + alien)}
    if r != [exp] * 4:
        return {"what": "pair %s (%s): [a==b, b==a, not a!=b, not b!=a]" % ("differing only in " + spec["diff"] if not exp else "identical", via),
                "expected": [exp] * 4, "observed": r}
    if refl != [True, True]:
        return {"what": "equality is not reflexive", "expected": [True, True], "observed": refl}
    if alien != [False, False, False]:
        return {"what": "a block/field compares equal to an object of another class", "expected": [False] * 3, "observed": alien}
    return None


CHECKS = {"C19.mapping": check_mapping, "C19.equal": check_equal}

# ------------------------------------------------------------------ generation
STARTS = [[], [["title", "s0"]], [["title", "s0"], ["Title", "s1"]], [["title", "s0"], ["Title", "s1"], ["year", "s2"]]]
MUT = [[n, k] for n in ("set_field", "setitem", "pop", "del") for k in POOL]


def _with_values(ops):
    return [op + ["v%d" % i] if op[0] in ("set_field", "setitem") else list(op) for i, op in enumerate(ops)]


def rand_mapping(rng):
    keys = rng.sample(POOL, rng.randrange(0, 4))
    start = [[k, "s%d" % i] for i, k in enumerate(keys)]
    ops = []
    for i in range(rng.randrange(1, 31)):
        r = rng.random()
        k = rng.choice(POOL) if rng.random() < 0.93 else ABSENT
        if r < 0.2:
            ops.append(["set_field", k, rng.choice(["v%d" % i, "s0", 1990])])
        elif r < 0.4:
            ops.append(["setitem", k, rng.choice(["v%d" % i, "s0", 1990])])
        elif r < 0.5:
            ops.append(["pop", k])
        elif r < 0.56:
            ops.append(["pop_default", k, rng.choice(["dflt", 0, None])])
        elif r < 0.68:
            ops.append(["del", k])
        elif r < 0.74:
            ops.append(["get", k])
        elif r < 0.78:
            ops.append(["get_default", k, rng.choice(["dflt", 0, None])])
        elif r < 0.84:
            ops.append(["contains", k])
        elif r < 0.92:
            ops.append(["getitem", rng.choice([k, k, "ENTRYTYPE", "ID"])])
        else:
            ops.append([rng.choice(["items", "fields", "fields_dict"])])
    return {"type": rng.choice(["article", "book", "ENTRYTYPE"]), "key": rng.choice(["K", "", "ID", "title"]), "start": start, "ops": ops, "copies": True}


def _field(k="title", v="{T}", line=2):
    return {"t": "field", "key": k, "value": v, "line": line}


BASES = [
    _field(),
    _field("year", "1990", None),
    {"t": "entry", "type": "article", "key": "k", "fields": [], "line": 0, "raw": "@article{k,}"},
    {"t": "entry", "type": "article", "key": "k", "fields": [_field("title", "{T}", 1), _field("Title", "{T}", 2), _field("year", "1990", 3)],
     "line": 4, "raw": "@article{k, ...}", "meta": {"m": 1}},
    {"t": "string", "key": "s", "value": "\"v\"", "line": 1, "raw": "@string{s = \"v\"}"},
    {"t": "preamble", "value": "\"p\"", "line": 1, "raw": "@preamble{\"p\"}", "meta": {"m": [1, 2]}},
    {"t": "ecomment", "comment": "c", "line": 1, "raw": "@comment{c}"},
    {"t": "icomment", "comment": "c", "line": 1, "raw": "c"},
]


def rand_base(rng):
    t = rng.choice(["field", "entry", "entry", "string", "preamble", "ecomment", "icomment"])
    line = rng.choice([None, 0, 1, 7, 120])
    val = lambda: rng.choice(["{v}", "\"q\"", "1990", "", "{a {b} c}", "jan", "x # y"])
    if t == "field":
        return _field(rng.choice(POOL + ["a", ""]), val(), line)
    raw = rng.choice([None, "", "@raw{...}", "two\nlines"])
    meta = rng.choice([{}, {}, {"m": 1}, {"removed_enclosing": {"title": "{"}}, {"a": None, "b": [1]}])
    if t == "entry":
        keys = rng.sample(POOL + ["a", "author"], rng.randrange(0, 5))
        s = {"t": t, "type": rng.choice(["article", "book", ""]), "key": rng.choice(["k", "K", "", "a:b"]),
             "fields": [_field(k, val(), rng.choice([None, i, i + 3])) for i, k in enumerate(keys)], "line": line, "raw": raw}
    elif t == "string":
        s = {"t": t, "key": rng.choice(["s", "S", "jan"]), "value": val(), "line": line, "raw": raw}
    elif t == "preamble":
        s = {"t": t, "value": val(), "line": line, "raw": raw}
    else:
        s = {"t": t, "comment": rng.choice(["c", "", "two\nlines", "% x"]), "line": line, "raw": raw}
    if meta:
        s["meta"] = meta
    return s


def _ch_str(v):
    return (v + "x") if isinstance(v, str) else "x"


def _ch_line(v):
    return 0 if v is None else v + 1


def perturbations(a):
    """all single-attribute perturbations of an object spec -> [(attribute name, perturbed spec)]"""
    out = []

    def put(name, **kw):
        b = json.loads(json.dumps(a))
        b.update(kw)
        out.append((name, b))

    t = a["t"]
    for attr in ("key", "value", "comment", "type"):
        if attr in a:
            put(attr, **{attr: _ch_str(a[attr])})
            if a[attr] != a[attr].swapcase():
                put(attr + " (case)", **{attr: a[attr].swapcase()})
    if t == "field" and a["value"].isdigit():
        put("value (int instead of str)", value=int(a["value"]))
    put("start line", line=_ch_line(a.get("line")))
    if a.get("line") is not None:
        put("start line (None)", line=None)
    put("class (a subclass)", sub=True)
    if t == "field":
        return out
    put("raw", raw=_ch_str(a.get("raw")))
    if a.get("raw") is not None:
        put("raw (None)", raw=None)
    meta = a.get("meta", {})
    put("metadata (one more item)", meta=dict(meta, zz=1))
    for k in meta:
        put("metadata (value of %r)" % k, meta=dict(meta, **{k: [meta[k]]}))
        put("metadata (item %r removed)" % k, meta={x: y for x, y in meta.items() if x != k})
    if t in ("ecomment", "icomment"):
        put("class (explicit <-> implicit comment)", t="icomment" if t == "ecomment" else "ecomment")
    if t == "entry":
        fs = a["fields"]
        for i, f in enumerate(fs):
            for name, g in perturbations(f):
                put("field %d %s" % (i, name), fields=fs[:i] + [g] + fs[i + 1:])
            put("field %d removed" % i, fields=fs[:i] + fs[i + 1:])
            if i + 1 < len(fs) and fs[i] != fs[i + 1]:
                put("field order (%d <-> %d)" % (i, i + 1), fields=fs[:i] + [fs[i + 1], fs[i]] + fs[i + 2:])
        put("one more field", fields=fs + [_field("extra", "{e}", None)])
        if fs:
            put("first field duplicated at the end", fields=fs + [fs[0]])
    return out


def equal_cases(a):
    yield {"a": a, "b": json.loads(json.dumps(a)), "via": "independent", "expect": True, "diff": "nothing"}
    yield {"a": a, "b": None, "via": "copy", "expect": True, "diff": "nothing"}
    yield {"a": a, "b": None, "via": "deepcopy", "expect": True, "diff": "nothing"}
    for name, b in perturbations(a):
        yield {"a": a, "b": b, "via": "independent", "expect": False, "diff": name}


def generate(tier, rng):
    # (b) equality, fixed bases first
    for a in BASES:
        for spec in equal_cases(a):
            yield "C19.equal", spec, True
    # (a) bounded-exhaustive mutator sequences, shortest first
    depth = 4 if tier == "quick" else 5
    yield "C19.mapping", {"type": "article", "key": "K", "start": [], "ops": []}, False
    for d in range(1, depth + 1):
        for start in (STARTS if d < depth else [STARTS[0], STARTS[2]]):
            for ops in itertools.product(MUT, repeat=d):
                spec = {"type": "article", "key": "K", "start": start, "ops": _with_values(ops)}
                if d <= 2:
                    spec["copies"] = True
                yield "C19.mapping", spec, True
    for _ in range(2000 if tier == "quick" else 30000):
        yield "C19.mapping", rand_mapping(rng), True
    for _ in range(300 if tier == "quick" else 5000):
        for spec in equal_cases(rand_base(rng)):
            yield "C19.equal", spec, True
