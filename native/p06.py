"""C06 bounded stand-in: the writer against a reference renderer written from the property statement."""
import itertools

from bibtexparser import writer
from bibtexparser.model import Entry, ExplicitComment, ImplicitComment, ParsingFailedBlock, Preamble, String
from native.common import *

RULE = ("libraries built from block specs (all six block kinds, 0..4 fields, keys shorter/longer than the column) x formats "
        "(value_column 0..40 and 'auto', indents incl. empty, multi-character separators, custom failed comment, trailing comma); "
        "non-trivial = library has at least one block; distinct = distinct (library, format) spec")
BOUND = {"quick": "all 41+1 columns x 2 commas on 6 fixed libraries + 1500 random pairs", "thorough": "same + 20000 random pairs"}


def ref_render(lib, f):
    """Reference renderer: the property statement, not the code."""
    col = f["value_column"]
    if col == "auto":
        keys = [fld.key for b in lib.blocks if isinstance(b, Entry) for fld in b.fields]
        col = 3 + max([len(k) for k in keys], default=0)
    texts = []
    for b in lib.blocks:
        if isinstance(b, Entry):
            t = "@" + b.entry_type + "{" + b.key + ",\n"
            n = len(b.fields)
            for i, fld in enumerate(b.fields):
                pad = " " * max(0, col - len(fld.key) - 3)
                t += f["indent"] + fld.key + pad + " = " + fld.value + ("," if (f["trailing_comma"] or i < n - 1) else "") + "\n"
            t += "}\n"
        elif isinstance(b, String):
            t = "@string{" + b.key + " = " + b.value + "}\n"
        elif isinstance(b, Preamble):
            t = "@preamble{" + b.value + "}\n"
        elif isinstance(b, ExplicitComment):
            t = "@comment{" + b.comment + "}\n"
        elif isinstance(b, ImplicitComment):
            t = b.comment + "\n"
        else:
            comment = f.get("parsing_failed_comment") or "% WARNING Parsing failed for the following {n} lines."
            t = comment.format(n=len(b.raw.splitlines())) + "\n" + b.raw + "\n"
        texts.append(t)
    return f["block_separator"].join(texts), col


def check_render(spec):
    lib = library_from_spec(spec["library"])
    fmt = format_from_spec(spec["format"])
    before = dict(vars(fmt))
    lib_before = snapshot(lib)
    out = writer.write(lib, fmt)
    exp, col = ref_render(lib, spec["format"])
    if dict(vars(fmt)) != before:
        return {"what": "the format object was modified by write()", "expected": before, "observed": dict(vars(fmt))}
    if snapshot(lib) != lib_before:
        return {"what": "the library was modified by write()"}
    if out != exp:
        key = None
        if spec["format"].get("parsing_failed_comment") and any(isinstance(b, ParsingFailedBlock) for b in lib.blocks):
            # is the configured comment the only difference?
            f2 = dict(spec["format"], parsing_failed_comment=None)
            if ref_render(lib, f2)[0] == out:
                key = "F5-custom-failed-comment-ignored"
        return {"what": "writer output differs from the format contract", "expected": exp, "observed": out, "finding_key": key}
    # the column clause, checked on the text itself
    ind = spec["format"]["indent"]
    if "\n" not in ind and " = " not in ind:
        for b in lib.blocks:
            if isinstance(b, Entry):
                for fld in b.fields:
                    if len(fld.key) + 3 <= col and "\n" not in fld.key and " = " not in fld.key:
                        line = ind + fld.key + " " * (col - len(fld.key) - 3) + " = "
                        if len(line) != len(ind) + col:
                            return {"what": "column arithmetic", "expected": len(ind) + col, "observed": len(line)}
    return None


CHECKS = {"C06.render": check_render}

FIXED = [
    [],
    [{"t": "entry", "type": "article", "key": "k", "fields": []}],
    [{"t": "entry", "type": "article", "key": "k", "fields": [["a", "{1}"], ["title", "{T}"], ["averyveryverylongfieldkey", "{x}"]]},
     {"t": "entry", "type": "book", "key": "k2", "fields": [["year", "1990"]]}],
    [{"t": "failed", "raw": "@article{broken\nline2"}, {"t": "icomment", "comment": "free"}, {"t": "string", "key": "s", "value": "\"v\""}],
    [{"t": "preamble", "value": "p"}, {"t": "ecomment", "comment": "c"}, {"t": "entry", "type": "misc", "key": "dup", "fields": [["a", "{1}"]]},
     {"t": "entry", "type": "misc", "key": "dup", "fields": [["ab", "{2}"]]}],
    [{"t": "dupfield", "dups": ["a"], "entry": {"t": "entry", "type": "misc", "key": "k", "fields": [["a", "{1}"], ["a", "{2}"]]}},
     {"t": "mwerror", "block": {"t": "entry", "type": "misc", "key": "k9", "fields": [["a", "{1}"]]}}],
]


def rand_format(rng):
    return {"indent": rng.choice(["", " ", "\t", "    ", "  "]), "value_column": rng.choice(list(range(0, 41)) + ["auto"] * 8),
            "block_separator": rng.choice(["\n", "\n\n", "\n\n\n", "", "\n% sep\n"]), "trailing_comma": rng.random() < 0.5,
            "parsing_failed_comment": rng.choice([None, None, "% CUSTOM {n}", "%% {n} lines failed"])}


def generate(tier, rng):
    for lib in FIXED:
        for col in list(range(0, 41)) + ["auto"]:
            for tc in (False, True):
                yield "C06.render", {"library": lib, "format": {"indent": "\t", "value_column": col, "block_separator": "\n\n",
                                                                   "trailing_comma": tc, "parsing_failed_comment": None}}, bool(lib)
    n = 1500 if tier == "quick" else 20000
    for _ in range(n):
        lib = rand_library_spec(rng)
        yield "C06.render", {"library": lib, "format": rand_format(rng)}, bool(lib)
