"""C11 bounded stand-in: @string references resolve exactly (bare matching identifiers only, first definition wins).

Documents are grammar derivations (native/grammar.py).  The expected library is computed from the derivation:
which piece is a bare identifier, which @string with that key comes first, and what text sits inside one
enclosing layer are all read off the derivation, never off the code under test."""
import itertools

from bibtexparser import parse_string
from bibtexparser.model import (DuplicateBlockKeyBlock, Entry, ExplicitComment, ImplicitComment, Preamble, String)

from native import grammar as G

META = "ResolveStringReferences"

RULE = ("grammar derivations made of @string definitions (before the entry, after it, twice with different content, only under a key of "
        "different letter case, under another key, or not at all; string values quoted, braced, nested-braced, numeric, a bare identifier, or a "
        "concatenation) and entries with pairwise distinct keys and field keys whose values are drawn from {bare defined key, bare undefined key, "
        "'{key}', '\"key\"', the key in upper / title case, 'key # key', 'key # \"x\"', a number}. Concatenations whose first piece opens and "
        "last piece closes with a delimiter ('{a} # {b}', '\"a\" # \"b\"') are left to C10, quoted values with '\"' inside braces (F4) to C02. "
        "Part 1: layouts x string value forms x every field-value tuple up to the stated length, smallest first; Part 2: random documents "
        "(up to 7 blocks, string keys from {jan, JAN, s, x1} with repetitions, random legal whitespace in every slot). "
        "Expected after parse_string (default stack): a field whose value is one bare identifier equal to the key of the FIRST @string with "
        "that key anywhere in the document holds that string's content (the text inside its one enclosing layer; no recursive resolution); "
        "every other field holds its own content (one enclosing layer removed, concatenations and numbers verbatim); every first @string is a "
        "live String with its key and content, later ones with the same key are DuplicateBlockKeyBlocks at their position; "
        "entry.parser_metadata['ResolveStringReferences'] lists the resolved field keys in field order and is absent when none; "
        "block count, order, entry types and keys as written. distinct = distinct derivation; non-trivial = at least one field is a bare identifier.")
BOUND = {"quick": "10 layouts x 6 string forms x all field tuples of length <= 3 over 9 value kinds (49,140) + 4,000 random documents",
         "thorough": "10 layouts x 6 string forms x all field tuples of length <= 3 over 9 value kinds (49,140) + 10 layouts x all 6,561 "
                     "4-tuples (form rotating) + 60,000 random documents"}

_KIND = {"preamble": Preamble, "ecomment": ExplicitComment, "icomment": ImplicitComment}


def content_of(pieces, cws):
    """The value's content: the text inside the enclosing layer of a single braced/quoted piece, else the verbatim value."""
    if len(pieces) == 1 and pieces[0][0] in ("brace", "quote"):
        return pieces[0][1]
    return G.value_text(pieces, cws)


def bare_identifier(pieces):
    return pieces[0][1] if len(pieces) == 1 and pieces[0][0] == "ident" else None


def expected(d):
    """Per block: what the default parse must return, from the derivation alone."""
    first = {}
    for b in d:
        if b["t"] == "string" and b["key"] not in first:
            first[b["key"]] = content_of(b["pieces"], b.get("cws"))
    seen, out = set(), []
    for b in d:
        if b["t"] == "string":
            out.append({"t": "string" if b["key"] not in seen else "dupstring", "key": b["key"], "value": content_of(b["pieces"], b.get("cws")),
                        "verbatim": G.value_text(b["pieces"], b.get("cws"))})
            seen.add(b["key"])
        elif b["t"] == "entry":
            fields, resolved = [], []
            for f in (b.get("fields", []) if b.get("comma", True) else []):
                name = bare_identifier(f["pieces"])
                if name is not None and name in first:
                    fields.append([f["key"], first[name]])
                    resolved.append(f["key"])
                else:
                    fields.append([f["key"], content_of(f["pieces"], f.get("cws"))])
            out.append({"t": "entry", "type": b["type"].lower(), "key": b["key"], "fields": fields, "resolved": resolved})
        else:
            out.append({"t": b["t"], "text": b["text"].strip()})
    return out


def _show(b):
    n = type(b).__name__
    if isinstance(b, Entry):
        return [n, b.entry_type, b.key, [[f.key, f.value] for f in b.fields], b.parser_metadata.get(META, "<absent>")]
    if isinstance(b, String):
        return [n, b.key, b.value]
    if isinstance(b, DuplicateBlockKeyBlock):
        return [n, b.key, _show(b.ignore_error_block)]
    if isinstance(b, (ExplicitComment, ImplicitComment)):
        return [n, b.comment]
    if isinstance(b, Preamble):
        return [n, b.value]
    return [n, getattr(b, "raw", None)]


def check_resolve(spec):
    d = spec["doc"]
    why = G.problems(d, distinct=False)
    if why:
        raise ValueError("spec is not a derivation of the dialect grammar: " + why)
    ekeys = [b["key"] for b in d if b["t"] == "entry"]
    if len(set(ekeys)) != len(ekeys) or any(len({f["key"] for f in b.get("fields", [])}) != len(b.get("fields", [])) for b in d if b["t"] == "entry"):
        raise ValueError("C11 documents have distinct entry keys and field keys")
    text = G.render(d)
    exp = expected(d)
    key = "F4-brace-in-quotes" if G.has_f4_trigger(d) else None

    def viol(what, e, o):
        return {"what": what, "expected": e, "observed": o, "text": text, "finding_key": key}
    try:
        lib = parse_string(text)
    except Exception as ex:
        return viol("parse_string(text) raised", "a library", repr(ex))
    blocks = lib.blocks
    if len(blocks) != len(exp):
        return viol("number of blocks", len(exp), [len(blocks), [_show(b) for b in blocks][:8]])
    for i, (b, e) in enumerate(zip(blocks, exp)):
        w = "block %d: " % i
        if e["t"] == "entry":
            if type(b) is not Entry or b.entry_type != e["type"] or b.key != e["key"] or [f.key for f in b.fields] != [k for k, _ in e["fields"]]:
                return viol(w + "entry type / key / field keys", e, _show(b))
            for f, (k, v) in zip(b.fields, e["fields"]):
                if f.value != v:
                    what = ("a bare identifier naming the first @string with that key must hold that string's content" if k in e["resolved"]
                            else "a field that is not a bare defined identifier must keep its own content")
                    return viol(w + "field %r: %s" % (k, what), v, f.value)
            got = b.parser_metadata.get(META, None)
            if e["resolved"]:
                if got != e["resolved"]:
                    return viol(w + "parser_metadata[%r] must list the resolved field keys in field order" % META, e["resolved"], got)
            elif META in b.parser_metadata:
                return viol(w + "parser_metadata[%r] must be absent when nothing was resolved" % META, "<absent>", got)
        elif e["t"] == "string":
            if type(b) is not String or b.key != e["key"] or b.value != e["value"]:
                return viol(w + "the @string block must stay in the library with its key and content", e, _show(b))
            if lib.strings_dict.get(e["key"]) is not b:
                return viol(w + "strings_dict must map the key to the first definition", _show(b), _show(lib.strings_dict.get(e["key"])) if e["key"] in lib.strings_dict else None)
        elif e["t"] == "dupstring":
            inner = b.ignore_error_block if isinstance(b, DuplicateBlockKeyBlock) else None
            if type(b) is not DuplicateBlockKeyBlock or b.key != e["key"] or type(inner) is not String or inner.key != e["key"] \
                    or inner.value not in (e["value"], e["verbatim"]):
                return viol(w + "a repeated @string definition must stay as a duplicate-key block holding the definition", e, _show(b))
        else:
            if type(b) is not _KIND[e["t"]] or (b.value if e["t"] == "preamble" else b.comment).strip() != e["text"]:
                return viol(w + "other block", e, _show(b))
    return None


CHECKS = {"C11.resolve": check_resolve}

# --------------------------------------------------------------------------------------------- generation
A, B = "January", "Januar"
LAYOUTS = [([], []), ([("jan", A)], []), ([], [("jan", A)]), ([("jan", A), ("jan", B)], []), ([("jan", A)], [("jan", B)]),
           ([], [("jan", A), ("jan", B)]), ([("JAN", A)], []), ([("JAN", B)], [("jan", A)]), ([("s", A)], []), ([("jan", A), ("s", B)], [])]


def string_value(form, x):
    n = "12" if x == A else "13"
    other = "feb" if x == A else "mar"
    return [([["quote", x]], None), ([["brace", x]], None), ([["num", n]], None), ([["ident", other]], None),
            ([["quote", x], ["ident", other]], [[" ", " "]]), ([["brace", x + " {n}"]], None)][form]


FIELD_KINDS = [([["ident", "jan"]], None), ([["ident", "feb"]], None), ([["brace", "jan"]], None), ([["quote", "jan"]], None),
               ([["ident", "JAN"]], None), ([["ident", "Jan"]], None), ([["ident", "jan"], ["ident", "jan"]], [[" ", " "]]),
               ([["num", "12"]], None), ([["ident", "jan"], ["quote", "x"]], [["", " "]])]
FKEYS = ["month", "note", "title", "x-y"]


def _string(key, pieces, cws, lead):
    b = {"t": "string", "key": key, "e1": " ", "e2": " ", "pieces": pieces}
    if cws:
        b["cws"] = cws
    if lead:
        b["lead"] = "\n"
    return b


def _entry(key, kinds, lead):
    b = {"t": "entry", "type": "Article", "key": key, "w2": "\n ", "fields": []}
    for j, k in enumerate(kinds):
        pieces, cws = FIELD_KINDS[k]
        f = {"key": FKEYS[j], "e1": " ", "e2": " ", "pieces": pieces, "wb": "\n "}
        if cws:
            f["cws"] = cws
        b["fields"].append(f)
    if lead:
        b["lead"] = "\n"
    return b


def build(layout, form, kinds, r):
    before, after = LAYOUTS[layout]
    d = []
    for k, x in before:
        d.append(_string(k, *string_value(form, x), lead=bool(d)))
    d.append(_entry("k1", kinds, bool(d)))
    for k, x in after:
        d.append(_string(k, *string_value((form + (1 if r % 3 == 0 else 0)) % 6, x), lead=True))
    if r % 2:
        d.append(_entry("k2", [0], True))        # a second entry: its own metadata, same first-definition rule
    return d


def _nontrivial(d):
    return any(bare_identifier(f["pieces"]) is not None for b in d if b["t"] == "entry" for f in b.get("fields", []))


def random_doc(rng):
    pool = ["jan", "JAN", "s", "x1"]
    names = pool + ["Jan", "feb", "S", "undefined"]
    d, ek = [], 0
    for i in range(rng.randrange(1, 8)):
        r = rng.random()
        if r < 0.45:
            tag = "c%d" % i
            form = rng.randrange(7)
            if form == 6:
                pieces, cws = [["ident", rng.choice(names)], ["quote", tag]], [[G.rand_ws(rng), G.rand_ws(rng)]]
            else:
                pieces, cws = string_value(form, A)
                pieces = [[k, t.replace(A, tag)] for k, t in pieces]
                if cws:
                    cws = [[G.rand_ws(rng), G.rand_ws(rng)]]
            b = G._put({"t": "string", "key": rng.choice(pool), "pieces": pieces}, hs=G.rand_hs(rng), w0=G.rand_ws(rng), e1=G.rand_ws(rng),
                       e2=G.rand_ws(rng), w3=G.rand_ws(rng))
            if cws:
                b["cws"] = cws
            if rng.random() < 0.3:
                b["kw"] = rng.choice(["String", "STRING"])
        elif r < 0.9:
            b = G._put({"t": "entry", "type": rng.choice(["article", "Book", "MISC"]), "key": "k%d" % ek}, hs=G.rand_hs(rng), w0=G.rand_ws(rng),
                       w1=G.rand_ws(rng), w2=G.rand_ws(rng))
            ek += 1
            fields = []
            nf = rng.choice([0, 1, 2, 3, 4])
            for j in range(nf):
                kind = rng.randrange(8)
                n1, n2 = rng.choice(names), rng.choice(names)
                if kind == 0 or kind == 7:
                    pieces, cws = [["ident", n1]], None
                elif kind == 1:
                    pieces, cws = [["brace", n1]], None
                elif kind == 2:
                    pieces, cws = [["quote", n1]], None
                elif kind == 3:
                    pieces, cws = [["ident", n1], ["ident", n2]], [[G.rand_ws(rng), G.rand_ws(rng)]]
                elif kind == 4:
                    pieces, cws = [["num", str(rng.choice([0, 12, 1990]))]], None
                elif kind == 5:
                    pieces, cws = [["ident", n1], ["quote", n2]], [[G.rand_ws(rng), G.rand_ws(rng)]]
                else:
                    pieces, cws = [["brace", " " + n1 + " "]], None
                f = G._put({"key": "f%d" % j, "pieces": pieces}, e1=G.rand_ws(rng), e2=G.rand_ws(rng), wa=G.rand_ws(rng))
                if cws:
                    f["cws"] = cws
                if j == nf - 1 and rng.random() < 0.5:
                    f["comma"] = False
                else:
                    G._put(f, wb=G.rand_ws(rng))
                fields.append(f)
            if fields:
                b["fields"] = fields
        else:
            kind = rng.choice(["ecomment", "icomment", "preamble"])
            if kind == "icomment" and d and d[-1]["t"] == "icomment":
                kind = "preamble"
            b = {"t": kind, "text": "jan %d" % i}
        lead = G.rand_ws(rng, 0.3)
        if lead:
            b["lead"] = lead
        d.append(b)
    return d


def generate(tier, rng):
    r = 0
    nk = len(FIELD_KINDS)
    maxfull, nrand = (3, 4000) if tier == "quick" else (3, 60000)
    for n in range(1, maxfull + 1):
        for kinds in itertools.product(range(nk), repeat=n):
            for layout in range(len(LAYOUTS)):
                for form in range(6):
                    d = build(layout, form, kinds, r)
                    r += 1
                    yield "C11.resolve", {"doc": d}, _nontrivial(d)
    if tier != "quick":
        for kinds in itertools.product(range(nk), repeat=4):
            for layout in range(len(LAYOUTS)):
                d = build(layout, r % 6, kinds, r)
                r += 1
                yield "C11.resolve", {"doc": d}, _nontrivial(d)
    for _ in range(nrand):
        d = random_doc(rng)
        yield "C11.resolve", {"doc": d}, _nontrivial(d)
