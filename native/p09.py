"""C09 bounded stand-in: duplicate entry keys, string keys and field keys are flagged, never merged or dropped.

Documents are grammar derivations (native/grammar.py, repeated keys allowed) whose keys come from a pool of three.
The expected outcome is computed from the derivation's source blocks by the first-wins rule of the property text."""
import itertools

from bibtexparser import parse_string
from bibtexparser.model import (DuplicateBlockKeyBlock, DuplicateFieldKeyBlock, Entry, ExplicitComment, ImplicitComment,
                                ParsingFailedBlock, Preamble, String)

from native import grammar as G

RULE = ("grammar derivations of up to 6 blocks in which entry keys, string keys and field keys are drawn from one pool of three names "
        "(so the same name is used as entry key, string key and field key). Part 1: every sequence over the block alphabet "
        "{entry a, entry b, entry c, entry-with-repeated-field a, entry-with-repeated-field b, @string a, @string b, filler "
        "(@comment / free text / @preamble)} up to the stated length (all multiplicities and interleavings), field-key lists rotating "
        "through 6 shapes without and 6 shapes with repetition, every field value a distinct tag (braced, quoted or numeric; never a bare "
        "identifier, never a quoted value with '\"' inside braces - F4 belongs to C02). Part 2: random documents of 1..6 blocks with random "
        "field-key lists (0..4 keys from the pool), random legal whitespace in every slot, pools {a,b,c} or {k,K,k:1}. "
        "Each case is parsed with parse_stack=[] and with the default stack and compared with the first-wins model: block count, class of every "
        "block at its own position, DuplicateBlockKeyBlock.key / previous_block (identity with the first block) / ignore_error_block (all fields), "
        "DuplicateFieldKeyBlock.ignore_error_block (every field occurrence in order) and duplicate_keys, entries_dict / strings_dict / entries / "
        "strings / failed_blocks. distinct = distinct derivation; non-trivial = some key occurs at least twice.")
BOUND = {"quick": "all 37,449 block sequences of length <= 5 over the 8-symbol alphabet + 4,000 random documents (<= 6 blocks)",
         "thorough": "all 299,593 block sequences of length <= 6 over the 8-symbol alphabet + 60,000 random documents (<= 6 blocks)"}

_KIND = {"string": String, "preamble": Preamble, "ecomment": ExplicitComment, "icomment": ImplicitComment}


def strip_one(v):
    """one enclosing layer removed (what the default stack does to live entries and strings)"""
    if len(v) >= 2 and ((v[0] == "{" and v[-1] == "}") or (v[0] == '"' and v[-1] == '"')):
        return v[1:-1]
    return v


def model(src):
    """First-wins model on the source blocks: per block ('live',) / ('dupkey', first_index) / ('dupfield', keys) / ('other',)."""
    live_e, live_s, exp = {}, {}, []
    for i, b in enumerate(src):
        if b["t"] == "entry":
            keys = [k for k, _ in b["fields"]]
            rep = sorted({k for k in keys if keys.count(k) > 1})
            if rep:
                exp.append(("dupfield", rep))
            elif b["key"] in live_e:
                exp.append(("dupkey", live_e[b["key"]]))
            else:
                live_e[b["key"]] = i
                exp.append(("live",))
        elif b["t"] == "string":
            if b["key"] in live_s:
                exp.append(("dupkey", live_s[b["key"]]))
            else:
                live_s[b["key"]] = i
                exp.append(("live",))
        else:
            exp.append(("other",))
    return exp, live_e, live_s


def _show(b):
    n = type(b).__name__
    if isinstance(b, Entry):
        return [n, b.entry_type, b.key, [[f.key, f.value] for f in b.fields]]
    if isinstance(b, String):
        return [n, b.key, b.value]
    if isinstance(b, DuplicateBlockKeyBlock):
        return [n, b.key, _show(b.ignore_error_block)]
    if isinstance(b, DuplicateFieldKeyBlock):
        return [n, sorted(b.duplicate_keys), _show(b.ignore_error_block)]
    return [n]


def _same_block(obj, s, stripped_live, lenient):
    """Does the Entry/String `obj` carry source block `s`?  stripped_live: values have one enclosing layer removed;
    lenient: either form is accepted (failed blocks are not touched by the default stack)."""
    def val_ok(got, want):
        if lenient:
            return got in (want, strip_one(want))
        return got == (strip_one(want) if stripped_live else want)
    if s["t"] == "entry":
        return (type(obj) is Entry and obj.entry_type == s["type"] and obj.key == s["key"] and len(obj.fields) == len(s["fields"])
                and all(f.key == k and isinstance(f.value, str) and val_ok(f.value, v) for f, (k, v) in zip(obj.fields, s["fields"])))
    return type(obj) is String and obj.key == s["key"] and isinstance(obj.value, str) and val_ok(obj.value, s["value"])


def compare(lib, src, default_stack):
    exp, live_e, live_s = model(src)
    blocks = lib.blocks
    if len(blocks) != len(src):
        return {"what": "number of returned blocks differs from the number of source blocks", "expected": len(src),
                "observed": [len(blocks), [_show(b) for b in blocks][:8]]}
    for i, (b, s, e) in enumerate(zip(blocks, src, exp)):
        where = "block %d: " % i
        if e[0] == "other":
            if type(b) is not _KIND[s["t"]]:
                return {"what": where + "wrong class", "expected": s["t"], "observed": _show(b)}
        elif e[0] == "live":
            if not _same_block(b, s, default_stack, False):
                return {"what": where + "the first block with this key must be live and complete", "expected": s, "observed": _show(b)}
        elif e[0] == "dupkey":
            if type(b) is not DuplicateBlockKeyBlock:
                return {"what": where + "a later block with an already used key must be a DuplicateBlockKeyBlock at its own position",
                        "expected": ["DuplicateBlockKeyBlock", s["key"]], "observed": _show(b)}
            if b.key != s["key"]:
                return {"what": where + "DuplicateBlockKeyBlock.key", "expected": s["key"], "observed": b.key}
            if b.previous_block is not blocks[e[1]]:
                return {"what": where + "previous_block is not the first block with that key (block %d)" % e[1],
                        "expected": _show(blocks[e[1]]), "observed": _show(b.previous_block) if b.previous_block is not None else None}
            if not _same_block(b.ignore_error_block, s, default_stack, default_stack):
                return {"what": where + "ignore_error_block is not the complete duplicate", "expected": s, "observed": _show(b.ignore_error_block)}
        else:
            if type(b) is not DuplicateFieldKeyBlock:
                return {"what": where + "an entry repeating a field key must be a DuplicateFieldKeyBlock", "expected": ["DuplicateFieldKeyBlock", e[1]],
                        "observed": _show(b)}
            if not _same_block(b.ignore_error_block, s, default_stack, default_stack):
                return {"what": where + "the inner entry must keep every field occurrence in source order", "expected": s,
                        "observed": _show(b.ignore_error_block)}
            if sorted(b.duplicate_keys) != e[1]:
                return {"what": where + "duplicate_keys", "expected": e[1], "observed": sorted(b.duplicate_keys)}
    # the indexes: first wins; duplicate-field entries are not registered; entries and strings are separate namespaces
    for name, got, live in (("entries_dict", lib.entries_dict, live_e), ("strings_dict", lib.strings_dict, live_s)):
        if sorted(got) != sorted(live):
            return {"what": name + " keys", "expected": sorted(live), "observed": sorted(got)}
        for k, i in live.items():
            if got[k] is not blocks[i]:
                return {"what": "%s[%r] is not the first block with that key (block %d)" % (name, k, i), "expected": _show(blocks[i]), "observed": _show(got[k])}
    want_failed = [blocks[i] for i, e in enumerate(exp) if e[0] in ("dupkey", "dupfield")]
    got_failed = lib.failed_blocks
    if len(got_failed) != len(want_failed) or any(x is not y for x, y in zip(got_failed, want_failed)):
        return {"what": "failed_blocks", "expected": [_show(b) for b in want_failed], "observed": [_show(b) for b in got_failed]}
    for name, got, kind in (("entries", lib.entries, "entry"), ("strings", lib.strings, "string")):
        want = [blocks[i] for i, (e, s) in enumerate(zip(exp, src)) if e[0] == "live" and s["t"] == kind]
        if len(got) != len(want) or any(x is not y for x, y in zip(got, want)):
            return {"what": "library." + name, "expected": [_show(b) for b in want], "observed": [_show(b) for b in got]}
    return None


def check_duplicates(spec):
    d = spec["doc"]
    why = G.problems(d, distinct=False)
    if why:
        raise ValueError("spec is not a derivation of the dialect grammar: " + why)
    text = G.render(d)
    src = G.truth(d)
    key = "F4-brace-in-quotes" if G.has_f4_trigger(d) else None
    for default_stack in (False, True):
        api = "parse_string(text)" if default_stack else "parse_string(text, parse_stack=[])"
        try:
            lib = parse_string(text) if default_stack else parse_string(text, parse_stack=[])
        except Exception as ex:
            return {"what": api + " raised", "expected": "a library", "observed": repr(ex), "text": text, "finding_key": key}
        v = compare(lib, src, default_stack)
        if v:
            v["what"] = api + ": " + v["what"]
            v["text"] = text
            v["finding_key"] = key
            return v
    return None


CHECKS = {"C09.duplicates": check_duplicates}

POOL = ["a", "b", "c"]
SYMS = [("E", "a"), ("E", "b"), ("E", "c"), ("D", "a"), ("D", "b"), ("S", "a"), ("S", "b"), ("X", "")]
E_SHAPES = [[], ["a"], ["a", "b"], ["c", "a", "b"], ["b"], ["b", "c"]]
D_SHAPES = [["a", "a"], ["a", "b", "a"], ["b", "b", "b"], ["c", "a", "c", "a"], ["a", "b", "b"], ["a", "a", "b", "b"]]
TYPES = ["article", "Book", "MISC"]


def _tag_piece(i, j, r):
    tag = "v%d-%d" % (i, j)
    return [["brace", tag], ["quote", tag], ["num", str(100 + 10 * i + j)], ["brace", "{" + tag + "}"]][r % 4]


def _entry(i, key, fkeys, r):
    b = {"t": "entry", "type": TYPES[(i + r) % 3], "key": key}
    if i:
        b["lead"] = "\n"
    if fkeys:
        b["fields"] = [{"key": k, "e1": " ", "e2": " ", "pieces": [_tag_piece(i, j, r + j)], "wb": " "} for j, k in enumerate(fkeys)]
        if r % 2:
            b["fields"][-1]["comma"] = False
            del b["fields"][-1]["wb"]
    elif r % 3 == 0:
        b["comma"] = False
    return b


def doc_from_symbols(seq, r):
    d = []
    for i, (kind, key) in enumerate(seq):
        if kind == "E":
            d.append(_entry(i, key, E_SHAPES[(i + r) % 6], r + i))
        elif kind == "D":
            d.append(_entry(i, key, D_SHAPES[(i + r) % 6], r + i))
        elif kind == "S":
            b = {"t": "string", "key": key, "e1": " ", "e2": " ", "pieces": [_tag_piece(i, 9, r + i)]}
            if i:
                b["lead"] = "\n"
            d.append(b)
        else:
            b = [{"t": "ecomment", "text": "c%d" % i}, {"t": "icomment", "text": "free %d" % i}, {"t": "preamble", "text": "\"p%d\"" % i}][i % 3]
            if i:
                b["lead"] = "\n"
            d.append(b)
    return d


def _has_collision(d):
    ek = [b["key"] for b in d if b["t"] == "entry"]
    sk = [b["key"] for b in d if b["t"] == "string"]
    fk = any(len({f["key"] for f in b.get("fields", [])}) < len(b.get("fields", [])) for b in d if b["t"] == "entry")
    return len(set(ek)) < len(ek) or len(set(sk)) < len(sk) or fk


def random_doc(rng):
    pool = POOL if rng.random() < 0.8 else ["k", "K", "k:1"]
    d = []
    n = rng.randrange(1, 7)
    for i in range(n):
        r = rng.random()
        lead = G.rand_ws(rng, 0.3)
        if r < 0.6:
            b = {"t": "entry", "type": rng.choice(TYPES + ["a"]), "key": rng.choice(pool)}
            G._put(b, hs=G.rand_hs(rng), w0=G.rand_ws(rng), w1=G.rand_ws(rng))
            nf = rng.choice([0, 1, 2, 2, 3, 3, 4])
            if nf == 0 and rng.random() < 0.5:
                b["comma"] = False
            else:
                G._put(b, w2=G.rand_ws(rng))
                fields = []
                for j in range(nf):
                    f = G._put({"key": rng.choice(pool), "pieces": [_tag_piece(i, j, rng.randrange(4))]}, e1=G.rand_ws(rng), e2=G.rand_ws(rng), wa=G.rand_ws(rng))
                    if j == nf - 1 and rng.random() < 0.5:
                        f["comma"] = False
                    else:
                        G._put(f, wb=G.rand_ws(rng))
                    fields.append(f)
                if fields:
                    b["fields"] = fields
        elif r < 0.85:
            b = G._put({"t": "string", "key": rng.choice(pool), "pieces": [_tag_piece(i, 9, rng.randrange(4))]}, hs=G.rand_hs(rng), w0=G.rand_ws(rng),
                       e1=G.rand_ws(rng), e2=G.rand_ws(rng), w3=G.rand_ws(rng))
            if rng.random() < 0.3:
                b["kw"] = rng.choice(["String", "STRING"])
        else:
            kind = rng.choice(["ecomment", "icomment", "preamble"])
            if kind == "icomment" and d and d[-1]["t"] == "icomment":
                kind = "ecomment"
            b = {"t": kind, "text": "filler %d" % i}
        if lead:
            b["lead"] = lead
        d.append(b)
    return d


def generate(tier, rng):
    maxlen, nrand = (5, 4000) if tier == "quick" else (6, 60000)
    r = 0
    for n in range(0, maxlen + 1):
        for seq in itertools.product(SYMS, repeat=n):
            d = doc_from_symbols(seq, r)
            r += 1
            yield "C09.duplicates", {"doc": d}, _has_collision(d)
    for _ in range(nrand):
        d = random_doc(rng)
        yield "C09.duplicates", {"doc": d}, _has_collision(d)
