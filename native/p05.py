"""C05 bounded stand-in: parse -> write -> parse preserves content, and the written text is a fixpoint.

Inputs are derivations of the dialect grammar (native/grammar.py); the comparison is between the two parsed
libraries (content only: not raw / start_line / parser_metadata) and between the two written texts."""
import itertools

from bibtexparser import parse_string, write_string
from bibtexparser.model import Entry, ExplicitComment, ImplicitComment, ParsingFailedBlock, Preamble, String

from native import grammar as G
from native.common import format_from_spec

F4 = "F4-brace-in-quotes"

INDENTS = ["", " ", "\t", "    "]
COLUMNS = [0, 1, 5, 12, 40, "auto"]
COMMAS = [False, True]
SEPARATORS = ["\n", "\n\n", "\n\n\n", ""]      # the empty separator is an extra: every written block ends in a newline by itself
FORMATS = [{"indent": i, "value_column": c, "trailing_comma": t, "block_separator": s}
           for s, i, c, t in itertools.product(SEPARATORS, INDENTS, COLUMNS, COMMAS)]          # 144 + 48

RULE = ("derivations of the dialect grammar (grammar.py: entries, @string, @preamble, @comment, free-text comments between blocks; resolved and "
        "unresolved @string references, '#' concatenations, numeric values, nested braces, escaped delimiters, multi-line and CRLF values, any "
        "whitespace placement) with pairwise distinct entry/string/field keys (no duplicate-key blocks: 'well-formed' = the first parse has no "
        "failed block) x BibtexFormat in {indent '',' ','\\t',4 spaces} x {value_column 0,1,5,12,40,'auto'} x trailing_comma x "
        "{block_separator 1,2,3 newlines, plus the empty separator as an extra} (192 formats). Quoted values containing '\"' inside braces (defect family F4, owned by C02) are NOT generated here. "
        "Per case: lib1 = parse_string(text); out1 = write_string(lib1, F); lib2 = parse_string(out1); content(lib1) == content(lib2) "
        "(block classes, types, keys, field order and values, string/preamble/comment text); write_string(lib2, F) == out1 byte for byte. "
        "Full 192-format product on 8 fixed documents; one format per document (rotating through the product, resp. sampled) on the "
        "bounded-exhaustive derivations (smallest first) and on random derivations. distinct = distinct (derivation, format); "
        "non-trivial = document has at least one block.")
BOUND = {"quick": "8 fixed documents x 192 formats + all derivations of weighted token cost <= 6 without F4 values (one format each, rotating) "
                  "+ 6,000 random derivations (size 1..6) x 1 sampled format",
         "thorough": "8 fixed documents x 192 formats + all derivations of weighted token cost <= 7 without F4 values (one format each, rotating) "
                     "+ 60,000 random derivations (size 1..8) x 1 sampled format"}


def content(lib):
    out = []
    for b in lib.blocks:
        if isinstance(b, Entry):
            out.append(["entry", b.entry_type, b.key, [[f.key, f.value] for f in b.fields]])
        elif isinstance(b, String):
            out.append(["string", b.key, b.value])
        elif isinstance(b, Preamble):
            out.append(["preamble", b.value])
        elif isinstance(b, ExplicitComment):
            out.append(["ecomment", b.comment])
        elif isinstance(b, ImplicitComment):
            out.append(["icomment", b.comment])
        else:
            out.append(["failed:" + type(b).__name__, b.raw])
    return out


def check_roundtrip(spec):
    d = spec["doc"]
    why = G.problems(d)
    if why:
        raise ValueError("spec is not a derivation of the dialect grammar: " + why)
    text = G.render(d)
    key = F4 if G.has_f4_trigger(d) else None
    step = "parse_string(text)"
    try:
        lib1 = parse_string(text)
        if len(lib1.blocks) != len(d) or any(isinstance(b, ParsingFailedBlock) for b in lib1.blocks):
            return {"what": "first parse of a grammar-derived document is not well-formed (failed block or wrong block count; C02's claim)",
                    "expected": "%d blocks, none failed" % len(d), "observed": content(lib1), "text": text, "finding_key": key}
        c1 = content(lib1)
        step = "write_string(lib1, F)"
        out1 = write_string(lib1, bibtex_format=format_from_spec(spec["format"]))
        if content(lib1) != c1:
            return {"what": "write_string changed the library it was given", "expected": c1, "observed": content(lib1), "text": text, "finding_key": key}
        step = "parse_string(out1)"
        lib2 = parse_string(out1)
        c2 = content(lib2)
        step = "write_string(lib2, F)"
        out2 = write_string(lib2, bibtex_format=format_from_spec(spec["format"]))
    except Exception as ex:
        return {"what": step + " raised", "expected": "no exception", "observed": repr(ex), "text": text, "finding_key": key}
    if c1 != c2:
        i = next((i for i, (x, y) in enumerate(zip(c1, c2)) if x != y), min(len(c1), len(c2)))
        return {"what": "re-parsed library differs from the first one (first difference at block %d)" % i,
                "expected": c1[i] if i < len(c1) else "no block", "observed": c2[i] if i < len(c2) else "no block",
                "text": text, "written": out1, "finding_key": key}
    if out2 != out1:
        return {"what": "second write is not byte-identical to the first", "expected": out1, "observed": out2, "text": text, "finding_key": key}
    return None


CHECKS = {"C05.roundtrip": check_roundtrip}


def _e(key, fields, typ="article", **kw):
    b = {"t": "entry", "type": typ, "key": key, "lead": "\n", "w2": "\n  "}
    fl = []
    for k, pieces, *cws in fields:
        f = {"key": k, "e1": " ", "e2": " ", "pieces": pieces, "wb": "\n  "}
        if cws:
            f["cws"] = cws[0]
        fl.append(f)
    if fl:
        b["fields"] = fl
    b.update(kw)
    return b


FIXED = [
    [],
    [{"t": "icomment", "text": "% just a remark\nover two lines"}],
    # references (resolved / unresolved / defined later / case variant), concatenation, numbers, nesting, multi-line, comments between blocks
    [{"t": "string", "key": "jan", "e1": " ", "e2": " ", "pieces": [["quote", "January"]]},
     {"t": "icomment", "lead": "\n\n", "text": "free text between blocks, with {braces} and \"quotes\" = , ;"},
     _e("Knuth1984", [("title", [["brace", "The {\\TeX}book, {vol. {A}}"]]), ("month", [["ident", "jan"]]), ("note", [["ident", "later"]]),
                      ("publisher", [["ident", "undefined"]]), ("Month2", [["ident", "JAN"]]), ("year", [["num", "1984"]]),
                      ("pages", [["quote", "1"], ["ident", "jan"], ["brace", "3"]], [[" ", " "], ["", "\n"]]),
                      ("abstract", [["brace", "line one\n   line two\n\n\tline four "]])]),
     {"t": "ecomment", "lead": "\n", "kw": "Comment", "text": " an {explicit} comment, with = and \" "},
     {"t": "preamble", "lead": "\n", "kw": "PREAMBLE", "hs": " ", "text": " \"\\newcommand{\\x}{y}\" # jan "},
     {"t": "string", "lead": "\n", "kw": "String", "key": "later", "pieces": [["brace", "defined {after} use"]], "trail": "\n"}],
    # entries without fields, adjacent blocks, trailing comma variants
    [{"t": "entry", "type": "a", "key": "k", "comma": False}, {"t": "entry", "type": "B", "key": "k2"}, {"t": "icomment", "text": "x"},
     {"t": "entry", "type": "misc", "key": "k3", "fields": [{"key": "t", "pieces": [["brace", ""]], "comma": False}]},
     {"t": "entry", "type": "misc", "key": "k4", "fields": [{"key": "t", "pieces": [["quote", ""]]}, {"key": "averyveryverylongfieldkey", "pieces": [["num", "0"]]}]}],
    # CRLF everywhere
    [{"t": "string", "kw": "STRING", "hs": "\t", "w0": "\r\n", "key": "s", "e1": "\r\n", "e2": "\r\n", "pieces": [["quote", "a\r\nb"]], "w3": "\r\n", "trail": "\r\n"},
     {"t": "icomment", "text": "remark\r\nsecond line", "trail": "\r\n\r\n"},
     {"t": "entry", "type": "Book", "hs": " ", "w0": "\r\n", "key": "k", "w1": "\r\n", "w2": "\r\n", "trail": "\r\n",
      "fields": [{"key": "t", "e1": "\r\n", "e2": "\r\n", "pieces": [["ident", "s"]], "wa": "\r\n", "wb": "\r\n"},
                 {"key": "u", "pieces": [["brace", "x\r\ny"], ["ident", "s"]], "cws": [["\r\n", "\r\n"]], "wa": "\r\n", "comma": False}]}],
    # escaped delimiters, '@' inside values, marks inside braces and quotes
    [_e("esc", [("a", [["brace", "\\{ \\} \\\" \\& 50\\% a@b @ x, y = z # w"]]), ("b", [["quote", "say \\\"hi\\\" to {'}me{'} @home, a=b"]]),
                ("c", [["quote", "{nested {deep {deeper}}} tail"]]), ("d", [["brace", "{x}"], ["quote", "{y}"]], [[" ", " "]]),
                ("e", [["brace", "a"], ["brace", "b"]], [[" ", " "]]), ("f", [["quote", "a"], ["quote", "b"]], [[" ", " "]]),
                ("g", [["brace", " padded "]]), ("h", [["quote", " padded "]])])],
    # keys longer than every column, odd key characters, unicode
    [_e("a:b/c-d.e+f", [("averyveryverylongfieldkeyaveryveryverylongfieldkey", [["brace", "x"]]), ("é", [["brace", "é ü ß"]]), ("x-y", [["num", "007"]]),
                        ("k@l", [["ident", "a.b"]])], typ="In_Proc2"),
     {"t": "string", "lead": "\n", "key": "a.b", "pieces": [["num", "12"]]},
     {"t": "string", "lead": "\n", "key": "c", "pieces": [["ident", "a.b"], ["quote", "x"]], "cws": [[" ", " "]]}],
    # many small blocks of every kind
    [{"t": "preamble", "text": ""}, {"t": "ecomment", "text": ""}, {"t": "icomment", "text": "%"}, {"t": "preamble", "text": "{}"},
     {"t": "ecomment", "text": "{a}{b}"}, {"t": "icomment", "text": "}{"}, {"t": "string", "key": "z", "pieces": [["brace", ""]]},
     {"t": "icomment", "lead": " ", "text": "\""}, {"t": "entry", "type": "a", "key": "k", "comma": False}],
]


def _rand_format(rng):
    return {"indent": rng.choice(INDENTS), "value_column": rng.choice(COLUMNS), "trailing_comma": rng.choice(COMMAS), "block_separator": rng.choice(SEPARATORS)}


def generate(tier, rng):
    budget, nrand, maxsize = (6, 6000, 6) if tier == "quick" else (7, 60000, 8)
    for d in FIXED:
        if G.problems(d) or G.has_f4_trigger(d):
            raise ValueError("fixed document is not a legal derivation: %r" % G.problems(d))
    for d in sorted(FIXED, key=len):
        for f in FORMATS:
            yield "C05.roundtrip", {"doc": d, "format": f}, bool(d)
    for i, d in enumerate(G.enumerate_small(budget, allow_f4=False)):
        yield "C05.roundtrip", {"doc": d, "format": FORMATS[(i * 37) % len(FORMATS)]}, bool(d)
    for i in range(nrand):
        d = G.random_derivation(rng, 1 + (i * maxsize) // nrand, allow_f4=False)
        yield "C05.roundtrip", {"doc": d, "format": _rand_format(rng)}, bool(d)
