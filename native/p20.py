"""C20 bounded stand-in: the entry points apply exactly the requested middleware stack, in order.

Sections
  C20.parse       parse_string(text, parse_stack=S | append_middleware=A | nothing)
  C20.write       write_string(lib, unparse_stack=U | prepend_middleware=P | nothing, bibtex_format)
  C20.both        a full stack together with an addition raises ValueError (parse_string, parse_file, write_string, write_file)
  C20.parse_file  parse_file(path, encoding=e, stack arguments) == parse_string(decoded file content, same arguments)
  C20.write_file  write_file(path | file object, lib, parse_stack=, append_middleware=, bibtex_format=) writes the text of write_string
  C20.iterable    the stack arguments are typed Iterable: a tuple or a one-shot iterator means the same stack as the list
  C20.block       BlockMiddleware.transform splices None / empty / one block / collections of k blocks in place, TypeError otherwise

Reference (statement only): the composition is carried out by hand -- Splitter(text).split(), then every middleware of the
expected stack applied left to right (a *second*, freshly built set of instances), then writer.write for the writing side.  The
default parse stack is ResolveStringReferences, RemoveEnclosing (in that order); the default write stack is AddEnclosing('{',
no reuse, integers enclosed) in copy mode.  Probes make the order observable: a library probe appends a comment describing what
it sees (number of blocks, first field value), a block probe appends its tag to a `trace` field; both log their tag to a shared
list.  When the hand-made composition raises (a shipped middleware rejecting the value types), the entry point must raise the
same exception type.
"""
import io
import itertools
import locale
import os
import tempfile

import bibtexparser
from bibtexparser import middlewares as M
from bibtexparser import writer
from bibtexparser.library import Library
from bibtexparser.middlewares.middleware import BlockMiddleware, LibraryMiddleware
from bibtexparser.model import Block, Field, ImplicitComment
from bibtexparser.splitter import Splitter
from native.common import format_from_spec, library_from_spec, rand_library_spec, snapshot

DOCS = [
    "",
    "@article{k, title = {T}, year = 1990}",
    "@string{s = \"Some\"}\n@article{a, title = s, Month = jan, author = {A B and C D}}\n% c\n@comment{x}",
    "@article{d, a = {1}}\n@article{d, a = {2}}\n@book{x, t = {y}",
    "@article{é, title = {Café über}, note = \"ñ\"}",
    "@book{zh, title = {中文标题}, author = {王 小明}}\n% 注释",
    "@preamble{\"p\"}\n@misc{k1, B = {2}, a = {1}, month = 3}\n@misc{k2, year = \"2000\", a = {x}, a = {y}}\ntrailing",
]
ENCODINGS = [None, "utf-8", "latin-1", "gbk", "utf-16"]          # None: the default of parse_file (UTF-8)
ELEMENTS = [{"probe": "P1"}, {"probe": "P2"}, {"probe": "P3"}, {"bprobe": "B1"}, {"bprobe": "B2"},
            {"mw": "NormalizeFieldKeys"}, {"mw": "SortFieldsAlphabetically"}, {"mw": "MonthInt"}, {"mw": "RemoveEnclosing"},
            {"mw": "AddEnclosing"}, {"mw": "ResolveStringReferences"}, {"mw": "SeparateCoAuthors"}, {"mw": "SortBlocks"}]
FORMATS = [None,
           {"indent": "  ", "value_column": "auto", "block_separator": "\n", "trailing_comma": True, "parsing_failed_comment": "% CUSTOM {n}"},
           {"indent": "", "value_column": 7, "block_separator": "\n% sep\n", "trailing_comma": False, "parsing_failed_comment": None}]

RULE = ("stacks of 0..3 elements over 3 library probes, 2 block probes and 8 shipped middlewares, in each stack argument of "
        "parse_string / parse_file / write_string / write_file, x 7 documents (empty, plain, @string reference + comments, duplicate "
        "key + aborted block, latin-1 text, CJK text, preamble + duplicate field keys); libraries to write = the documents parsed with "
        "the default stack or split only; files are written as bytes in the stated encoding (documents the encoding can represent, "
        "newlines are \\n only); block protocol: one probe BlockMiddleware per (target block class, return mode) on a library holding "
        "all nine block classes and on random block-spec libraries; non-trivial = non-empty document and non-empty stack (block: "
        "the library holds a block of the target class); distinct = distinct spec")
BOUND = {"quick": "parse/write: all 183 stacks of length <= 2 x 7 documents x 2 argument positions + 8000 random stacks of length 3 per side; "
                  "both: 4 functions x 9 stack pairs; parse_file: every (document, encoding) pair x 3 argument forms x 6 stacks; "
                  "write_file: 7 documents x 2 targets x 3 argument forms x 3 formats x 4 stacks; iterable: 4 positions x 3 forms (tuple, iterator, generator) x 6 "
                  "stacks x 3 documents; block: 26 modes (among them falsy non-blocks False, 0, 0.0, objects with false __bool__ / zero __len__) x (each block kind alone, duplicate pairs, 9 target classes on the 11-block library) + 8000 random libraries",
         "thorough": "same with 60000 random stacks of length 3 per side and 60000 random block libraries"}


# ------------------------------------------------------------------------------------------------------------------ probes
class LibProbe(LibraryMiddleware):
    def __init__(self, tag, log):
        super().__init__(allow_inplace_modification=True)
        self.tag, self.log = tag, log

    def transform(self, library):
        self.log.append(self.tag)
        first = next((repr(f.value) for e in library.entries for f in e.fields), "-")
        library.add(ImplicitComment("probe %s sees %d blocks, first value %s" % (self.tag, len(library.blocks), first)))
        return library


class BlockProbe(BlockMiddleware):
    def __init__(self, tag, log):
        super().__init__(allow_inplace_modification=True, allow_parallel_execution=False)
        self.tag, self.log = tag, log

    def transform(self, library):
        self.log.append(self.tag)
        return super().transform(library)

    def transform_entry(self, entry, library):
        f = entry.get("trace")
        if f is None:
            entry.set_field(Field("trace", self.tag))
        else:
            f.value = str(f.value) + self.tag
        return entry


def build_stack(descs, log):
    out = []
    for d in descs:
        if "probe" in d:
            out.append(LibProbe(d["probe"], log))
        elif "bprobe" in d:
            out.append(BlockProbe(d["bprobe"], log))
        else:
            k = d["mw"]
            if k == "NormalizeFieldKeys":
                out.append(M.NormalizeFieldKeys())
            elif k == "SortFieldsAlphabetically":
                out.append(M.SortFieldsAlphabeticallyMiddleware())
            elif k == "MonthInt":
                out.append(M.MonthIntMiddleware())
            elif k == "RemoveEnclosing":
                out.append(M.RemoveEnclosingMiddleware())
            elif k == "AddEnclosing":
                out.append(M.AddEnclosingMiddleware(reuse_previous_enclosing=False, enclose_integers=True, default_enclosing='"'))
            elif k == "ResolveStringReferences":
                out.append(M.ResolveStringReferencesMiddleware())
            elif k == "SeparateCoAuthors":
                out.append(M.SeparateCoAuthors())
            elif k == "SortBlocks":
                out.append(M.SortBlocksByTypeAndKeyMiddleware())
            else:
                raise ValueError(k)
    return out


def tags(descs):
    return [d.get("probe") or d.get("bprobe") for d in descs if "mw" not in d]


def default_parse():
    return [M.ResolveStringReferencesMiddleware(), M.RemoveEnclosingMiddleware()]


def default_unparse():
    return [M.AddEnclosingMiddleware(reuse_previous_enclosing=False, enclose_integers=True, default_enclosing="{",
                                     allow_inplace_modification=False)]


def outcome(fn):
    try:
        return ("ok", fn())
    except Exception as e:
        return ("raised", type(e).__name__)


def short(o):
    if o[0] == "ok" and isinstance(o[1], list) and o[1] and o[1][0] == "Library":
        return ("ok", [(b[0], {k: v for k, v in b[1].items() if k in ("_key", "_fields", "_comment", "_value")}) for b in o[1][1][1:]])
    return o


# ---------------------------------------------------------------------------------------------------------- reference side
def ref_parse(text, arg, descs):
    """(outcome, expected probe log) of the hand-made composition."""
    log = []

    def run():
        lib = Splitter(text).split()
        stack = build_stack(descs, log) if arg == "stack" else default_parse() + (build_stack(descs, log) if arg == "append" else [])
        for m in stack:
            lib = m.transform(lib)
        return snapshot(lib)
    o = outcome(run)
    return o, (tags(descs) if arg in ("stack", "append") and o[0] == "ok" else None)


def parse_kwargs(arg, descs, log, form="list"):
    if arg == "none":
        return {}
    st = build_stack(descs, log)
    st = {"list": st, "tuple": tuple(st), "iter": iter(st), "gen": (m for m in st)}[form]
    return {"parse_stack": st} if arg == "stack" else {"append_middleware": st}


def build_library(ls):
    if "spec" in ls:
        return library_from_spec(ls["spec"])
    if ls["prep"] == "split":
        return Splitter(DOCS[ls["doc"]]).split()
    return bibtexparser.parse_string(DOCS[ls["doc"]])


def ref_write(ls, arg, descs, fmt_spec):
    log = []

    def run():
        lib = build_library(ls)
        stack = build_stack(descs, log) if arg == "stack" else (build_stack(descs, log) if arg == "prepend" else []) + default_unparse()
        for m in stack:
            lib = m.transform(lib)
        return writer.write(lib, format_from_spec(fmt_spec))
    o = outcome(run)
    return o, (tags(descs) if arg in ("stack", "prepend") and o[0] == "ok" else None)


def write_kwargs(arg, descs, log, fmt_spec, names=("unparse_stack", "prepend_middleware"), form="list"):
    kw = {}
    if fmt_spec is not None:
        kw["bibtex_format"] = format_from_spec(fmt_spec)
    if arg != "none":
        st = build_stack(descs, log)
        st = {"list": st, "tuple": tuple(st), "iter": iter(st), "gen": (m for m in st)}[form]
        kw[names[0] if arg == "stack" else names[1]] = st
    return kw


def compare(what, exp, exp_log, got, log):
    if got != exp:
        return {"what": what + ": result differs from the stated composition", "expected": short(exp), "observed": short(got)}
    if exp_log is not None and log != exp_log:
        return {"what": what + ": middlewares were not applied once each in the given order", "expected": exp_log, "observed": log}
    return None


# ------------------------------------------------------------------------------------------------------------------ checks
def check_parse(spec):
    text = DOCS[spec["doc"]]
    exp, exp_log = ref_parse(text, spec["arg"], spec["stack"])
    log = []
    got = outcome(lambda: snapshot(bibtexparser.parse_string(text, **parse_kwargs(spec["arg"], spec["stack"], log))))
    return compare("parse_string(%s)" % spec["arg"], exp, exp_log, got, log)


def check_write(spec):
    exp, exp_log = ref_write(spec["lib"], spec["arg"], spec["stack"], spec["format"])
    log = []
    lib = build_library(spec["lib"])
    got = outcome(lambda: bibtexparser.write_string(lib, **write_kwargs(spec["arg"], spec["stack"], log, spec["format"])))
    return compare("write_string(%s)" % spec["arg"], exp, exp_log, got, log)


def check_both(spec):
    log = []
    fn = spec["fn"]
    with tempfile.TemporaryDirectory() as tmp:
        path = os.path.join(tmp, "f.bib")
        if fn == "parse_string":
            call = lambda: bibtexparser.parse_string(DOCS[1], parse_stack=build_stack(spec["stack"], log), append_middleware=build_stack(spec["add"], log))
        elif fn == "parse_file":
            with open(path, "wb") as f:
                f.write(DOCS[1].encode("utf-8"))
            call = lambda: bibtexparser.parse_file(path, parse_stack=build_stack(spec["stack"], log), append_middleware=build_stack(spec["add"], log))
        elif fn == "write_string":
            call = lambda: bibtexparser.write_string(bibtexparser.parse_string(DOCS[1]), unparse_stack=build_stack(spec["stack"], log),
                                                     prepend_middleware=build_stack(spec["add"], log))
        else:
            target = path if spec.get("target", "path") == "path" else io.StringIO()
            call = lambda: bibtexparser.write_file(target, bibtexparser.parse_string(DOCS[1]), parse_stack=build_stack(spec["stack"], log),
                                                   append_middleware=build_stack(spec["add"], log))
        got = outcome(call)
    if got != ("raised", "ValueError"):
        return {"what": fn + " given both a full stack and an addition", "expected": "ValueError", "observed": got}
    if log:
        return {"what": fn + " applied middleware before rejecting the arguments", "expected": [], "observed": log}
    return None


def encodable(text, enc):
    try:
        text.encode(enc or "utf-8")
        return True
    except UnicodeError:
        return False


def check_parse_file(spec):
    text, enc = DOCS[spec["doc"]], spec["encoding"]
    raw = text.encode(enc or "utf-8")
    decoded = raw.decode(enc or "utf-8")          # the file's decoded content (utf-16: the BOM is not content)
    exp, exp_log = ref_parse(decoded, spec["arg"], spec["stack"])
    log2 = []
    via_string = outcome(lambda: snapshot(bibtexparser.parse_string(decoded, **parse_kwargs(spec["arg"], spec["stack"], log2))))
    log = []
    with tempfile.TemporaryDirectory() as tmp:
        path = os.path.join(tmp, "in.bib")
        with open(path, "wb") as f:
            f.write(raw)
        kw = parse_kwargs(spec["arg"], spec["stack"], log)
        if enc is not None:
            kw["encoding"] = enc
        got = outcome(lambda: snapshot(bibtexparser.parse_file(path, **kw)))
    if got != via_string:
        return {"what": "parse_file differs from parse_string of the decoded content", "expected": short(via_string), "observed": short(got)}
    return compare("parse_file(%s, encoding=%s)" % (spec["arg"], enc), exp, exp_log, got, log)


def check_write_file(spec):
    exp, exp_log = ref_write(spec["lib"], spec["arg"], spec["stack"], spec["format"])
    log2 = []
    lib2 = build_library(spec["lib"])
    via_string = outcome(lambda: bibtexparser.write_string(lib2, **write_kwargs(spec["arg"], spec["stack"], log2, spec["format"])))
    log = []
    lib = build_library(spec["lib"])
    kw = write_kwargs(spec["arg"], spec["stack"], log, spec["format"], names=("parse_stack", "append_middleware"))
    with tempfile.TemporaryDirectory() as tmp:
        if spec["target"] == "path":
            path = os.path.join(tmp, "out.bib")

            def run():
                r = bibtexparser.write_file(path, lib, **kw)
                if r is not None:
                    return ("returned", repr(r))
                with open(path, newline="") as f:
                    return f.read()
        else:
            buf = io.StringIO()

            def run():
                r = bibtexparser.write_file(buf, lib, **kw)
                if r is not None:
                    return ("returned", repr(r))
                return buf.getvalue()
        got = outcome(run)
    if got != via_string:
        return {"what": "write_file(%s) did not write exactly the text of write_string" % spec["target"], "expected": via_string, "observed": got}
    return compare("write_file(%s, %s)" % (spec["target"], spec["arg"]), exp, exp_log, got, log)


def check_iterable(spec):
    pos, form = spec["pos"], spec["form"]
    log = []
    if pos in ("parse_stack", "append_middleware"):
        arg = "stack" if pos == "parse_stack" else "append"
        exp, exp_log = ref_parse(DOCS[spec["doc"]], arg, spec["stack"])
        got = outcome(lambda: snapshot(bibtexparser.parse_string(DOCS[spec["doc"]], **parse_kwargs(arg, spec["stack"], log, form=form))))
    else:
        arg = "stack" if pos == "unparse_stack" else "prepend"
        ls = {"doc": spec["doc"], "prep": "parsed"}
        exp, exp_log = ref_write(ls, arg, spec["stack"], None)
        lib = build_library(ls)
        got = outcome(lambda: bibtexparser.write_string(lib, **write_kwargs(arg, spec["stack"], log, None, form=form)))
    v = compare("%s given as %s" % (pos, form), exp, exp_log, got, log)
    if v and form in ("iter", "gen") and pos in ("append_middleware", "prepend_middleware") and log == []:
        v["finding_key"] = "N2-oneshot-iterable-addition-dropped"
    return v


# ---- block protocol
BLOCK_CLASSES = ["Entry", "String", "Preamble", "ExplicitComment", "ImplicitComment", "ParsingFailedBlock", "DuplicateBlockKeyBlock",
                 "DuplicateFieldKeyBlock", "MiddlewareErrorBlock"]
ZERO_MODES = ["none", "empty_list", "empty_tuple", "empty_str"]
MODES = ZERO_MODES + ["same", "one_new", "list_1", "list_2", "list_3", "tuple_1", "tuple_2", "tuple_3",
                      "generator", "int", "object", "list_with_int", "tuple_with_none", "list_of_lists", "iterator",
                      "false", "true", "zero", "zero_float", "falsy_object", "zero_len_object", "str_x"]


class _Falsy:
    def __bool__(self):
        return False


class _ZeroLen:                                                   # sized but not a Collection (no __iter__ / __contains__)
    def __len__(self):
        return 0
ALL_KINDS = [
    {"t": "string", "key": "s", "value": "\"v\""}, {"t": "icomment", "comment": "free"},
    {"t": "entry", "type": "article", "key": "dup", "fields": [["a", "{1}"]]}, {"t": "preamble", "value": "p"},
    {"t": "entry", "type": "book", "key": "dup", "fields": [["b", "{2}"]]}, {"t": "ecomment", "comment": "c"},
    {"t": "failed", "raw": "@article{broken"},
    {"t": "dupfield", "dups": ["a"], "entry": {"t": "entry", "type": "misc", "key": "k", "fields": [["a", "{1}"], ["a", "{2}"]]}},
    {"t": "mwerror", "block": {"t": "entry", "type": "misc", "key": "k9", "fields": [["a", "{1}"]]}},
    {"t": "entry", "type": "misc", "key": "last", "fields": []}, {"t": "string", "key": "s", "value": "{again}"},
]


def fresh(pos, j):
    return ImplicitComment("new %d.%d" % (pos, j), start_line=100 * pos + j, raw="n")


def produce(mode, block, pos):
    """what the probe returns for a target block; (value, expected replacement blocks | TypeError)"""
    if mode == "none":
        return None, []
    if mode == "empty_list":
        return [], []
    if mode == "empty_tuple":
        return (), []
    if mode == "empty_str":
        return "", []
    if mode == "same":
        return block, [block]
    if mode == "one_new":
        b = fresh(pos, 0)
        return b, [b]
    if mode.startswith("list_") and mode[5:].isdigit() or mode.startswith("tuple_") and mode[6:].isdigit():
        k = int(mode.split("_")[1])
        bs = [block] + [fresh(pos, j) for j in range(1, k)]
        return (list(bs) if mode.startswith("list") else tuple(bs)), bs
    if mode == "generator":
        return (b for b in [block]), TypeError
    if mode == "iterator":
        return iter([block]), TypeError
    if mode == "int":
        return 5, TypeError
    if mode == "object":
        return object(), TypeError
    if mode in ("false", "true", "zero", "zero_float", "falsy_object", "zero_len_object", "str_x"):
        # falsy values that are neither None nor a collection are non-block results like any other
        return {"false": False, "true": True, "zero": 0, "zero_float": 0.0, "falsy_object": _Falsy(), "zero_len_object": _ZeroLen(),
                "str_x": "x"}[mode], TypeError
    if mode == "list_with_int":
        return [block, 5], TypeError
    if mode == "tuple_with_none":
        return (block, None), TypeError
    if mode == "list_of_lists":
        return [[block]], TypeError
    raise ValueError(mode)


class ProtocolProbe(BlockMiddleware):
    def __init__(self, target, mode):
        super().__init__(allow_inplace_modification=True, allow_parallel_execution=False)
        self.target, self.mode, self.pos, self.expected = target, mode, 0, []

    def transform_block(self, block, library):
        pos = self.pos
        self.pos += 1
        if type(block).__name__ != self.target:
            self.expected.append([block])
            return block
        value, exp = produce(self.mode, block, pos)
        self.expected.append(exp)
        return value


def check_block(spec):
    lib = library_from_spec(spec["library"])
    n = len(lib.blocks)
    has_target = any(type(b).__name__ == spec["target"] for b in lib.blocks)
    in_snaps = [snapshot(b) for b in lib.blocks]
    probe = ProtocolProbe(spec["target"], spec["mode"])
    try:
        out = probe.transform(lib)
        got = "ok"
    except TypeError:
        got = "TypeError"
    except Exception as e:
        got = repr(e)
    wants_error = has_target and produce(spec["mode"], lib.blocks[0] if n else None, 0)[1] is TypeError
    if wants_error:
        if got != "TypeError":
            return {"what": "a non-block result of transform_block was accepted", "expected": "TypeError", "observed": got}
        return None
    if got != "ok":
        return {"what": "transform raised on legal transform_block results", "expected": "a library", "observed": got}
    if probe.pos != n:
        return {"what": "transform_block was not called once per block", "expected": n, "observed": probe.pos}
    if not isinstance(out, Library):
        return {"what": "transform did not return a Library", "expected": "Library", "observed": type(out).__name__}
    exp = [snapshot(b) for repl in probe.expected for b in repl]
    obs = [snapshot(b) for b in out.blocks]
    if obs != exp:
        s = lambda ss: [(x[0], x[1].get("_key", x[1].get("_comment", ""))) for x in ss]
        return {"what": "per-block results were not spliced in place", "expected": s(exp), "observed": s(obs)}
    if [snapshot(b) for b in lib.blocks] != in_snaps:
        return {"what": "the probe returned blocks unchanged but the input blocks changed", "expected": "unchanged", "observed": "changed"}
    return None


CHECKS = {"C20.parse": check_parse, "C20.write": check_write, "C20.both": check_both, "C20.parse_file": check_parse_file,
          "C20.write_file": check_write_file, "C20.iterable": check_iterable, "C20.block": check_block}


# --------------------------------------------------------------------------------------------------------------- generation
SOME_STACKS = [[], [{"probe": "P1"}], [{"probe": "P1"}, {"probe": "P2"}], [{"probe": "P2"}, {"mw": "NormalizeFieldKeys"}, {"probe": "P1"}],
               [{"bprobe": "B1"}, {"mw": "SortFieldsAlphabetically"}, {"bprobe": "B2"}], [{"mw": "MonthInt"}, {"probe": "P3"}]]


def generate(tier, rng):
    quick = tier == "quick"
    nrand = 8000 if quick else 60000
    local_enc = locale.getpreferredencoding(False)
    stacks = [list(s) for n in range(3) for s in itertools.product(ELEMENTS, repeat=n)]
    # parse_string
    for d in range(len(DOCS)):
        yield "C20.parse", {"doc": d, "arg": "none", "stack": []}, d > 0
    for st in stacks:
        for d in range(len(DOCS)):
            for arg in ("stack", "append"):
                yield "C20.parse", {"doc": d, "arg": arg, "stack": st}, d > 0 and bool(st)
    # write_string
    for d in range(len(DOCS)):
        for prep in ("parsed", "split"):
            for f in FORMATS:
                yield "C20.write", {"lib": {"doc": d, "prep": prep}, "arg": "none", "stack": [], "format": f}, d > 0
    for i, st in enumerate(stacks):
        for d in range(len(DOCS)):
            for arg in ("stack", "prepend"):
                yield "C20.write", {"lib": {"doc": d, "prep": "parsed" if (i + d) % 3 else "split"}, "arg": arg, "stack": st,
                                    "format": FORMATS[(i + d) % 3]}, d > 0 and bool(st)
    # both
    for fn in ("parse_string", "parse_file", "write_string", "write_file"):
        for st, add in itertools.product(SOME_STACKS[:3], repeat=2):
            spec = {"fn": fn, "stack": st, "add": add}
            yield "C20.both", spec, True
            if fn == "write_file":
                yield "C20.both", dict(spec, target="fileobj"), True
    # parse_file
    for d in range(len(DOCS)):
        for enc in ENCODINGS:
            if not encodable(DOCS[d], enc):
                continue
            yield "C20.parse_file", {"doc": d, "encoding": enc, "arg": "none", "stack": []}, d > 0
            for st in SOME_STACKS:
                for arg in ("stack", "append"):
                    yield "C20.parse_file", {"doc": d, "encoding": enc, "arg": arg, "stack": st}, d > 0 and bool(st)
    # write_file
    for d in range(len(DOCS)):
        for target in ("path", "fileobj"):
            if target == "path" and not encodable(DOCS[d], local_enc):
                continue
            for f in FORMATS:
                yield "C20.write_file", {"lib": {"doc": d, "prep": "parsed"}, "target": target, "arg": "none", "stack": [], "format": f}, d > 0
                for st in SOME_STACKS[:4]:
                    for arg in ("stack", "prepend"):
                        yield "C20.write_file", {"lib": {"doc": d, "prep": "parsed"}, "target": target, "arg": arg, "stack": st, "format": f}, d > 0 and bool(st)
    # iterable forms
    for pos in ("parse_stack", "append_middleware", "unparse_stack", "prepend_middleware"):
        for form in ("tuple", "iter", "gen"):
            # (one-shot iterators in the addition arguments used to be consumed by the duplicate-type warning before use:
            #  N2, repaired in /repo; they are part of the input space since)
            for st in SOME_STACKS:
                for d in (1, 2, 6):
                    yield "C20.iterable", {"pos": pos, "form": form, "stack": st, "doc": d}, bool(st)
    # block protocol
    kind_class = {"entry": "Entry", "string": "String", "preamble": "Preamble", "ecomment": "ExplicitComment", "icomment": "ImplicitComment",
                  "failed": "ParsingFailedBlock", "dupfield": "DuplicateFieldKeyBlock", "mwerror": "MiddlewareErrorBlock"}
    for mode in MODES:
        yield "C20.block", {"library": [], "target": "Entry", "mode": mode}, False
    for b in ALL_KINDS[:9]:                      # one block of each kind alone, then a pair (second entry/string: duplicate wrapper)
        for mode in MODES:
            yield "C20.block", {"library": [b], "target": kind_class[b["t"]], "mode": mode}, True
            if b["t"] in ("entry", "string"):
                yield "C20.block", {"library": [b, b], "target": "DuplicateBlockKeyBlock", "mode": mode}, True
    for target in BLOCK_CLASSES:
        for mode in MODES:
            yield "C20.block", {"library": ALL_KINDS, "target": target, "mode": mode}, True
    for _ in range(nrand):
        lib = rand_library_spec(rng, maxblocks=6)
        target = rng.choice(BLOCK_CLASSES[:6]) if rng.random() < 0.8 else rng.choice(BLOCK_CLASSES)
        yield "C20.block", {"library": lib, "target": target, "mode": rng.choice(MODES)}, \
            any({"entry": "Entry", "string": "String", "preamble": "Preamble", "ecomment": "ExplicitComment", "icomment": "ImplicitComment",
                 "failed": "ParsingFailedBlock", "dupfield": "DuplicateFieldKeyBlock", "mwerror": "MiddlewareErrorBlock"}[b["t"]] == target for b in lib) \
            or target == "DuplicateBlockKeyBlock"
    # random stacks of length 3
    for _ in range(nrand):
        st = [rng.choice(ELEMENTS) for _ in range(3)]
        d = rng.randrange(1, len(DOCS))
        yield "C20.parse", {"doc": d, "arg": rng.choice(["stack", "append"]), "stack": st}, True
        yield "C20.write", {"lib": {"doc": d, "prep": rng.choice(["parsed", "split"])}, "arg": rng.choice(["stack", "prepend"]), "stack": st,
                            "format": rng.choice(FORMATS)}, True
