"""C03 bounded stand-in: block raw texts tile the source; start lines are the true 0-based lines.

Oracle (from the property statement only): walk the input left to right; each block's raw must be found at or after
the current position with nothing but whitespace skipped; after the last block only whitespace may remain.  The line of
an offset is the number of "\\n" before it.  A field's '=' is located inside the entry's raw by matching
`key <ws> = <ws> value` in field order (key and value are the stripped texts the block reports); the field line is
checked when key and '=' share a line.
"""
import random

import bibtexparser
from bibtexparser.model import (DuplicateBlockKeyBlock, DuplicateFieldKeyBlock, Entry, ParsingFailedBlock)
from bibtexparser.splitter import Splitter
from native import tokens

ALPHA_A = ["{", "}", "\"", ",", "=", "\n", "\\\n", "\r\n", "@a", "@comment", "@string", "x"]
ALPHA_B = ["{", "}", "\"", ",", "=", "\n", "\\", " ", "@a", "@string", "@preamble", "x"]

RULE = ("every token sequence (smallest first) over alphabet A = { } \" , = LF backslash-LF CRLF @a @comment @string x "
        "and over alphabet B = { } \" , = LF backslash space @a @string @preamble x (two blocks on a line arise as "
        "'@a{}@a{}'); plus random large documents assembled from valid blocks, broken blocks, free text, blank lines, "
        "lines ending in a backslash, CRLF endings and blocks sharing a line (runs of mark-free lines kept short so the "
        "C01 recursion defect is not what is measured).  Checked on parse_string(text, parse_stack=[]) and, for the "
        "random documents, also on Splitter(text).split().  A violation is labelled F3 only when a failed block that is not a "
        "duplicate-key/-field wrapper precedes the point where the tiling breaks, F2 only when the tiling holds and the "
        "reported line equals the true line minus the number of backslash-LF pairs before it.  In the thorough tier the "
        "texts of exactly 7 tokens are evaluated as batches (4-token prefix + every 3-token extension); a batch reports its "
        "first violating text, one without finding key before any other.  distinct = distinct text; non-trivial = the text has a "
        "non-whitespace character (at least one block must come out)")
BOUND = {"quick": "all sequences of <= 6 tokens over A (3,257,437) and <= 5 tokens over B (271,453); 200 random documents of 20..300 pieces (4 modes: valid only / + backslash-newline / + broken blocks / all)",
         "thorough": "all sequences of <= 7 tokens over A (39,089,245: <= 6 tokens one evaluation per text, the 35,831,808 texts of exactly 7 tokens as 20,736 batch "
                     "evaluations of 1,728 texts each) and <= 6 tokens over B (3,257,437); 2000 random documents of 20..1500 pieces (same 4 modes)"}

F2 = "F2-backslash-newline-line"
F3 = "F3-abort-boundary"


def _short(s, n=160):
    r = repr(s)
    return r if len(r) <= n else r[:n] + "...(%d chars)" % len(s)


def _plain_failed(b):
    return isinstance(b, ParsingFailedBlock) and not isinstance(b, (DuplicateBlockKeyBlock, DuplicateFieldKeyBlock))


def _tile(text, blocks):
    """-> (starts, None) or (None, (index_of_block_not_found | len(blocks) for the tail, position))"""
    pos, n, starts = 0, len(text), []
    for i, b in enumerate(blocks):
        raw = b.raw
        if not isinstance(raw, str):
            return None, (i, pos)
        q = pos
        while not text.startswith(raw, q):
            if q < n and text[q].isspace():
                q += 1
            else:
                return None, (i, pos)
        starts.append(q)
        pos = q + len(raw)
    if text[pos:].strip():
        return None, (len(blocks), pos)
    return starts, None


def _field_equals(raw, entry):
    """Offsets (inside raw) of the '=' of the fields, in field order, as (field, offset, key_and_equals_share_a_line).
    Stops at the first field that cannot be matched as `key <ws> = <ws> value` (then nothing is claimed about it)."""
    out = []
    n = len(raw)

    def ws(p):
        while p < n and raw[p].isspace():
            p += 1
        return p
    p = raw.find("{")
    if p < 0 or not isinstance(entry.key, str):
        return out
    p = ws(p + 1)
    if not raw.startswith(entry.key, p):
        return out
    p = ws(p + len(entry.key))
    if not raw.startswith(",", p):
        return out
    p += 1
    for f in entry.fields:
        if not isinstance(f.key, str) or not isinstance(f.value, str):
            break
        ks = ws(p)
        if not raw.startswith(f.key, ks):
            break
        eq = ws(ks + len(f.key))
        if not raw.startswith("=", eq):
            break
        out.append((f, eq, "\n" not in raw[ks:eq]))
        vs = ws(eq + 1)
        if not raw.startswith(f.value, vs):
            break
        p = ws(vs + len(f.value))
        if raw.startswith(",", p):
            p += 1
        else:
            break
    return out


def _verify(text, lib, full):
    """None if the library satisfies C03 on text, else a verdict: finding key or "?" (full=False) / violation dict."""
    blocks = lib.blocks
    starts, fail = _tile(text, blocks)
    if starts is None:
        i, pos = fail
        # a character lost/duplicated at a failed block's boundary is noticed at that boundary or (when the next raw
        # happens to match the lost character, e.g. '@a{,{{') later - never before the failed block
        key = F3 if any(_plain_failed(b) for b in blocks[:i + 1]) else None
        if not full:
            return key or "?"
        if i < len(blocks):
            what = "raw of block %d is not at/after offset %d with only whitespace skipped (a character was lost or duplicated)" % (i, pos)
            exp = "input continues with " + _short(text[pos:pos + 60])
            obs = "block %d raw %s; raws so far %s" % (i, _short(blocks[i].raw, 60), _short([b.raw for b in blocks[max(0, i - 2):i]], 120))
        else:
            what = "non-whitespace input after the last block's raw (offset %d) belongs to no block" % pos
            exp = "only whitespace after the last raw"
            obs = "remaining input " + _short(text[pos:pos + 60]) + "; last raws " + _short([b.raw for b in blocks[-2:]], 120)
        return {"what": what, "expected": exp, "observed": obs, "finding_key": key}
    for i, (b, q) in enumerate(zip(blocks, starts)):
        true = text.count("\n", 0, q)
        if b.start_line != true:
            key = F2 if b.start_line == true - text.count("\\\n", 0, q) and "\\\n" in text else None
            if not full:
                return key or "?"
            return {"what": "block %d (%s, raw %s) reports a start_line that is not the line its raw starts on" % (i, type(b).__name__, _short(b.raw, 40)),
                    "expected": true, "observed": b.start_line, "finding_key": key}
        e = b.ignore_error_block if isinstance(b, (DuplicateBlockKeyBlock, DuplicateFieldKeyBlock)) else b
        if isinstance(e, Entry) and e.fields and isinstance(e.raw, str) and text.startswith(e.raw, q):
            for f, eq, same_line in _field_equals(e.raw, e):
                if not same_line:
                    continue
                true = text.count("\n", 0, q + eq)
                if f.start_line != true:
                    key = F2 if f.start_line == true - text.count("\\\n", 0, q + eq) and "\\\n" in text else None
                    if not full:
                        return key or "?"
                    return {"what": "field %r of block %d reports a start_line that is not the line of its '='" % (f.key, i),
                            "expected": true, "observed": f.start_line, "finding_key": key}
    return None


def _raised(e, full):
    key = "F1-recursion-newlines" if isinstance(e, RecursionError) else None
    if not full:
        return key or "?"
    return {"what": "the call raised instead of returning blocks", "expected": "a Library", "observed": "%s: %s" % (type(e).__name__, _short(str(e), 80)),
            "finding_key": key}


def _eval(text, full=True):
    try:
        lib = bibtexparser.parse_string(text, parse_stack=[])
    except Exception as e:
        return _raised(e, full)
    return _verify(text, lib, full)


def _eval_fast(text):
    return _eval(text, False)


# ---- checks -------------------------------------------------------------------------------------------------------
_PRE = None          # (text, verdict) computed by the pool for the spec about to be checked
_SHOWN = {}          # finding key -> number of full violation dicts already built in this process


def check_tiling(spec):
    """spec: the input text itself."""
    global _PRE
    pre, _PRE = _PRE, None
    if pre is not None and pre[0] == spec:
        verdict = pre[1]
        if verdict is None:
            return None
        if verdict != "?" and _SHOWN.get(verdict, 0) >= 3:
            return {"what": "same family as the first violations reported (replay this input for the details)", "finding_key": verdict}
        _SHOWN[verdict] = _SHOWN.get(verdict, 0) + 1
    return _eval(spec, True)


_PRE_BATCH = None    # (prefix, [(index, verdict), ...]) computed by the pool for the batch about to be checked
ALPHAS = {"A": ALPHA_A, "B": ALPHA_B}


def check_tiling_batch(spec):
    """spec: {"alphabet": "A"|"B", "prefix": text, "k": int} = every text prefix + (k tokens of that alphabet).
    Reports the first text of the batch that violates C03, an unexplained one (no finding key) before any other."""
    global _PRE_BATCH
    pre, _PRE_BATCH = _PRE_BATCH, None
    alpha = ALPHAS[spec["alphabet"]]
    if pre is not None and pre[0] == spec["prefix"]:
        found = pre[1]
    else:
        found = [(i, r) for i, r in enumerate(map(_eval_fast, tokens.batch_texts(alpha, spec["k"], spec["prefix"]))) if r is not None]
    if not found:
        return None
    i, verdict = next(((i, r) for i, r in found if r == "?"), found[0])
    if verdict != "?" and _SHOWN.get("batch:" + verdict, 0) >= 3:
        return {"what": "same family as the first violations reported (replay this batch for the details)", "finding_key": verdict}
    _SHOWN["batch:" + verdict] = _SHOWN.get("batch:" + verdict, 0) + 1
    text = tokens.batch_texts(alpha, spec["k"], spec["prefix"])[i]
    v = _eval(text, True)
    if v is None:
        raise RuntimeError("verdict for %r is not reproducible" % text)
    v["what"] = "text %r (%d of %d texts of the batch violate): %s" % (text, len(found), len(alpha) ** spec["k"], v["what"])
    return v


# random large documents ------------------------------------------------------------------------------------------------
_VALID = [
    "@article{%s,\n  title = {A {nested} title},\n  year = 1990,\n  author = \"Q, A and B\"\n}",
    "@book{%s, title = {One line}, note = \"q # {x}\" # jan}",
    "@misc{%s}",
    "@misc{%s,}",
    "@inproceedings{%s,\n  title\n    = {key and equals on different lines},\n  pages = {1--2},\n}",
    "@string{s%s = \"a string\"}",
    "@string{t%s = {braced {x}}}",
    "@preamble{\"pre\" # amble}",
    "@comment{an explicit {nested} comment\nover two lines}",
    "@ARTICLE {%s, a = b, a = c}",
]
_BROKEN = [
    "@article{%s, b c, d = e}", "@article{%s,\n  title = {x\n y", "@comment{", "@article{", "@article{%s", "@string{x y}", "@string{",
    "@preamble{{", "}", "{", "\"", ",", "=", "@book{%s, t = \"open", "@book{%s, t = {x}} }", "@a{%s, t = {x} y = {z}}", "@a{%s,, }", "@a {%s = 1}",
    "@misc%s", "@", "@{}", "@{%s,}",
]
_TEXT = ["free text", "% a comment line", "text with, marks = \"in\" {it}", "escaped \\{ brace \\} and \\\" quote", "unicode éü x",
         "tab\tseparated", "@ alone", "e-mail a@b.c", "line ending in a backslash \\", "two \\\\"]
MODES = {"valid": (False, False), "backslash": (True, False), "broken": (False, True), "all": (True, True)}


def make_document(seed, pieces, mode="all"):
    """mode: which ingredients are allowed - lines ending in a backslash / broken blocks (see MODES)."""
    backslash, broken = MODES[mode]
    texts = _TEXT if backslash else _TEXT[:-2]
    r = random.Random(seed)
    crlf = r.random() < 0.25
    out = []
    plain_run = 0
    for _ in range(pieces):
        k = r.random()
        if plain_run >= 40:
            k = 0.0          # force a piece with marks: keeps runs of mark-free lines far below the recursion limit
        if k < 0.45:
            s = r.choice(_VALID)
            plain_run = 0
        elif k < 0.65 and broken:
            s = r.choice(_BROKEN)
            plain_run = 0
        elif k < 0.85:
            s = r.choice(texts)
            plain_run += 1
        else:
            s = ""
            plain_run += 1
        if "%s" in s:
            s = s % r.choice(["k", "k%d" % r.randrange(30), "a:b", ""])
        sep = r.random()
        if sep < 0.12:
            s += r.choice(["", " ", "\t"])            # next piece shares the line
        elif sep < 0.2 and backslash:
            s += "\\\n"                                # backslash-newline
        elif sep < 0.3:
            s += "\n" * r.randrange(2, 5)
            plain_run += 4
        else:
            s += "\n"
        out.append(s)
    text = "".join(out)
    if crlf:
        text = text.replace("\n", "\r\n").replace("\\\r\n", "\\\n")
    return text


def check_document(spec):
    """spec: {"doc_seed": int, "pieces": int, "mode": str} -> make_document; both entry points must satisfy C03."""
    text = make_document(spec["doc_seed"], spec["pieces"], spec["mode"])
    v = _eval(text, True)
    if v:
        return v
    try:
        lib = Splitter(text).split()
    except Exception as e:
        return _raised(e, True)
    v = _verify(text, lib, True)
    if v:
        v["what"] = "Splitter(text).split(): " + v["what"]
    return v


CHECKS = {"C03.tiling": check_tiling, "C03.tiling_batch": check_tiling_batch, "C03.document": check_document}


def generate(tier, rng):
    global _PRE
    global _PRE_BATCH
    la, lb = (6, 5) if tier == "quick" else (6, 6)
    # smallest first: both alphabets level by level would interleave pools; A then B keeps each stream ordered by length
    for text, verdict in tokens.scan(_eval_fast, ALPHA_A, la):
        _PRE = (text, verdict)
        yield "C03.tiling", text, bool(text.strip())
    for text, verdict in tokens.scan(_eval_fast, ALPHA_B, lb):
        _PRE = (text, verdict)
        yield "C03.tiling", text, bool(text.strip())
    if tier != "quick":
        # the 12**7 level: one evaluation per batch of 12**3 texts (keeps the driver's per-evaluation bookkeeping small)
        for prefix, found in tokens.scan_batches(_eval_fast, ALPHA_A, 7, 3):
            _PRE_BATCH = (prefix, found)
            yield "C03.tiling_batch", {"alphabet": "A", "prefix": prefix, "k": 3}, True
    ndocs, maxp = (200, 300) if tier == "quick" else (2000, 1500)
    for i in range(ndocs):
        pieces = 20 + (maxp - 20) * i // max(1, ndocs - 1)
        yield "C03.document", {"doc_seed": rng.randrange(1 << 30), "pieces": pieces, "mode": list(MODES)[i % 4]}, True


def known_witnesses():
    """Do the hand-confirmed witnesses still violate C03 with their key?  (False = stale: the defect was repaired)"""
    out = {}
    for key, text in ((F2, "x\\\n@a{k,}"), (F3, "@article{a, b c, d = e}"), (F3, "@comment{@a{"), (F3, "@article{@book{b,}"),
                      (F3, "@article{a,\n t = {x\n y@book{b,}")):
        v = _eval(text, True)
        out[key] = out.get(key, False) or (bool(v) and v.get("finding_key") == key)
    return out
