"""Bounded stand-in layer (runs under /venv/bin/python against the real package in /repo).
Usage: run.py Cxx --tier quick|thorough --seed N [--replay FILE]   -> last stdout line is a JSON result.
Everything here is labelled *bounded*: it never raises the level claimed for a property."""
import argparse
import importlib
import json
import os
import random
import sys
import time
import traceback

HERE = os.path.dirname(os.path.abspath(__file__))
sys.path.insert(0, os.path.dirname(HERE))
import logging
logging.disable(logging.CRITICAL)
import warnings
warnings.simplefilter("ignore")


def main():
    ap = argparse.ArgumentParser()
    ap.add_argument("pid")
    ap.add_argument("--tier", default="quick")
    ap.add_argument("--seed", type=int, default=0)
    ap.add_argument("--replay")
    a = ap.parse_args()
    try:
        # "A-RE" etc.: bounded validation modules of assumed contracts share the interface of the property modules
        mod = importlib.import_module("native." + ("a_re" if a.pid == "A-RE" else "p" + a.pid[1:]))
    except ModuleNotFoundError:
        if not a.replay:
            raise
        mod = None
    out = {"rule": getattr(mod, "RULE", ""), "bound": getattr(mod, "BOUND", {}).get(a.tier, ""), "evaluations": 0, "distinct_nontrivial": 0,
           "violations": [], "samples": [], "exhaustive": getattr(mod, "EXHAUSTIVE", False), "sections": {}, "stale_known": []}
    if a.replay and json.load(open(a.replay)).get("kind") == "obligation":
        from native import contract_replay
        d = json.load(open(a.replay))
        viols, notes = contract_replay.replay(d)
        out["evaluations"] = 1
        out["violations"] = viols
        out["notes"] = notes
        print(json.dumps(out, default=str))
        return
    if a.replay:
        d = json.load(open(a.replay))
        fn = mod.CHECKS[d["check"]]
        v = fn(d["input"])
        out["evaluations"] = 1
        if v:
            v["check"] = d["check"]
            v["input"] = d["input"]
            out["violations"].append(v)
        print(json.dumps(out, default=str))
        return
    rng = random.Random(a.seed)
    seen = set()
    t0 = time.time()
    per_check_viol = {}
    # A change under test can make every call slower and slower (e.g. state that accumulates between calls): the run has a
    # wall-clock budget, after which generation stops (recorded as `truncated`), and a single case that does not return
    # within CASE_LIMIT seconds is a checker error (exit != 0), never a silent hang.
    budget = float(os.environ.get("VERIF_NATIVE_BUDGET", "240" if a.tier == "quick" else "2400"))
    case_limit = int(os.environ.get("VERIF_NATIVE_CASE_LIMIT", "120"))
    import signal

    class CaseTimeout(Exception):
        pass

    def _alarm(signum, frame):
        raise CaseTimeout()
    signal.signal(signal.SIGALRM, _alarm)
    for check, spec, nontrivial in mod.generate(a.tier, rng):
        if time.time() - t0 > budget:
            out["truncated"] = f"wall-clock budget of {budget:.0f} s reached after {out['evaluations']} evaluations"
            break
        out["evaluations"] += 1
        sec = out["sections"].setdefault(check, {"evaluations": 0, "distinct_nontrivial": 0, "violations": 0})
        sec["evaluations"] += 1
        key = (check, json.dumps(spec, sort_keys=True, default=str))
        if key not in seen:
            seen.add(key)
            if nontrivial:
                out["distinct_nontrivial"] += 1
                sec["distinct_nontrivial"] += 1
        if len(out["samples"]) < 6 and nontrivial and (out["evaluations"] % 97 == 1 or out["evaluations"] < 3):
            out["samples"].append({"check": check, "input": spec})
        try:
            signal.alarm(case_limit)
            try:
                v = mod.CHECKS[check](spec)
            finally:
                signal.alarm(0)
        except CaseTimeout:
            v = {"what": f"the case did not finish within {case_limit} s (the library call hangs or has become pathologically slow)",
                 "expected": "a result", "observed": "timeout", "finding_key": None}
        except Exception as e:   # an exception inside the oracle is a checker error, not a verdict
            print(traceback.format_exc(), file=sys.stderr)
            raise
        if v:
            sec["violations"] += 1
            n = per_check_viol.get((check, v.get("finding_key")), 0)
            per_check_viol[(check, v.get("finding_key"))] = n + 1
            if n < 3:     # keep the first few (smallest first by construction of the generators)
                v["check"] = check
                v["input"] = spec
                out["violations"].append(v)
    if hasattr(mod, "known_witnesses"):
        for key, ok in mod.known_witnesses().items():
            if not ok:
                out["stale_known"].append(key)
    out["wall_s"] = round(time.time() - t0, 2)
    print(json.dumps(out, default=str))


if __name__ == "__main__":
    main()
