"""C08 bounded stand-in: Library views under add / remove / replace histories, against a reference model
(a plain list of held items + two key dicts) written from the property statement.

spec = {"ops": [op, ...]} over the fixed universe U_SPEC (indices), op is one of
    ["add", i]                 lib.add(U[i])
    ["add_fail", i]            lib.add(U[i], fail_on_duplicate_key=True)
    ["add_list", [i, ...]]     lib.add([U[i], ...])
    ["add_list_fail", [i,...]] lib.add([...], fail_on_duplicate_key=True)
    ["remove", ref]            lib.remove(X)
    ["remove_list", [ref,...]] lib.remove([X, ...])
    ["replace", ref, i, fail]  lib.replace(X, U[i], fail_on_duplicate_key=fail)
ref is an index i (the universe block U[i]) or ["w", n]: the (n mod number-of-wrappers-created-so-far)-th duplicate
wrapper the library created in this history (held or not); when no wrapper exists yet the op is skipped.
A spec may carry its own "universe" (list of common.block_from_spec specs) - default U_SPEC.

Twins.  Two universe specs that are equal build two distinct objects that are `==` (Block.__eq__ is structural): U[9] is a
twin of the entry U[0], U[10] a twin of the string U[3].  remove / replace locate their argument with list.remove /
list.index, i.e. by `==`, so the reference model resolves an argument to the FIRST held block of the argument's *equality
class* (a duplicate wrapper is only ever equal to itself: it carries an Exception, compared by identity); the block taken
out - and the index entry dropped - is that held block, not the argument; an argument whose class is not held -> ValueError.
Ruling: a failing replace(old, new, fail_on_duplicate_key=True) whose `old` is an equal copy of the held block may leave
the *copy* held in place of the original (the rollback re-inserts its argument): the library is then still equal (==,
blockwise and keywise) to what it was, which is what the statement requires of a raising call - accepted, the model follows."""
import itertools

from bibtexparser.library import Library
from bibtexparser.model import (DuplicateBlockKeyBlock, Entry, ExplicitComment, ImplicitComment, ParsingFailedBlock,
                                Preamble, String)
from native.common import block_from_spec

RULE = ("histories of add (single / list / fail_on_duplicate_key), remove (single / list) and replace (both fail modes) over a fixed "
        "universe of 11 blocks with colliding keys (entries k,k,j; strings k,k,j; preamble; comment; failed block; a twin of the first entry and "
        "of the first string: distinct objects that are == to their original, used as add / remove / replace-old arguments), including "
        "re-adding held blocks, removing/replacing blocks not held and addressing the duplicate wrappers the library created; "
        "after EVERY call all views are compared (by identity) with a list+2-dict reference model in which remove/replace act on the first "
        "held block == to the argument; "
        "non-trivial = at least one call changes the reference model; distinct = distinct op list")
BOUND = {"quick": "all histories of depth <= 3 over a 37-op alphabet (7 blocks + 2 twins, 6 twin ops) + all of depth <= 2 over a 72-op alphabet (16 twin ops) + 2000 random histories of depth 1..30 over the full op set (twins in ~1/4 of the remove/replace arguments)",
         "thorough": "all histories of depth <= 4 over the 37-op alphabet + all of depth <= 3 over the 72-op alphabet + 30000 random histories of depth 1..30"}

U_SPEC = [
    {"t": "entry", "type": "article", "key": "k", "fields": [["title", "{A}"]], "line": 1, "raw": "@article{k, title = {A}}"},    # 0
    {"t": "entry", "type": "book", "key": "k", "fields": [["title", "{B}"], ["year", "1990"]], "line": 5, "raw": "@book{k, ...}"},  # 1
    {"t": "entry", "type": "misc", "key": "j", "fields": [], "line": 9, "raw": "@misc{j,}"},                                        # 2
    {"t": "string", "key": "k", "value": "\"one\"", "line": 11, "raw": "@string{k = \"one\"}"},                                     # 3
    {"t": "string", "key": "k", "value": "\"two\"", "line": 12, "raw": "@string{k = \"two\"}"},                                     # 4
    {"t": "string", "key": "j", "value": "\"three\"", "line": 13, "raw": "@string{j = \"three\"}"},                                 # 5
    {"t": "preamble", "value": "\"pre\"", "line": 14, "raw": "@preamble{\"pre\"}"},                                                 # 6
    {"t": "ecomment", "comment": "note", "line": 15, "raw": "@comment{note}"},                                                      # 7
    {"t": "failed", "raw": "@article{broken", "line": 16},                                                                          # 8
]
U_SPEC.append(dict(U_SPEC[0]))      # 9 : twin of entry 0   (U[9] == U[0], U[9] is not U[0])
U_SPEC.append(dict(U_SPEC[3]))      # 10: twin of string 3
TWINS = [(0, 9), (3, 10)]
_ERR_TYPES = ("failed", "dupfield", "mwerror")      # carry an Exception object (compared by identity): == only to themselves


def _classes(specs):
    """equality class of every universe block, from the specs alone: index of the first structurally equal spec."""
    cls = []
    for i, s in enumerate(specs):
        c = i
        if s["t"] not in _ERR_TYPES:
            for j in range(i):
                if cls[j] == j and specs[j] == s:
                    c = j
                    break
        cls.append(c)
    return cls


_CLS = _classes(U_SPEC)
assert _CLS == [0, 1, 2, 3, 4, 5, 6, 7, 8, 0, 3]


def _kind(b):
    if isinstance(b, ParsingFailedBlock):
        return "F"
    if isinstance(b, Entry):
        return "E"
    if isinstance(b, String):
        return "S"
    if isinstance(b, Preamble):
        return "P"
    if isinstance(b, (ExplicitComment, ImplicitComment)):
        return "C"
    raise ValueError(type(b))


# ------------------------------------------------------------------ the reference model (property statement only)
class Model:
    """held: list of items ("b", i) = universe block i held as itself | ("w", wid) = a duplicate wrapper;
    ed / sd: key -> universe index of the live entry / string; wr[wid] = (duplicate index, live index at creation);
    cls[i] = equality class of universe block i (twins share one)."""
    __slots__ = ("held", "ed", "sd", "wr", "kinds", "keys", "cls")

    def __init__(self, kinds, keys, cls):
        self.held, self.ed, self.sd, self.wr, self.kinds, self.keys, self.cls = [], {}, {}, [], kinds, keys, cls

    def copy(self):
        m = Model(self.kinds, self.keys, self.cls)
        m.held, m.ed, m.sd, m.wr = list(self.held), dict(self.ed), dict(self.sd), list(self.wr)
        return m

    def _index(self, i):
        k = self.kinds[i]
        return self.ed if k == "E" else self.sd if k == "S" else None

    def _append(self, i):
        """key-safe insertion: returns the item that becomes held for universe block i, and whether it is a duplicate."""
        d = self._index(i)
        if d is None:
            return ("b", i), False
        key = self.keys[i]
        if key in d:
            self.wr.append((i, d[key]))
            return ("w", len(self.wr) - 1), True
        d[key] = i
        return ("b", i), False

    def _find(self, arg):
        """position of the FIRST held item that list.remove / list.index match for this argument (== semantics), or None."""
        if arg[0] == "w":                           # a wrapper is equal to itself only
            return self.held.index(arg) if arg in self.held else None
        c = self.cls[arg[1]]
        for p, h in enumerate(self.held):
            if h[0] == "b" and self.cls[h[1]] == c:
                return p
        return None

    def _drop(self, p):
        item = self.held.pop(p)
        if item[0] == "b":
            d = self._index(item[1])
            if d is not None:
                assert d[self.keys[item[1]]] == item[1], "oracle invariant: a keyed block held as itself is the live one"
                del d[self.keys[item[1]]]

    # each op returns (raises, reason, state_after, alt) - self is never modified.
    # alt = (finding_key, state) : the state a *recognised defect family* would leave instead (computed here, from the model).
    def add(self, idxs, fail):
        st = self.copy()
        anydup = False
        for i in idxs:
            item, dup = st._append(i)
            st.held.append(item)
            anydup = anydup or dup
        if fail and anydup:
            return True, "dup", self, ("K1-add-fail-after-mutation", st)
        return False, None, st, None

    def remove(self, items, is_list):
        st = self.copy()
        for n, it in enumerate(items):
            p = st._find(it)
            if p is None:
                alt = ("F11a-remove-partial", st) if (is_list and n > 0) else None
                return True, "missing", self, alt
            st._drop(p)
        return False, None, st, None

    def replace(self, old, new, fail):
        p = self._find(old)
        if p is None:
            return True, "missing", self, None
        h = self.held[p]                            # the held block that is taken out (== old, not necessarily old itself)
        d = self._index(new)
        dup = False
        if d is not None:
            live = d.get(self.keys[new])
            dup = live is not None and ("b", live) != h         # "a block with new_block.key (other than old_block) already exists"
        if dup and fail:
            return True, "dup", self, None
        st = self.copy()
        st._drop(p)
        item, isdup = st._append(new)
        assert isdup == dup
        st.held.insert(p, item)
        return False, None, st, None

    def swapped(self, old):
        """(state, held index, argument index) in which the held block matched by `old` is exchanged for the equal copy `old`
        (see the ruling in the module docstring); None when the held block is the argument itself."""
        p = self._find(old)
        if p is None or old[0] != "b" or self.held[p] == old:
            return None
        h = self.held[p]
        st = self.copy()
        st._drop(p)
        item, isdup = st._append(old[1])
        assert not isdup
        st.held.insert(p, item)
        return st, h[1], old[1]


# ------------------------------------------------------------------ comparing the real library with a model state
def _same(a, b):
    return len(a) == len(b) and all(x is y for x, y in zip(a, b))


_NAMES = {}      # id(universe block) -> "U<i>" of the history being checked (reporting only: twins print alike otherwise)


def _r(objs):
    return [getattr(o, "key", "") + ":" + type(o).__name__ + "@" + str(o.start_line) + ("#" + _NAMES[id(o)] if id(o) in _NAMES else "") for o in objs]


def compare(m, lib, U, wobj, order_free):
    """-> (mismatch | None, strings_order_bad, new_bindings).  mismatch = (what, expected, observed)."""
    blocks = lib.blocks
    newb = {}
    exp_blocks = []
    if len(blocks) != len(m.held):
        return ("blocks: number of held blocks", [str(x) for x in m.held], _r(blocks)), False, newb
    for p, it in enumerate(m.held):
        b = blocks[p]
        if it[0] == "b":
            if b is not U[it[1]]:
                return ("blocks[%d] is not the expected block (insertion order, replace keeps the position)" % p, [str(x) for x in m.held], _r(blocks)), False, newb
        else:
            wid = it[1]
            w = wobj.get(wid, newb.get(wid))
            dup, prev = m.wr[wid]
            if w is None:
                if type(b) is not DuplicateBlockKeyBlock:
                    return ("blocks[%d] should be a DuplicateBlockKeyBlock wrapper" % p, [str(x) for x in m.held], _r(blocks)), False, newb
                newb[wid] = w = b
            elif b is not w:
                return ("blocks[%d] is not the wrapper created earlier" % p, [str(x) for x in m.held], _r(blocks)), False, newb
            if w.ignore_error_block is not U[dup] or w.previous_block is not U[prev] or w.key != m.keys[dup]:
                return ("wrapper at blocks[%d]: ignore_error_block must be the duplicate, previous_block the live block" % p,
                        [dup, prev, m.keys[dup]], _r([w.ignore_error_block, w.previous_block]) + [w.key]), False, newb
        exp_blocks.append(b)
    kinds = m.kinds
    exp = {"E": [], "S": [], "P": [], "C": [], "F": []}
    for it, b in zip(m.held, exp_blocks):
        exp[kinds[it[1]] if it[0] == "b" else "F"].append(b)
    entries, strings, pre, com, failed = lib.entries, lib.strings, lib.preambles, lib.comments, lib.failed_blocks
    if not _same(entries, exp["E"]):
        return ("entries != the Entry blocks in block order", _r(exp["E"]), _r(entries)), False, newb
    if not _same(pre, exp["P"]):
        return ("preambles view", _r(exp["P"]), _r(pre)), False, newb
    if not _same(com, exp["C"]):
        return ("comments view", _r(exp["C"]), _r(com)), False, newb
    if not _same(failed, exp["F"]):
        return ("failed_blocks view", _r(exp["F"]), _r(failed)), False, newb
    ed, sd = lib.entries_dict, lib.strings_dict
    if type(ed) is not dict or len(ed) != len(m.ed) or not all(ed.get(k) is U[i] for k, i in m.ed.items()):
        return ("entries_dict != {key: held entry}", {k: i for k, i in m.ed.items()}, {k: _r([v]) for k, v in ed.items()}), False, newb
    if type(sd) is not dict or len(sd) != len(m.sd) or not all(sd.get(k) is U[i] for k, i in m.sd.items()):
        return ("strings_dict != {key: held string}", {k: i for k, i in m.sd.items()}, {k: _r([v]) for k, v in sd.items()}), False, newb
    if len({e.key for e in entries}) != len(entries):
        return ("two held entries share a key", None, _r(entries)), False, newb
    if len({s.key for s in strings}) != len(strings):
        return ("two held strings share a key", None, _r(strings)), False, newb
    order_bad = False
    if not _same(strings, exp["S"]):
        if sorted(map(id, strings)) != sorted(map(id, exp["S"])):
            return ("strings view != the held String blocks", _r(exp["S"]), _r(strings)), False, newb
        order_bad = True
    # partition, on the real views alone
    if sorted(map(id, blocks)) != sorted(map(id, entries + strings + pre + com + failed)):
        return ("entries/strings/preambles/comments/failed_blocks do not partition blocks", _r(blocks), _r(entries + strings + pre + com + failed)), False, newb
    if order_bad and not order_free:
        return None, True, newb
    return None, False, newb


def _snap(lib):
    return ([id(b) for b in lib.blocks], [(k, id(v)) for k, v in lib.entries_dict.items()], [(k, id(v)) for k, v in lib.strings_dict.items()])


def _viol(step, op, what, expected, observed, key=None):
    v = {"what": "step %d %s: %s" % (step, op, what), "expected": expected, "observed": observed}
    if key:
        v["finding_key"] = key
    return v


def check_history(spec):
    uspec = spec.get("universe", U_SPEC)
    U = [block_from_spec(s) for s in uspec]
    kinds = [_kind(b) for b in U]
    keys = [getattr(b, "key", None) for b in U]
    cls = _CLS if uspec is U_SPEC else _classes(uspec)
    pristine = [dict(vars(block_from_spec(s))) for s in uspec]
    _NAMES.clear()
    _NAMES.update({id(b): "U%d" % i for i, b in enumerate(U)})
    # precondition of the whole model: `==` on blocks is structural (twin == original, every other block of the same type differs)
    for i in range(len(U)):
        for j in range(i):
            if uspec[i]["t"] == uspec[j]["t"] and ((U[i] == U[j]) != (cls[i] == cls[j]) or (U[j] == U[i]) != (cls[i] == cls[j])):
                return _viol(-1, "universe", "block == is not structural equality (U[%d] vs U[%d])" % (j, i), cls[i] == cls[j], U[i] == U[j])
    lib = Library()
    m = Model(kinds, keys, cls)
    wobj = {}
    order_free = False          # set once a strings-order violation has been recorded in this history (fallout suppression)
    recorded = None             # first classified violation; an unclassified one returns immediately
    mm, ob, nb = compare(m, lib, U, wobj, False)
    if mm or ob:
        return _viol(-1, "Library()", mm[0] if mm else "strings order", mm[1] if mm else None, mm[2] if mm else None)

    def item_of(ref):
        if isinstance(ref, int):
            return ("b", ref)
        if not m.wr:
            return None
        return ("w", ref[1] % len(m.wr))

    def obj_of(item):
        return U[item[1]] if item[0] == "b" else wobj[item[1]]

    for step, op in enumerate(spec["ops"]):
        name = op[0]
        # ---- model prediction + the real call
        if name in ("add", "add_fail"):
            raises, reason, after, alt = m.add([op[1]], name == "add_fail")
            call = (lambda a=U[op[1]], f=(name == "add_fail"): lib.add(a, fail_on_duplicate_key=f)) if name == "add_fail" else (lambda a=U[op[1]]: lib.add(a))
        elif name in ("add_list", "add_list_fail"):
            raises, reason, after, alt = m.add(op[1], name == "add_list_fail")
            args = [U[i] for i in op[1]]
            call = (lambda a=args: lib.add(a, fail_on_duplicate_key=True)) if name == "add_list_fail" else (lambda a=args: lib.add(a))
        elif name == "remove":
            it = item_of(op[1])
            if it is None:
                continue
            raises, reason, after, alt = m.remove([it], False)
            call = lambda a=obj_of(it): lib.remove(a)
        elif name == "remove_list":
            its = [item_of(r) for r in op[1]]
            if any(i is None for i in its):
                continue
            raises, reason, after, alt = m.remove(its, True)
            call = lambda a=[obj_of(i) for i in its]: lib.remove(a)
        elif name == "replace":
            it = item_of(op[1])
            if it is None:
                continue
            raises, reason, after, alt = m.replace(it, op[2], op[3])
            call = lambda a=obj_of(it), b=U[op[2]], f=op[3]: lib.replace(a, b, fail_on_duplicate_key=f)
        else:
            raise ValueError("unknown op %r" % (op,))
        before = _snap(lib)
        real_raises = False
        try:
            call()
        except ValueError:
            real_raises = True
        except Exception as e:          # the property only allows ValueError
            return _viol(step, op, "raised %s instead of ValueError / succeeding" % type(e).__name__, "ValueError" if raises else "no exception", repr(e))
        if real_raises != raises:
            return _viol(step, op, "call %s" % ("raised ValueError but should succeed" if real_raises else "did not raise (%s)" % reason),
                         "ValueError (%s)" % reason if raises else "no exception", "ValueError" if real_raises else "no exception")
        if raises:
            now = _snap(lib)
            if now == before:
                continue
            # the call raised ValueError and the library is not what it was: which family?
            v = None
            if alt is not None:
                mm, ob, nb = compare(alt[1], lib, U, wobj, order_free)
                if mm is None and not ob:
                    v = _viol(step, op, "raised ValueError after modifying the library", "library unchanged: %d blocks" % len(before[0]),
                              _r(lib.blocks), alt[0])
                    m = alt[1]
                    wobj.update(nb)
            if v is None and name == "replace" and op[3] is True and reason == "dup":
                # the states a failing replace may leave: what it was, or (old is an equal copy of the held block) the copy in its place
                cands = [(before, m)]
                sw = m.swapped(it)
                if sw is not None:
                    a, b = id(U[sw[1]]), id(U[sw[2]])
                    cands.append((([b if x == a else x for x in before[0]], [(k, b if x == a else x) for k, x in before[1]],
                                   [(k, b if x == a else x) for k, x in before[2]]), sw[0]))
                for bs, tm in cands:
                    if now == bs:                       # equal library, the copy is held now: accepted (ruling)
                        m = tm
                        v = "accepted"
                        break
                    if now[0] == bs[0] and sorted(now[1]) == sorted(bs[1]) and sorted(now[2]) == sorted(bs[2]):
                        v = _viol(step, op, "failing replace changed the iteration order of the key index (entries_dict / strings_dict, strings view)",
                                  [[k for k, _ in bs[1]], [k for k, _ in bs[2]]], [[k for k, _ in now[1]], [k for k, _ in now[2]]], "F11b-replace-reorders")
                        if now[2] != bs[2]:
                            order_free = True
                        m = tm
                        break
                if v == "accepted":
                    continue
            if v is None:
                mm, ob, nb = compare(m, lib, U, wobj, order_free)
                return _viol(step, op, "raised ValueError but the library changed" + (": " + mm[0] if mm else ""),
                             mm[1] if mm else "unchanged", mm[2] if mm else _r(lib.blocks))
            recorded = recorded or v
            continue
        m = after
        mm, ob, nb = compare(m, lib, U, wobj, order_free)
        if mm:
            return _viol(step, op, mm[0], mm[1], mm[2])
        wobj.update(nb)
        if ob:
            exp_s = [U[i[1]].key + "@" + str(U[i[1]].start_line) for i in m.held if i[0] == "b" and kinds[i[1]] == "S"]
            obs_s = [s.key + "@" + str(s.start_line) for s in lib.strings]
            if name == "replace":
                # The statement fixes the order of `blocks` and `entries` only; `strings` is derived from the key index, and a
                # successful replace re-inserts the key at its end.  Not a C08 violation (ruled outside the statement): from here
                # on the strings view of this history is compared as a set.
                order_free = True
            else:
                return _viol(step, op, "strings view is not in block order", exp_s, obs_s)
    # frame: no call may have modified a universe block
    for i, b in enumerate(U):
        if {k: v for k, v in vars(b).items() if k != "_error"} != {k: v for k, v in pristine[i].items() if k != "_error"}:
            return _viol(len(spec["ops"]), "end", "universe block %d was modified by the library" % i, None, repr(b))
    return recorded


CHECKS = {"C08.history": check_history}


def known_witnesses():
    """minimal hand-written witnesses of the known defect families: True = still fails on the current tree."""
    out = {}
    U = [block_from_spec(s) for s in U_SPEC]
    # K1: add(dup, fail_on_duplicate_key=True) raises after appending the wrapper
    lib = Library()
    lib.add(U[0])
    try:
        lib.add(U[1], fail_on_duplicate_key=True)
        out["K1-add-fail-after-mutation"] = True        # did not even raise
    except ValueError:
        out["K1-add-fail-after-mutation"] = not (len(lib.blocks) == 1 and lib.blocks[0] is U[0])
    # F11a: remove([held, missing]) removes the held one, then raises
    lib = Library()
    lib.add(U[0])
    try:
        lib.remove([U[0], U[6]])
        out["F11a-remove-partial"] = True
    except ValueError:
        out["F11a-remove-partial"] = not (len(lib.blocks) == 1 and lib.blocks[0] is U[0] and lib.entries_dict.get("k") is U[0])
    # F11b: failing replace moves the old key to the end of the index
    lib = Library()
    lib.add([U[3], U[5]])
    try:
        lib.replace(U[3], U[5], fail_on_duplicate_key=True)
        out["F11b-replace-reorders"] = True
    except ValueError:
        out["F11b-replace-reorders"] = not (list(lib.strings_dict) == ["k", "j"] and _same(lib.strings, [U[3], U[5]]) and _same(lib.blocks, [U[3], U[5]]))
    return out


# ------------------------------------------------------------------ generation
W0 = ["w", 0]
# reduced alphabet over e0(k)=0 e1(k)=1 e2(j)=2 s0(k)=3 s1(k)=4 s2(j)=5 p=6 and the twins e0'=9 s0'=10
ALPHA_SMALL = [
    ["add", 0], ["add", 1], ["add", 2], ["add", 3], ["add", 5], ["add", 6],
    ["add_fail", 1], ["add_fail", 4],
    ["add_list", [0, 1]], ["add_list", [3, 4, 5]],
    ["add_list_fail", [6, 1]],
    ["remove", 0], ["remove", 1], ["remove", 3], ["remove", 5], ["remove", 6], ["remove", W0],
    ["remove_list", [0, 6]], ["remove_list", [3, 5]],
    ["replace", 0, 1, True], ["replace", 3, 4, True], ["replace", 3, 5, True], ["replace", 5, 4, True], ["replace", 0, 3, True],
    ["replace", 6, 1, True], ["replace", W0, 1, True],
    ["replace", 0, 1, False], ["replace", 3, 5, False], ["replace", 6, 1, False], ["replace", 6, 4, False], ["replace", W0, 6, False],
    # twins: add the copy, remove / replace through the copy (succeeding, failing, non-failing)
    ["add", 9], ["remove", 9], ["remove", 10], ["replace", 9, 2, True], ["replace", 10, 5, True], ["replace", 9, 1, False],
]
ALPHA_LARGE = ALPHA_SMALL + [
    ["add", 4], ["add", 7], ["add", 8],
    ["add_fail", 0], ["add_fail", 3], ["add_fail", 6],
    ["add_list", [6, 0]], ["add_list", []], ["add_list_fail", [0, 1]], ["add_list_fail", [3, 5]],
    ["remove", 4], ["remove", 2],
    ["remove_list", [0, 1]], ["remove_list", [0, 0]], ["remove_list", [W0, 0]], ["remove_list", []],
    ["replace", 1, 0, True], ["replace", 0, 0, True], ["replace", 0, 2, True], ["replace", 2, 1, True], ["replace", 3, 6, True],
    ["replace", 1, 0, False], ["replace", 0, 6, False], ["replace", 3, 0, False], ["replace", W0, 4, False],
    ["add", 10], ["add_fail", 9], ["add_list", [0, 9]],
    ["remove_list", [9, 6]], ["remove_list", [0, 9]], ["remove_list", [10, 5]],
    ["replace", 10, 4, False], ["replace", 0, 9, True], ["replace", 9, 0, False], ["replace", 10, 3, True],
]
assert len(ALPHA_SMALL) == 37 and len(ALPHA_LARGE) == 72


def _nontrivial(ops):
    """pure reference-model run (no code under test): does any call change the model?"""
    kinds = [{"entry": "E", "string": "S", "preamble": "P", "ecomment": "C", "icomment": "C"}.get(s["t"], "F") for s in U_SPEC]
    keys = [s.get("key") for s in U_SPEC]
    m = Model(kinds, keys, _CLS)
    for op in ops:
        def item(ref):
            return ("b", ref) if isinstance(ref, int) else (("w", ref[1] % len(m.wr)) if m.wr else None)
        if op[0].startswith("add"):
            idxs = op[1] if isinstance(op[1], list) else [op[1]]
            r = m.add(idxs, op[0].endswith("fail"))
        elif op[0] == "remove":
            it = item(op[1])
            if it is None:
                continue
            r = m.remove([it], False)
        elif op[0] == "remove_list":
            its = [item(x) for x in op[1]]
            if None in its:
                continue
            r = m.remove(its, True)
        else:
            it = item(op[1])
            if it is None:
                continue
            r = m.replace(it, op[2], op[3])
        if not r[0] and (r[2].held != m.held or r[2].ed != m.ed or r[2].sd != m.sd):
            return True
        if not r[0]:
            m = r[2]
    return False


def rand_history(rng):
    n = rng.randrange(1, 31)
    nU = len(U_SPEC)
    # a per-history working set makes collisions and hits on held blocks likely
    pool = rng.sample(range(nU), rng.randrange(2, nU + 1))
    for o, t in TWINS:              # an original in the working set usually brings its twin along
        if o in pool and t not in pool and rng.random() < 0.6:
            pool.append(t)
    twins = [t for _, t in TWINS]

    def blk():
        return rng.choice(pool) if rng.random() < 0.9 else rng.randrange(nU)

    def ref():              # argument of remove / old_block of replace: a wrapper, a twin, or any block
        r = rng.random()
        if r < 0.15:
            return ["w", rng.randrange(4)]
        if r < 0.30:
            return rng.choice(twins)
        return blk()

    ops = []
    for _ in range(n):
        r = rng.random()
        if r < 0.25:
            ops.append(["add", blk()])
        elif r < 0.32:
            ops.append(["add_fail", blk()])
        elif r < 0.42:
            ops.append(["add_list", [blk() for _ in range(rng.randrange(0, 4))]])
        elif r < 0.47:
            ops.append(["add_list_fail", [blk() for _ in range(rng.randrange(0, 4))]])
        elif r < 0.62:
            ops.append(["remove", ref()])
        elif r < 0.70:
            ops.append(["remove_list", [ref() for _ in range(rng.randrange(0, 4))]])
        else:
            ops.append(["replace", ref(), blk(), rng.random() < 0.5])
    return ops


def generate(tier, rng):
    yield "C08.history", {"ops": []}, False
    depth = 3 if tier == "quick" else 4
    for d in range(1, depth + 1):
        for ops in itertools.product(ALPHA_SMALL, repeat=d):
            ops = list(ops)
            yield "C08.history", {"ops": ops}, _nontrivial(ops)
    if True:
        small = {repr(o) for o in ALPHA_SMALL}
        for d in range(1, 3 if tier == "quick" else 4):
            for ops in itertools.product(ALPHA_LARGE, repeat=d):
                if all(repr(o) in small for o in ops):
                    continue
                ops = list(ops)
                yield "C08.history", {"ops": ops}, _nontrivial(ops)
    n = 2000 if tier == "quick" else 30000
    for _ in range(n):
        ops = rand_history(rng)
        yield "C08.history", {"ops": ops}, _nontrivial(ops)
