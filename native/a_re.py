"""A-RE: bounded validation of the ASSUMED contract of `re.finditer` on the splitter's mark regex.

The proof layer (pyvc/marks.py) models the marks the splitter iterates over by four facts and proves everything the
splitter does with them; the facts themselves are assumptions about CPython's `re` applied to the pattern that
`Splitter.split` really passes (captured here from the running code, not copied):

  R1  marks are non-empty, inside the text, in increasing order and do not overlap;
  R2  every mark is one of the single characters { } " , = newline, or starts with '@';
  R4  an '@' mark is directly followed by a '{' mark (start == its end), its text has the length of its extent;
  R5  every newline character of the text is a newline mark (not an axiom of the proofs, but the link between "the
      number of newline marks consumed", which the proofs speak about, and "the line", which C03 speaks about).

A deviation means the proofs of C01-C04 do not apply to this tree (reported as UNDECIDED by check.py, never as a
violation of a property; the bounded property checks decide on their own)."""
import itertools
import re

ALPHABET = ["{", "}", '"', ",", "=", "\n", "@", "a", " ", "\\", "\t", "_"]
WIDE = ALPHABET + ["(", ")", "[", "#", "%", "-", "1", "A", "\r", "\u00e9", "\u2028", "'"]
RULE = ("texts over the splitter's character classes " + repr("".join(ALPHABET)) + " and a wider set " + repr("".join(WIDE[len(ALPHABET):])) + ": all up to a length bound, then random longer ones; "
        "for each, the marks re.finditer yields for the pattern captured from Splitter.split are compared with R1, R2, R4, R5")
BOUND = {"quick": "all texts over the 12 core characters up to length 5 (271,453), all over 24 characters up to length 3 (14,425), 6,000 random texts of length 4..60",
         "thorough": "all texts over the 12 core characters up to length 6 (3.2M), all over 24 characters up to length 4 (346,201), 100,000 random texts of length 5..200"}


def captured_call(text):
    """(pattern, string, flags) that Splitter(text).split() passes to re.finditer"""
    from bibtexparser.splitter import Splitter
    import bibtexparser.splitter as mod
    got = {}
    real = re.finditer

    def spy(pattern, string, flags=0):
        got["call"] = (pattern, string, flags)
        return real(pattern, string, flags)
    saved = mod.re.finditer
    mod.re.finditer = spy
    try:
        Splitter(text).split()
    finally:
        mod.re.finditer = saved
    return got.get("call")


_PAT = {}


def check(spec):
    text = spec["text"]
    if "pat" not in _PAT:
        c = captured_call("@a{b,}")
        if c is None:
            return {"what": "Splitter.split no longer calls re.finditer: the mark model does not describe it", "expected": "re.finditer(...)", "observed": "no call"}
        _PAT["pat"] = (c[0], c[2])
    pat, flags = _PAT["pat"]
    bib = "\n" + text
    ms = list(re.finditer(pat, bib, flags))
    prev_end = 0
    for i, m in enumerate(ms):
        g = m.group(0)
        if not (0 <= m.start() < m.end() <= len(bib)) or m.start() < prev_end:
            return {"what": "R1 (extent/order) fails", "expected": "0 <= start < end <= len, end_i <= start_i+1", "observed": repr((i, m.span(), prev_end))}
        prev_end = m.end()
        if g in ("{", "}", '"', ",", "=", "\n"):
            continue
        if not g.startswith("@") or len(g) != m.end() - m.start():
            return {"what": "R2 (mark kinds) fails", "expected": "one of { } \" , = newline or '@...'", "observed": repr(g)}
        if i + 1 >= len(ms) or ms[i + 1].group(0) != "{" or ms[i + 1].start() != m.end():
            return {"what": "R4 ('@' mark directly followed by a '{' mark) fails", "expected": "next mark '{' at end of the '@' mark", "observed": repr((g, ms[i + 1].span() if i + 1 < len(ms) else None))}
    nl_marks = {m.start() for m in ms if m.group(0) == "\n"}
    for pos, ch in enumerate(bib):
        if ch == "\n" and pos not in nl_marks:
            return {"what": "R5 (every newline character is a newline mark) fails", "expected": "a newline mark at " + str(pos), "observed": repr([(m.group(0), m.span()) for m in ms][:6])}
    return None


CHECKS = {"A-RE": check}


def generate(tier, rng):
    n = 5 if tier == "quick" else 6
    for k in range(0, n + 1):
        for t in itertools.product(ALPHABET, repeat=k):
            yield "A-RE", {"text": "".join(t)}, True
    for k in range(1, (3 if tier == "quick" else 4) + 1):
        for t in itertools.product(WIDE, repeat=k):
            yield "A-RE", {"text": "".join(t)}, True
    lo, hi, cnt = (4, 60, 6000) if tier == "quick" else (5, 200, 100000)
    for i in range(cnt):
        alpha = WIDE if i % 2 else ALPHABET
        yield "A-RE", {"text": "".join(rng.choice(alpha) for _ in range(rng.randint(lo, hi)))}, True
