"""Independent references for the name properties C12 / C13 / C14.

Everything here is written from the property statements (properties.jsonl) and from BibTeX's documented name rules
(bibtex.web sections "von_token_found" / "von_name_ends_and_last_name_starts_stuff", "Tame the BeaST" section 11);
nothing calls the code under test.  The only data taken from /repo is the repository's own BibTeX-derived test corpus,
read with `ast` from the test file, which is used to *validate* the transcription (never to compute an expectation
for a generated input)."""
import ast
import os
import re

AND_WS = " \t\r\n"       # whitespace of the co-author separator ('~' is NOT whitespace there)
NAME_WS = " ~\t\r\n"     # word separators inside one name


# ----------------------------------------------------------------------------------------------- C12 reference
def plain_mask(s):
    """mask[i] is True when s[i] is an unescaped character at brace depth 0 that is not itself a brace."""
    n, mask, depth, i = len(s), [False] * len(s), 0, 0
    while i < n:
        c = s[i]
        if c == "\\":          # the backslash and the character it escapes are never structural
            i += 2
            continue
        if c == "{":
            depth += 1
        elif c == "}":
            depth = max(0, depth - 1)
        elif depth == 0:
            mask[i] = True
        i += 1
    return mask


def ref_split(text):
    """Reference co-author splitter (property C12): split at a case-insensitive word 'and' at brace depth 0 with
    unescaped whitespace on both sides and a non-empty name on both sides (scanning left to right)."""
    s = text.strip(AND_WS)
    n, mask = len(s), plain_mask(s)
    ws = lambda k: 0 <= k < n and mask[k] and s[k] in AND_WS
    pieces, start, i = [], 0, 0
    while i < n:
        if i > start and ws(i - 1) and ws(i + 3) and all(mask[i:i + 3]) and s[i:i + 3].lower() == "and":
            end = i                       # i > start: the name on the left is not empty; the stripped text ends with
            while ws(end - 1):            # a non-blank, so neither is the name on the right
                end -= 1
            pieces.append(s[start:end])
            i += 3
            while ws(i):
                i += 1
            start = i
        else:
            i += 1
    if n:
        pieces.append(s[start:])
    return pieces


def braces_balanced(s):
    """Brace balance with backslash escapes (an escaped brace is not a brace)."""
    depth, i = 0, 0
    while i < len(s):
        c = s[i]
        if c == "\\":
            i += 2
            continue
        if c == "{":
            depth += 1
        elif c == "}":
            depth -= 1
            if depth < 0:
                return False
        i += 1
    return depth == 0


_GAP = re.compile("[ \t\r\n]+[aA][nN][dD][ \t\r\n]+")


def conservation_error(text, pieces):
    """None when `pieces` are contiguous slices of the stripped text, in order, separated by exactly blank-and-blank
    gaps and covering everything else; otherwise a short description."""
    s = text.strip(AND_WS)
    pos = 0
    for k, p in enumerate(pieces):
        if not isinstance(p, str) or p == "":
            return "piece %d is empty or not a string" % k
        if not s.startswith(p, pos):
            return "piece %d %r is not the slice at offset %d (text there: %r)" % (k, p, pos, s[pos:pos + len(p) + 6])
        pos += len(p)
        if k < len(pieces) - 1:
            m = _GAP.match(s, pos)
            if not m:
                return "after piece %d the text %r is not a blank-and-blank separator" % (k, s[pos:pos + 8])
            pos = m.end()
    if pos != len(s):
        return "unaccounted tail %r" % s[pos:]
    return None


def neutralise_escapes(s):
    """Replace every backslash escape by inert letters (classification aid: does the difference need an escape?)."""
    out, i = [], 0
    while i < len(s):
        if s[i] == "\\":
            out.append("XX" if i + 1 < len(s) else "X")
            i += 2
        else:
            out.append(s[i])
            i += 1
    return "".join(out)


# ----------------------------------------------------------------------------------------------- C13 reference
class RefInvalidName(Exception):
    pass


def name_sections(name):
    """Top-level words of a name, grouped by comma section.  Separators: space ~ CR LF TAB and top-level commas;
    braces group; a backslash escapes the next character (so that character is neither brace, comma nor letter of
    anything structural) -- except that BibTeX cannot escape white space: backslash-blank is a backslash that ends the
    word followed by an ordinary separator (corpus: 'L.\\ Thiele', 'Brand\\~{a}o').  Raises RefInvalidName."""
    sections, word, depth, i, n = [[]], [], 0, 0, len(name)

    def flush():
        if word:
            sections[-1].append("".join(word))
            del word[:]
    while i < n:
        c = name[i]
        if c == "\\" and i + 1 < n and name[i + 1] not in NAME_WS:
            word.append(c + name[i + 1])
            i += 2
            continue
        if c == "{":
            depth += 1
            word.append(c)
        elif c == "}":
            if depth == 0:
                raise RefInvalidName("unmatched closing brace")
            depth -= 1
            word.append(c)
        elif depth == 0 and c == ",":
            flush()
            sections.append([])
        elif depth == 0 and c in NAME_WS:
            flush()
        else:
            word.append(c)          # includes a backslash before white space or at the very end
        i += 1
    if depth:
        raise RefInvalidName("unterminated opening brace")
    flush()
    if len(sections) > 3:
        raise RefInvalidName("too many commas")
    if len(sections) > 1 and not sections[-1]:
        raise RefInvalidName("trailing comma")
    return sections


def _letter_case(c):
    return "u" if c.isupper() else "l"


def word_case(w, code_like=False):
    """Case of one word: 'l' lower, 'u' upper, 'n' caseless.  Transcription of bibtex.web's von_token_found (plus the
    property's backslash escape): the first letter at brace depth 0 decides (a backslash is not a letter, the escaped
    character may be); a brace group is skipped; a brace at depth 0 immediately followed by a backslash is a special
    character: skip the letters of the control sequence, then the first letter before the group closes (at any depth
    inside it) decides, and if there is none the word is caseless.  (BibTeX's table of foreign characters -- \\o,
    \\AA ... -- is not modelled; no generated alphabet contains them.)
    code_like=True evaluates the defect model below instead (classification of observed differences only)."""
    if code_like:
        return word_case_defect_model(w)
    i, n = 0, len(w)
    while i < n:
        c = w[i]
        if c == "\\":
            if i + 1 < n and w[i + 1].isalpha():
                return _letter_case(w[i + 1])
            i += 2
            continue
        if c.isalpha():
            return _letter_case(c)
        if c == "{":
            special = i + 1 < n and w[i + 1] == "\\"
            j, depth = i + 1, 1
            if special:
                j = i + 2
                if j < n and not w[j].isalpha():
                    j += 1                                        # one-character control symbol such as \' (escaped)
                else:
                    while j < n and w[j].isalpha():
                        j += 1                                    # the control sequence
            while j < n and depth > 0:
                c = w[j]
                if c == "\\":
                    if special and j + 1 < n and w[j + 1].isalpha():
                        return _letter_case(w[j + 1])
                    j += 2
                    continue
                if special and c.isalpha():
                    return _letter_case(c)
                if c == "{":
                    depth += 1
                elif c == "}":
                    depth -= 1
                j += 1
            if special:
                return "n"                                        # BibTeX: the special character alone decides
            i = j                                                 # ordinary group skipped
            continue
        i += 1
    return "n"


def word_case_defect_model(w):
    """Defect model of family N13-special-char-case -- how the word case comes out when special characters are tracked
    with per-brace flags instead of BibTeX's rule.  Used only to *classify* an observed difference, never to compute an
    expectation.  Differences from word_case:  (m1) an escaped letter inside an ordinary brace group decides the case;
    (m2) a special character without a letter lets the text after it decide;  (m3) brace-backslash-blank is not
    recognised as a special character;  (m4) a nested brace inside a special character ends the search in that group;
    (m5) brace-backslash at any depth (not only depth 0) starts a special character;  (m6) an escaped non-letter inside
    a control word does not end the control word."""
    i, n, depth, searching = 0, len(w), 0, False
    while i < n:
        c = w[i]
        if c == "\\":
            if i + 1 < n and w[i + 1] in NAME_WS:
                i += 1                                            # backslash-blank: two ordinary characters
                continue
            if i + 1 < n and w[i + 1].isalpha():
                return _letter_case(w[i + 1])                     # at any depth: (m1)
            i += 2
            continue
        if c == "{":
            depth += 1
            searching = False                                     # (m4)
            if i + 2 < n and w[i + 1] == "\\" and w[i + 2] not in NAME_WS:      # (m3), (m5)
                searching = True
                i += 2
                if w[i].isalpha():
                    while i < n and (w[i].isalpha() or (w[i] == "\\" and i + 1 < n and not w[i + 1].isalpha() and w[i + 1] not in NAME_WS)):
                        i += 1 if w[i].isalpha() else 2           # (m6)
                else:
                    i += 1
                continue
        elif c == "}":
            depth -= 1
            searching = False
        elif c.isalpha() and (depth == 0 or searching):           # depth 0 after a letterless special character: (m2)
            return _letter_case(c)
        i += 1
    return "n"


def partition(sections, code_like=False):
    """BibTeX's First / von / Last / Jr assignment as worded in property C13."""
    s0 = sections[0]
    low = [word_case(w, code_like) == "l" for w in s0]
    n = len(s0)
    first, von, last, jr = [], [], [], []
    if len(sections) == 1:
        if n <= 2:                                  # one word: Last; two words: First Last
            first, last = s0[:-1], s0[-1:]
        else:
            vs = next((k for k in range(n - 1) if low[k]), n - 1)       # leading non-lower-case words are First
            ve = max([k + 1 for k in range(vs, n - 1) if low[k]] or [vs])   # von ends with the last lower-case non-final word
            first, von, last = s0[:vs], s0[vs:ve], s0[ve:]
    else:
        ve = max([k + 1 for k in range(n - 1) if low[k]] or [0])
        von, last = s0[:ve], s0[ve:]
        jr = list(sections[1]) if len(sections) == 3 else []
        first = list(sections[-1])
    return {"first": list(first), "von": list(von), "last": list(last), "jr": list(jr)}


def ref_parts(name):
    return partition(name_sections(name))


def von_last_model(sections, code_like=False):
    """Defect model of family F8-von-last: in the comma-free form, when the final word is lower-case, the von part is
    extended through the word before the final one.  Returns the partition that model predicts, or None when the model
    does not apply to this name (or predicts nothing different)."""
    if len(sections) != 1 or len(sections[0]) < 3:
        return None
    exp = partition(sections, code_like)
    if word_case(sections[0][-1], code_like) != "l" or len(exp["last"]) < 2 or not exp["von"]:
        return None
    return {"first": exp["first"], "von": exp["von"] + exp["last"][:-1], "last": exp["last"][-1:], "jr": []}


def ends_with_lone_backslash(name):
    """True when the final character is a backslash that is not itself escaped."""
    i, n = 0, len(name)
    while i < n:
        if name[i] == "\\":
            if i + 1 >= n:
                return True
            i += 2
        else:
            i += 1
    return False


def odd_trailing_backslashes(word):
    return (len(word) - len(word.rstrip("\\"))) % 2 == 1


def ref_merge_last_first(p):
    """'von Last, Jr, First' (property C14 / the documented output structure)."""
    von_last = " ".join(p["von"] + p["last"])
    return ", ".join(x for x in (von_last, " ".join(p["jr"]), " ".join(p["first"])) if x)


def parts_dict(np):
    """A NameParts object (code under test) as a plain dict."""
    return {"first": list(np.first), "von": list(np.von), "last": list(np.last), "jr": list(np.jr)}


# ----------------------------------------------------------------------------------------------- corpus
CORPUS_FILE = "/repo/tests/middleware_tests/test_names.py"


def _literal_assign(tree, name):
    for node in tree.body:
        if isinstance(node, ast.Assign) and any(isinstance(t, ast.Name) and t.id == name for t in node.targets):
            return ast.literal_eval(node.value)
    raise KeyError(name)


def _parametrize_literal(tree, func_name):
    for node in tree.body:
        if isinstance(node, ast.FunctionDef) and node.name == func_name:
            for dec in node.decorator_list:
                if isinstance(dec, ast.Call) and getattr(dec.func, "attr", "") == "parametrize":
                    try:
                        return ast.literal_eval(dec.args[1])
                    except ValueError:       # pytest.param(...) items
                        out = []
                        for el in dec.args[1].elts:
                            if isinstance(el, ast.Call):
                                out.append(tuple(ast.literal_eval(a) for a in el.args))
                            else:
                                out.append(ast.literal_eval(el))
                        return out
    raise KeyError(func_name)


_corpus_cache = {}


def load_corpus():
    """The repo's own BibTeX-derived example lists, read from the test file with ast (no import of the tests)."""
    if not _corpus_cache:
        tree = ast.parse(open(CORPUS_FILE, encoding="utf-8").read())
        _corpus_cache["parts"] = list(_literal_assign(tree, "REGULAR_NAME_PARTS_PARSING_TEST_CASES"))
        _corpus_cache["split"] = list(_parametrize_literal(tree, "test_split_coauthors_consistent_with_bibtex"))
        _corpus_cache["invalid"] = list(_parametrize_literal(tree, "test_name_splitting_strict_mode"))
    return _corpus_cache


def validate_on_corpus():
    """-> {'parts': (agree, total, [disagreements]), 'split': (...), 'invalid': (...)} for the references above."""
    c = load_corpus()
    res = {}
    bad = []
    for name, exp in c["parts"]:
        try:
            got = ref_parts(name)
        except RefInvalidName as e:
            got = "invalid: %s" % e
        if got != {k: list(exp[k]) for k in ("first", "von", "last", "jr")}:
            bad.append((name, exp, got))
    res["parts"] = (len(c["parts"]) - len(bad), len(c["parts"]), bad)
    bad = [(s, exp, ref_split(s)) for s, exp in c["split"] if ref_split(s) != list(exp)]
    res["split"] = (len(c["split"]) - len(bad), len(c["split"]), bad)
    bad = []
    for name, reason in c["invalid"]:
        try:
            name_sections(name)
            bad.append((name, reason, "accepted"))
        except RefInvalidName:
            pass
    res["invalid"] = (len(c["invalid"]) - len(bad), len(c["invalid"]), bad)
    return res
