"""Second interpretation of the contract language: the same clause texts that pyvc translates to z3 are
evaluated here by CPython against the real objects (used for replaying solver counter-models and for
runtime contract checking in the bounded layer).  Clauses that quantify over an unbounded domain are
proof-only: evaluating them raises NotEvaluable."""
import ast
import copy
import importlib
import os
import sys

HERE = os.path.dirname(os.path.abspath(__file__))
VERIF = os.path.dirname(HERE)
if VERIF not in sys.path:
    sys.path.insert(0, VERIF)


class NotEvaluable(Exception):
    pass


_REG = None


def registry():
    global _REG
    if _REG is None:
        from pyvc import api
        api.reset()
        for m in sorted(os.listdir(os.path.join(VERIF, "contracts"))):
            if m.endswith(".py") and m not in ("__init__.py", "properties.py"):
                importlib.import_module("contracts." + m[:-3])
        _REG = api.REGISTRY
    return _REG


_CLASSES = None


def repo_classes():
    global _CLASSES
    if _CLASSES is None:
        _CLASSES = {}
        import bibtexparser
        import pkgutil
        mods = ["bibtexparser.model", "bibtexparser.library", "bibtexparser.writer", "bibtexparser.splitter", "bibtexparser.exceptions",
                "bibtexparser.entrypoint"]
        import bibtexparser.middlewares as mw
        for m in pkgutil.iter_modules(mw.__path__):
            mods.append("bibtexparser.middlewares." + m.name)
        for mn in mods:
            try:
                mod = importlib.import_module(mn)
            except Exception:
                continue
            for k, v in vars(mod).items():
                if isinstance(v, type):
                    _CLASSES.setdefault(k, v)
        from typing import Collection
        _CLASSES["Collection"] = Collection
    return _CLASSES


def resolve_function(qualname):
    """qualname of the extractor -> (callable taking the contract's parameters, kind)"""
    setter = qualname.endswith(".setter")
    q = qualname[:-7] if setter else qualname
    parts = q.split(".")
    for i in range(len(parts), 0, -1):
        try:
            mod = importlib.import_module(".".join(parts[:i]))
        except ImportError:
            continue
        obj = mod
        rest = parts[i:]
        owner = None
        for nm in rest:
            owner = obj
            obj = owner.__dict__[nm] if isinstance(owner, type) and nm in owner.__dict__ else getattr(owner, nm)
        if isinstance(obj, property):
            return (obj.fset if setter else obj.fget), "property"
        if isinstance(obj, staticmethod):
            return obj.__func__, "staticmethod"
        if isinstance(obj, classmethod):
            return obj.__func__, "classmethod"
        return obj, "function"
    raise ImportError(qualname)


class Ctx:
    def __init__(self, env, old_env=None, memo=None, pre_ids=None, extra=None):
        self.env = env
        self.old_env = old_env
        self.memo = memo or {}          # id(original) -> copy
        self.rev = {id(v): k for k, v in ((k, v) for k, v in (memo or {}).items())} if memo else {}
        self.pre_ids = pre_ids or set()
        self.extra = extra or {}
        self.in_old = False


def reachable_ids(objs):
    seen = set()
    todo = list(objs)
    while todo:
        o = todo.pop()
        if id(o) in seen or isinstance(o, (str, int, float, bool, type(None), type)):
            continue
        seen.add(id(o))
        if isinstance(o, (list, tuple, set, frozenset)):
            todo.extend(o)
        elif isinstance(o, dict):
            todo.extend(o.keys())
            todo.extend(o.values())
        elif hasattr(o, "__dict__"):
            todo.extend(vars(o).values())
    return seen


def ev(node, ctx):
    if isinstance(node, str):
        node = ast.parse(node.strip(), mode="eval").body
    m = globals().get("ev_" + node.__class__.__name__)
    if m is None:
        raise NotEvaluable(node.__class__.__name__)
    return m(node, ctx)


def ev_Constant(n, c):
    return n.value


def ev_Name(n, c):
    env = c.old_env if c.in_old and c.old_env is not None else c.env
    if n.id in c.extra and not (c.in_old and n.id in ("result", "exc")):
        return c.extra[n.id]
    if n.id in env:
        return env[n.id]
    if n.id in c.env:
        return c.env[n.id]
    cl = repo_classes()
    if n.id in cl:
        return cl[n.id]
    if n.id in ("str", "int", "bool", "list", "dict", "set", "tuple"):
        return __builtins__[n.id] if isinstance(__builtins__, dict) else getattr(__builtins__, n.id)
    raise NotEvaluable(f"name {n.id}")


def ev_Attribute(n, c):
    o = ev(n.value, c)
    return getattr(o, n.attr)


def ev_Subscript(n, c):
    o = ev(n.value, c)
    if isinstance(n.slice, ast.Slice):
        lo = ev(n.slice.lower, c) if n.slice.lower is not None else None
        hi = ev(n.slice.upper, c) if n.slice.upper is not None else None
        if lo is not None and lo < 0 or hi is not None and hi < 0:
            # specification slicing is mathematical: clamp at 0
            lo = max(lo, 0) if lo is not None else None
            hi = max(hi, 0) if hi is not None else None
        return o[lo:hi]
    i = ev(n.slice, c)
    if isinstance(o, (list, tuple, str)) and isinstance(i, int) and not (0 <= i < len(o)):
        raise NotEvaluable("specification index out of range (total semantics in the proof reading)")
    return o[i]


def ev_BoolOp(n, c):
    if isinstance(n.op, ast.And):
        v = True
        for x in n.values:
            v = ev(x, c)
            if not v:
                return v
        return v
    v = False
    for x in n.values:
        v = ev(x, c)
        if v:
            return v
    return v


def ev_UnaryOp(n, c):
    v = ev(n.operand, c)
    if isinstance(n.op, ast.Not):
        return not v
    if isinstance(n.op, ast.USub):
        return -v
    raise NotEvaluable("unary")


def ev_BinOp(n, c):
    a, b = ev(n.left, c), ev(n.right, c)
    op = n.op
    if isinstance(op, ast.Add):
        return a + b
    if isinstance(op, ast.Sub):
        return a - b
    if isinstance(op, ast.Mult):
        return a * b
    if isinstance(op, ast.Mod):
        return a % b
    if isinstance(op, ast.FloorDiv):
        return a // b
    raise NotEvaluable("binop")


def canon(x, c):
    """object of the pre-state copy -> the original it was copied from (identity comparisons)"""
    return c.rev_obj.get(id(x), x) if hasattr(c, "rev_obj") else x


def ev_Compare(n, c):
    left = ev(n.left, c)
    for op, r in zip(n.ops, n.comparators):
        right = ev(r, c)
        if isinstance(op, ast.Eq):
            ok = left == right
        elif isinstance(op, ast.NotEq):
            ok = left != right
        elif isinstance(op, ast.Lt):
            ok = left < right
        elif isinstance(op, ast.LtE):
            ok = left <= right
        elif isinstance(op, ast.Gt):
            ok = left > right
        elif isinstance(op, ast.GtE):
            ok = left >= right
        elif isinstance(op, ast.Is):
            ok = canon(left, c) is canon(right, c)
        elif isinstance(op, ast.IsNot):
            ok = canon(left, c) is not canon(right, c)
        elif isinstance(op, ast.In):
            ok = left in right
        elif isinstance(op, ast.NotIn):
            ok = left not in right
        else:
            raise NotEvaluable("compare")
        if not ok:
            return False
        left = right
    return True


def ev_IfExp(n, c):
    return ev(n.body, c) if ev(n.test, c) else ev(n.orelse, c)


def ev_Tuple(n, c):
    return tuple(ev(x, c) for x in n.elts)


def ev_List(n, c):
    return [ev(x, c) for x in n.elts]


def _bounds(var, guard):
    """integer range of `var` from conjuncts  a <= var < b  /  a <= var <= b  /  a < var ... in guard"""
    lo = hi = None
    conj = guard.values if isinstance(guard, ast.BoolOp) and isinstance(guard.op, ast.And) else [guard]
    for g in conj:
        if isinstance(g, ast.Compare):
            terms = [g.left] + list(g.comparators)
            for i, t in enumerate(terms):
                if isinstance(t, ast.Name) and t.id == var:
                    if i > 0:
                        op = g.ops[i - 1]
                        if isinstance(op, ast.LtE):
                            lo = ("incl", terms[i - 1])
                        elif isinstance(op, ast.Lt):
                            lo = ("excl", terms[i - 1])
                    if i < len(terms) - 1:
                        op = g.ops[i]
                        if isinstance(op, ast.Lt):
                            hi = ("excl", terms[i + 1])
                        elif isinstance(op, ast.LtE):
                            hi = ("incl", terms[i + 1])
    return lo, hi


def _quant(n, c, is_forall):
    args = list(n.args)
    if len(args) == 4:
        # forall(k, 'str', k in D [and ...], body): the domain is the container D named by the guard
        var = args[0].id if isinstance(args[0], ast.Name) else None
        guard, body = args[2], args[3]
        conj = guard.values if isinstance(guard, ast.BoolOp) and isinstance(guard.op, ast.And) else [guard]
        dom = None
        for g in conj:
            if isinstance(g, ast.Compare) and len(g.ops) == 1 and isinstance(g.ops[0], ast.In) and isinstance(g.left, ast.Name) and g.left.id == var:
                dom = g.comparators[0]
        if var is None or dom is None:
            raise NotEvaluable("quantifier over a non-integer sort without a container domain")
        saved = c.extra.get(var)
        try:
            for x in list(ev(dom, c)):
                c.extra[var] = x
                if not ev(guard, c):
                    continue
                r = bool(ev(body, c))
                if is_forall and not r:
                    return False
                if not is_forall and r:
                    return True
            return True if is_forall else False
        finally:
            if saved is None:
                c.extra.pop(var, None)
            else:
                c.extra[var] = saved
    vars_ = args[0].elts if isinstance(args[0], ast.Tuple) else [args[0]]
    guard, body = args[1], args[2]
    names = [v.id for v in vars_]
    saved = {nm: c.extra.get(nm, None) for nm in names}

    def rec(i):
        if i == len(names):
            g = ev(guard, c)
            if not g:
                return True if is_forall else False
            return bool(ev(body, c))
        lo, hi = _bounds(names[i], guard)
        if lo is None or hi is None:
            raise NotEvaluable(f"no finite range for {names[i]}")
        try:
            a = ev(lo[1], c) + (0 if lo[0] == "incl" else 1)
            b = ev(hi[1], c) + (1 if hi[0] == "incl" else 0)
        except NotEvaluable:
            raise
        except Exception:
            # bound depends on an earlier quantified variable that is out of range: empty
            return True if is_forall else False
        if b - a > 5000:
            raise NotEvaluable("range too large")
        for x in range(a, b):
            c.extra[names[i]] = x
            try:
                r = rec(i + 1)
            except (IndexError, KeyError):
                r = True if is_forall else False
            if is_forall and not r:
                return False
            if not is_forall and r:
                return True
        return True if is_forall else False
    try:
        return rec(0)
    finally:
        for nm, v in saved.items():
            if v is None:
                c.extra.pop(nm, None)
            else:
                c.extra[nm] = v


def call_pred(node, args, c):
    params = [a.arg for a in node.args.args]
    body = [s for s in node.body if not (isinstance(s, ast.Expr) and isinstance(s.value, ast.Constant))]
    saved_env, saved_old, saved_extra = c.env, c.old_env, c.extra
    # predicate bodies see only their parameters (plus quantified variables)
    c.env = dict(zip(params, args))
    c.old_env = dict(zip(params, args))
    c.extra = {k: v for k, v in saved_extra.items() if k in ("result", "exc")}
    try:
        return ev(body[0].value, c)
    finally:
        c.env, c.old_env, c.extra = saved_env, saved_old, saved_extra


def ev_Call(n, c):
    reg = registry()
    if isinstance(n.func, ast.Name):
        f = n.func.id
        if f == "forall":
            return _quant(n, c, True)
        if f == "exists":
            return _quant(n, c, False)
        if f == "implies":
            return (not ev(n.args[0], c)) or bool(ev(n.args[1], c))
        if f == "old":
            if c.old_env is None:
                raise NotEvaluable("old() without a pre-state")
            saved = c.in_old
            c.in_old = True
            try:
                return ev(n.args[0], c)
            finally:
                c.in_old = saved
        if f == "fresh":
            v = ev(n.args[0], c)
            return id(v) not in c.pre_ids and not isinstance(v, (str, int, bool, type(None)))
        if f == "allocated":
            return True
        if f == "existed":
            v = ev(n.args[0], c)
            return id(canon(v, c)) in c.pre_ids or isinstance(v, (str, int, bool, type(None)))
        if f == "unchanged":
            a = n.args[0]
            if isinstance(a, ast.Constant):
                raise NotEvaluable("whole-component frame clause")
            cur = ev(a, c)
            saved = c.in_old
            c.in_old = True
            try:
                old = ev(a, c)
            finally:
                c.in_old = saved
            return cur == old
        if f == "content_unchanged":
            cur = ev(n.args[0], c)
            saved = c.in_old
            c.in_old = True
            try:
                old = ev(n.args[0], c)
            finally:
                c.in_old = saved
            if isinstance(cur, dict):
                return list(cur.keys()) == list(old.keys()) and all(canon(cur[k_], c) is canon(old[k_], c) or cur[k_] == old[k_] for k_ in cur)
            return len(cur) == len(old) and all(canon(a_, c) is canon(b_, c) or a_ == b_ for a_, b_ in zip(cur, old))
        if f == "isstr":
            return isinstance(ev(n.args[0], c), str)
        if f == "isint":
            v = ev(n.args[0], c)
            return isinstance(v, int) and not isinstance(v, bool)
        if f == "isnone":
            return ev(n.args[0], c) is None
        if f in ("sval", "ival", "as_ref"):
            return ev(n.args[0], c)
        if f == "truthy":
            return bool(ev(n.args[0], c))
        if f == "joined":
            return "".join(ev(n.args[0], c))
        if f == "nlines":
            return len(ev(n.args[0], c).splitlines())
        if f == "str_of":
            return str(ev(n.args[0], c))
        if f == "dict_key_at":
            return list(ev(n.args[0], c))[ev(n.args[1], c)]
        if f == "cls_is":
            return type(ev(n.args[0], c)).__name__ == n.args[1].value
        if f == "dict_wf":
            return isinstance(ev(n.args[0], c), dict)
        if f == "dict_pos":
            return list(ev(n.args[0], c)).index(ev(n.args[1], c))
        if f == "ghostfn":
            raise NotEvaluable("ghost function (existential witness)")
        if f == "was":
            o = ev(n.args[0], c)
            twin = c.memo.get(id(o)) if getattr(c, "memo", None) else None
            if twin is None:
                raise NotEvaluable("was(): object has no pre-state copy")
            return getattr(twin, n.args[1].value)
        if f == "same_class":
            return type(ev(n.args[0], c)) is type(ev(n.args[1], c))
        if f == "same":
            return canon(ev(n.args[0], c), c) is canon(ev(n.args[1], c), c)
        if f in reg["preds"]:
            return call_pred(reg["preds"][f], [ev(a, c) for a in n.args], c)
        if f in reg["recs"]:
            return call_pred(reg["recs"][f][0], [ev(a, c) for a in n.args], c)
        if f == "len":
            return len(ev(n.args[0], c))
        if f == "max":
            return max(*[ev(a, c) for a in n.args])
        if f == "min":
            return min(*[ev(a, c) for a in n.args])
        if f == "abs":
            return abs(ev(n.args[0], c))
        if f == "isinstance":
            v = ev(n.args[0], c)
            k = ev(n.args[1], c)
            return isinstance(v, k)
        if f == "int":
            return int(ev(n.args[0], c))
        if f == "str":
            return str(ev(n.args[0], c))
        if f == "bool":
            return bool(ev(n.args[0], c))
        if f in NATIVE_SPEC_FUNCS:
            return NATIVE_SPEC_FUNCS[f](*[ev(a, c) for a in n.args])
        raise NotEvaluable(f"call {f}")
    if isinstance(n.func, ast.Attribute):
        o = ev(n.func.value, c)
        args = [ev(a, c) for a in n.args]
        kw = {k.arg: ev(k.value, c) for k in n.keywords}
        if isinstance(o, (str, list, dict, tuple)):
            return getattr(o, n.func.attr)(*args, **kw)
        raise NotEvaluable("method call on an object")
    raise NotEvaluable("call")


NATIVE_SPEC_FUNCS = {}


def snapshot_args(args):
    """deep copy of the argument values keeping sharing, with the id maps old() and same() need"""
    memo = {}
    cp = copy.deepcopy(args, memo)
    return cp, memo
