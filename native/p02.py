"""C02 bounded stand-in: documents derived from the dialect grammar are split into exactly the blocks written.

The expected blocks come from the derivation (native/grammar.py: `truth`), never from the splitter."""
import multiprocessing
import os

from bibtexparser import parse_string
from bibtexparser.model import (Entry, ExplicitComment, ImplicitComment, Preamble, String)
from bibtexparser.splitter import Splitter

from native import grammar as G

F4 = "F4-brace-in-quotes"

RULE = ("derivations of the dialect grammar of DESIGN.md section 6 (entries incl. '@a{k}' / '@a{k,}', @string, @preamble, @comment in any "
        "letter case, free-text comments; whitespace from {space, tab, LF, CRLF} at every ws/hs slot; nested braces, quoted values with "
        "braces and with '\"' inside braces, '#' concatenations, escaped \\{ \\} \\\", '@' inside values, optional trailing commas, empty values), "
        "all side conditions enforced by the recogniser grammar.problems (no '@word{' except at block starts, no value ending in a backslash, "
        "no backslash before a newline or another backslash, names without marks/whitespace/#/backslash, free text non-blank and not adjacent); "
        "entry keys, string keys and per-entry field keys pairwise distinct (repeated keys are C09's domain). "
        "Part 1: bounded-exhaustive over small alphabets by weighted token cost, smallest first (cost table grammar.COST: entry 1, other @blocks 2, "
        "free text 1+atoms, key comma 1, piece 1, atom 1-2, non-empty whitespace slot 2, case variant 2, trailing comma 1; whitespace units "
        "space/LF/CRLF, hs units space/tab, value atoms a , = @ LF \\{ \\} \\\" \" and nested groups, 1..3 pieces per value, any number of fields/blocks). "
        "Part 2: seeded random derivations of growing size over rich alphabets. "
        "Each case runs Splitter(text).split() and parse_string(text, parse_stack=[]) and compares every block (class, lower-cased type, key, "
        "field keys/values in order, string key/value, preamble/comment text up to surrounding whitespace, then start line) with the derivation's truth. "
        "distinct = distinct derivation; non-trivial = at least one block. A violation is classified F4-brace-in-quotes only when the derivation "
        "has an entry field with a quoted piece containing '\"' inside braces.")
BOUND = {"quick": "all derivations of weighted token cost <= 7 (204,435) + 3,000 random derivations (size 1..6)",
         "thorough": "all derivations of weighted token cost <= 8 (1,867,380; cost 9 would be 18.2 million) + 100,000 random derivations (size 1..8)"}

_KIND = {"entry": Entry, "string": String, "preamble": Preamble, "ecomment": ExplicitComment, "icomment": ImplicitComment}


def _short(b):
    n = type(b).__name__
    if isinstance(b, Entry):
        return [n, b.entry_type, b.key, [[f.key, f.value] for f in b.fields], b.start_line]
    if isinstance(b, String):
        return [n, b.key, b.value, b.start_line]
    if isinstance(b, Preamble):
        return [n, b.value, b.start_line]
    if isinstance(b, (ExplicitComment, ImplicitComment)):
        return [n, b.comment, b.start_line]
    return [n, getattr(b, "raw", None), b.start_line]


def _strip(x):
    return x.strip() if isinstance(x, str) else x


def compare(blocks, exp):
    """First difference between the library's blocks and the derivation's truth, or None."""
    if len(blocks) != len(exp):
        return {"what": "number of blocks differs from the number of source blocks", "expected": len(exp),
                "observed": [len(blocks), [_short(b) for b in blocks][:6]]}
    for i, (b, e) in enumerate(zip(blocks, exp)):
        if type(b) is not _KIND[e["t"]]:
            return {"what": "block %d has the wrong class" % i, "expected": e, "observed": _short(b)}
        if e["t"] == "entry":
            obs = {"type": b.entry_type, "key": b.key, "fields": [[f.key, _strip(f.value)] for f in b.fields]}
            want = {"type": e["type"], "key": e["key"], "fields": e["fields"]}
        elif e["t"] == "string":
            obs = {"key": b.key, "value": _strip(b.value)}
            want = {"key": e["key"], "value": e["value"]}
        elif e["t"] == "preamble":
            obs, want = {"value": _strip(b.value)}, {"value": e["value"]}
        else:
            obs, want = {"comment": _strip(b.comment)}, {"comment": e["comment"]}
        if obs != want:
            return {"what": "block %d (%s) content differs from the source" % (i, e["t"]), "expected": want, "observed": obs}
    for i, (b, e) in enumerate(zip(blocks, exp)):
        if b.start_line != e["line"]:
            return {"what": "block %d (%s) start_line is not the line of its first character" % (i, e["t"]), "expected": e["line"],
                    "observed": b.start_line}
    return None


def _check(spec):
    d = spec["doc"]
    why = G.problems(d)
    if why:
        raise ValueError("spec is not a derivation of the dialect grammar: " + why)
    text = G.render(d)
    exp = G.truth(d)
    for api in ("Splitter(text).split()", "parse_string(text, parse_stack=[])"):
        try:
            lib = Splitter(text).split() if api.startswith("Splitter") else parse_string(text, parse_stack=[])
            blocks = list(lib.blocks)
        except Exception as ex:      # the property forbids any failure on grammar-derived text
            v = {"what": api + " raised", "expected": "a library", "observed": repr(ex)}
        else:
            v = compare(blocks, exp)
            if v:
                v["what"] = api + ": " + v["what"]
        if v:
            v["text"] = text
            v["finding_key"] = F4 if G.has_f4_trigger(d) else None
            return v
    return None


_PRE = [None, None]      # [spec object, verdict] of a case already evaluated in a worker process (see _precomputed)


def check_blocks(spec):
    if _PRE[0] is spec:
        _PRE[0] = None
        return _PRE[1]
    return _check(spec)


CHECKS = {"C02.blocks": check_blocks}


# ---- the exhaustive part is evaluated in forked workers (each enumerates the same deterministic stream and checks
# ---- the indices i % n == w); the parent replays the stream in order and attaches the verdicts, so nothing depends on scheduling.

def _shard(args):
    budget, w, n = args
    out = {}
    for i, d in enumerate(G.enumerate_small(budget)):
        if i % n == w:
            v = _check({"doc": d})
            if v:
                out[i] = v
    return out


def _precomputed(budget):
    n = max(1, min(16, os.cpu_count() or 1))
    ctx = multiprocessing.get_context("fork")
    with ctx.Pool(n) as pool:
        parts = pool.map(_shard, [(budget, w, n) for w in range(n)])
    verdicts = {}
    for p in parts:
        verdicts.update(p)
    for i, d in enumerate(G.enumerate_small(budget)):
        spec = {"doc": d}
        _PRE[0], _PRE[1] = spec, verdicts.get(i)
        yield spec


def generate(tier, rng):
    budget, nrand, maxsize = (7, 3000, 6) if tier == "quick" else (8, 100000, 8)
    for spec in _precomputed(budget):
        yield "C02.blocks", spec, bool(spec["doc"])
    for i in range(nrand):
        size = 1 + (i * maxsize) // nrand
        d = G.random_derivation(rng, size)
        yield "C02.blocks", {"doc": d}, bool(d)


def f4_witness():
    """Verdict on the hand-confirmed F4 witness `@a{k, t = "x{"}y"}` (None once the defect is repaired; not wired into run.py's
    stale check because F4 is recorded as fixed, f7f2d95)."""
    d = [{"t": "entry", "type": "a", "key": "k", "w2": " ", "fields": [{"key": "t", "e1": " ", "e2": " ", "pieces": [["quote", 'x{"}y']], "comma": False}]}]
    assert G.render(d) == '@a{k, t = "x{"}y"}'
    return _check({"doc": d})
