"""C07 bounded stand-in: writing and copy-mode middleware never mutate or alias their input.

Sections
  C07.write    write_string(lib[, bibtex_format]) leaves library and format as they were (structural snapshot AND the same
               objects in the same places) and writing twice gives the same text
  C07.single   every shipped middleware class x option set, constructed in copy mode, applied once
  C07.stack    type-compatible stacks of 2..3 copy-mode middlewares applied in sequence; every stage is checked

Oracle (from the statement): after `out = mw.transform(inp)`
  * snapshot(inp) equals the snapshot taken before, and the identity map (path -> object) of inp is unchanged;
  * no *mutable* object (Library, Block, Field, list, dict, set, NameParts, any other object with a __dict__) reachable from
    `out` is reachable from `inp`.  Exception objects and immutable values may be shared.
A middleware that raises because the library does not have the value types it expects is not a C07 case (skipped); a raise
that comes out of copy.deepcopy itself (the copy mode cannot copy its input) is reported: the property quantifies over
libraries with middleware-error blocks and promises a result for them.
"""
import os
import traceback

import bibtexparser
from bibtexparser import middlewares as M
from bibtexparser.library import Library
from bibtexparser.model import (Entry, ExplicitComment, ImplicitComment, MiddlewareErrorBlock, ParsingFailedBlock, Preamble,
                                String)
from bibtexparser.splitter import Splitter
from native.common import format_from_spec, library_from_spec, rand_library_spec, snapshot

RULE = ("libraries = 16 hand-written documents (empty, plain, @string references, duplicate entry/string keys, duplicate field keys, "
        "aborted blocks, comments/preamble, name lists, an invalid name giving a middleware-error block, months incl. 13, LaTeX, "
        "case-colliding field keys, empty keys) x 4 preparations (split only | default parse | +SeparateCoAuthors | "
        "+SeparateCoAuthors+SplitNameParts) plus random block-spec libraries (all block kinds incl. dup/field-dup/mw-error); "
        "middlewares = every shipped class x option set (46 descriptors) in copy mode; stacks are generated type-compatibly "
        "(SplitNameParts only on name lists, Merge* only after the matching split, enclosing only on plain strings); "
        "non-trivial = the library has a block; distinct = distinct (library, format | stack) spec")
BOUND = {"quick": "write: 64 doc libraries x 12 formats + 1500 random; single: 64 doc libraries x 46 descriptors + 4000 random; "
                  "stack: 15000 random stacks of 2..3",
         "thorough": "write: 64 x 12 + 10000 random; single: 64 x 46 + 30000 random; stack: 150000 random stacks of 2..3"}

# --------------------------------------------------------------------------------------------------------------- documents
DOCS = [
    "",
    "@article{k, title = {T}, year = 1990}",
    "@string{jan = \"January\"}\n@string{s = {Some}}\n@article{a, month = jan, title = s, note = \"x\" # s}\n@book{b, title = s, year = 2001}",
    "@article{dup, a = {1}}\n@book{dup, b = {2}}\n@misc{dup, c = {3}, author = {A B and C D}}",
    "@article{k, a = {1}, a = {2}, B = {3}}",
    "@article{a, b c, d = e}\n@book{x, t = {y}",
    "% comment\n@comment{explicit}\n@preamble{\"pre\" # s}\n@misc{k, t = {v}}\ntrailing text",
    "@book{b, author = {Donald E. Knuth and Leslie Lamport and de la Vall{\\'e}e Poussin, Charles}, editor = {Smith, Jr, John}, title = {X}}",
    "@article{k, author = {A, B, C, D}, title = {t}}",
    "@string{s = {1}}\n@string{s = {2}}\n@article{k, t = s}",
    "@article{m1, month = 13}\n@article{m2, month = {March}}\n@article{m3, month = 3}\n@article{m4, month = jan, Month = FEB}\n@article{m5, month = \"dec\"}",
    "@article{l, title = {Caf\\'e {\\\"u}ber $x^2$ http://a.b/c}, author = {M{\\\"u}ller, Hans and Åke Öberg}, note = {100\\% é}}",
    "@article{c, Title = {A}, title = {B}, AUTHOR = {X and Y}, year = 2000, Year = {2001}}",
    "@string{a = \"x\"}\n% c1\n@article{z, title = a, author = {Last, First}}\n@comment{c2}\n@article{z, title = {again}}\n@preamble{p}\n"
    "@article{broken, x\n@misc{y, author = {A and B, C, D, E}, editor = {Only One}, year = 1999, month = 7}\nend",
    "@article{, a = {1}}\n@misc{k2,}\n@misc{k3, empty = {}, translator = {}}",
    "@inproceedings{long, author = {A B and C D and E F and others}, editor = {von Last, Jr, First and {Braced Name}}, "
    "translator = {X Y}, pages = {1--2}, volume = 3, number = \"4\"}\n@article{long, dupkey = {1}}",
]
PREPS = ["split", "parsed", "coauthors", "names"]
STATE_OF_PREP = {"split": "str", "parsed": "str", "coauthors": "list", "names": "parts"}


def build_library(ls):
    if "spec" in ls:
        return library_from_spec(ls["spec"])
    text, prep = DOCS[ls["doc"]], ls["prep"]
    if prep == "split":
        return Splitter(text).split()
    if prep == "parsed":
        return bibtexparser.parse_string(text)
    if prep == "coauthors":
        return bibtexparser.parse_string(text, append_middleware=[M.SeparateCoAuthors()])
    if prep == "names":
        return bibtexparser.parse_string(text, append_middleware=[M.SeparateCoAuthors(), M.SplitNameParts()])
    raise ValueError(prep)


# ------------------------------------------------------------------------------------------------------------- middlewares
BLOCK_TYPES = {"String": String, "Preamble": Preamble, "Entry": Entry, "ImplicitComment": ImplicitComment,
               "ExplicitComment": ExplicitComment}


def all_descriptors():
    d = [{"mw": "RemoveEnclosing"}]
    for reuse in (False, True):
        for ints in (False, True):
            for default in ("{", '"'):
                d.append({"mw": "AddEnclosing", "reuse": reuse, "ints": ints, "default": default})
    d += [{"mw": "ResolveStringReferences"}, {"mw": "MonthInt"}, {"mw": "MonthAbbreviation"}, {"mw": "MonthLongString"},
          {"mw": "NormalizeFieldKeys"}, {"mw": "SortFieldsAlphabetically"}]
    for order in ([], ["title"], ["year", "author"], ["Title", "a", "month"]):
        for cs in (False, True):
            d.append({"mw": "SortFieldsCustom", "order": order, "cs": cs})
    d += [{"mw": "SeparateCoAuthors"}, {"mw": "MergeCoAuthors"}, {"mw": "SplitNameParts"},
          {"mw": "MergeNameParts", "style": "last"}, {"mw": "MergeNameParts", "style": "first"}]
    for km in (None, True, False):
        for eu in (None, False):
            d.append({"mw": "LatexEncoding", "keep_math": km, "enclose_urls": eu})
    for kb in (None, True):
        for km in (None, False):
            d.append({"mw": "LatexDecoding", "keep_braced_groups": kb, "keep_math_mode": km})
    for pres in (True, False):
        for order in (["String", "Preamble", "Entry", "ImplicitComment", "ExplicitComment"], ["Entry"], [],
                      ["ExplicitComment", "Entry", "String"]):
            d.append({"mw": "SortBlocks", "order": order, "preserve": pres})
    return d


DESCRIPTORS = all_descriptors()


def build_middleware(d):
    k = d["mw"]
    cp = dict(allow_inplace_modification=False)
    if k == "RemoveEnclosing":
        return M.RemoveEnclosingMiddleware(**cp)
    if k == "AddEnclosing":
        return M.AddEnclosingMiddleware(reuse_previous_enclosing=d["reuse"], enclose_integers=d["ints"], default_enclosing=d["default"], **cp)
    if k == "ResolveStringReferences":
        return M.ResolveStringReferencesMiddleware(**cp)
    if k == "MonthInt":
        return M.MonthIntMiddleware(**cp)
    if k == "MonthAbbreviation":
        return M.MonthAbbreviationMiddleware(**cp)
    if k == "MonthLongString":
        return M.MonthLongStringMiddleware(**cp)
    if k == "NormalizeFieldKeys":
        return M.NormalizeFieldKeys(**cp)
    if k == "SortFieldsAlphabetically":
        return M.SortFieldsAlphabeticallyMiddleware(**cp)
    if k == "SortFieldsCustom":
        return M.SortFieldsCustomMiddleware(order=tuple(d["order"]), case_sensitive=d["cs"], **cp)
    if k == "SeparateCoAuthors":
        return M.SeparateCoAuthors(**cp)
    if k == "MergeCoAuthors":
        return M.MergeCoAuthors(**cp)
    if k == "SplitNameParts":
        return M.SplitNameParts(**cp)
    if k == "MergeNameParts":
        return M.MergeNameParts(style=d["style"], **cp)
    if k == "LatexEncoding":
        return M.LatexEncodingMiddleware(keep_math=d["keep_math"], enclose_urls=d["enclose_urls"], **cp)
    if k == "LatexDecoding":
        return M.LatexDecodingMiddleware(keep_braced_groups=d["keep_braced_groups"], keep_math_mode=d["keep_math_mode"], **cp)
    if k == "SortBlocks":
        return M.SortBlocksByTypeAndKeyMiddleware(block_type_order=tuple(BLOCK_TYPES[n] for n in d["order"]),
                                                  preserve_comments_on_top=d["preserve"])
    raise ValueError(k)


def next_state(d, state):
    """Value-type state of the name fields after the middleware, or None when the middleware does not fit the state."""
    k = d["mw"]
    if k in ("RemoveEnclosing", "AddEnclosing"):
        return state if state == "str" else None
    if k == "SeparateCoAuthors":
        return "list" if state == "str" else None
    if k == "SplitNameParts":
        return "parts" if state == "list" else None
    if k == "MergeNameParts":
        return "list" if state == "parts" else None
    if k == "MergeCoAuthors":
        return "str" if state in ("list", "str") else None
    return state


# ------------------------------------------------------------------------------------------------------------ object graphs
_ATOMS = (str, int, float, bool, type(None), bytes, complex)


def walk(root):
    """[(path, object)] for every mutable object reachable from root, in a deterministic order.
    Exceptions are leaves that may be shared; tuples/frozensets are traversed but not recorded."""
    out, seen, stack = [], set(), [("$", root)]
    while stack:
        path, o = stack.pop()
        if isinstance(o, _ATOMS) or isinstance(o, BaseException) or isinstance(o, type):
            continue
        if id(o) in seen:
            continue
        seen.add(id(o))
        children = []
        if isinstance(o, (tuple, frozenset)):
            children = [(path + "(%d)" % i, x) for i, x in enumerate(o)]
        elif isinstance(o, list):
            out.append((path, o))
            children = [(path + "[%d]" % i, x) for i, x in enumerate(o)]
        elif isinstance(o, dict):
            out.append((path, o))
            for i, (k, v) in enumerate(o.items()):
                children.append((path + "{key%d}" % i, k))
                children.append((path + "{%r}" % (k,) if isinstance(k, _ATOMS) else path + "{val%d}" % i, v))
        elif isinstance(o, set):
            out.append((path, o))
            children = [(path + "<set>", x) for x in sorted(o, key=repr)]
        elif hasattr(o, "__dict__"):
            out.append((path, o))
            children = [(path + "." + k, v) for k, v in sorted(vars(o).items())]
        else:
            continue
        stack.extend(reversed(children))
    return out


def idmap(graph):
    return [(p, id(o)) for p, o in graph]


def diff_idmap(a, b):
    for x, y in zip(a, b):
        if x != y:
            return "%s -> %s" % (x[0], y[0])
    if len(a) != len(b):
        return "number of reachable mutable objects %d -> %d" % (len(a), len(b))
    return None


def raised_in_deepcopy(e):
    tb = traceback.extract_tb(e.__traceback__)
    return bool(tb) and os.path.basename(tb[-1].filename) in ("copy.py", "copyreg.py")


def holds_invalid_name_error(lib):
    return any(isinstance(b, MiddlewareErrorBlock) and type(b.error).__name__ == "InvalidNameError" for b in lib.blocks)


def copy_failure(what, lib, e):
    key = "N1-invalidnameerror-not-deepcopyable" if holds_invalid_name_error(lib) and "InvalidNameError" in str(e) else None
    return {"what": what + " raised inside copy.deepcopy: the copy mode cannot copy a library obtained by parsing",
            "expected": "a result (the library holds only blocks produced by the parser and shipped middlewares)",
            "observed": repr(e), "finding_key": key}


# ------------------------------------------------------------------------------------------------------------------ checks
def check_write(spec):
    lib = build_library(spec["lib"])
    fmt = format_from_spec(spec["format"])
    kw = {} if fmt is None else {"bibtex_format": fmt}
    snap0, graph0 = snapshot(lib), walk(lib)
    ids0 = idmap(graph0)
    fsnap0 = None if fmt is None else snapshot(fmt)
    texts = []
    for n in (1, 2):
        try:
            texts.append(bibtexparser.write_string(lib, **kw))
        except Exception as e:
            if raised_in_deepcopy(e):
                return copy_failure("write_string", lib, e)
            texts.append(("raised", type(e).__name__))
        if snapshot(lib) != snap0:
            return {"what": "write_string (call %d) modified the library" % n, "expected": snap0, "observed": snapshot(lib)}
        d = diff_idmap(ids0, idmap(walk(lib)))
        if d:
            return {"what": "write_string (call %d) replaced an object of the library" % n, "expected": "same objects in the same places", "observed": d}
        if fmt is not None and snapshot(fmt) != fsnap0:
            return {"what": "write_string (call %d) modified the format" % n, "expected": fsnap0, "observed": snapshot(fmt)}
    if texts[0] != texts[1]:
        return {"what": "writing twice gives different text", "expected": texts[0], "observed": texts[1]}
    return None


def check_stack(spec):
    lib = build_library(spec["lib"])
    for stage, d in enumerate(spec["stack"]):
        mw = build_middleware(d)
        snap0, graph0 = snapshot(lib), walk(lib)
        ids0 = idmap(graph0)
        try:
            out = mw.transform(lib)
        except Exception as e:
            if raised_in_deepcopy(e):
                return copy_failure("stage %d (%s)" % (stage, d["mw"]), lib, e)
            return None            # the middleware does not accept this library: not a C07 case
        where = "stage %d (%s)" % (stage, d["mw"])
        if not isinstance(out, Library):
            return {"what": where + " did not return a Library", "expected": "Library", "observed": type(out).__name__}
        if snapshot(lib) != snap0:
            return {"what": where + " modified its input library", "expected": snap0, "observed": snapshot(lib)}
        graph1 = walk(lib)
        dd = diff_idmap(ids0, idmap(graph1))
        if dd:
            return {"what": where + " replaced an object of its input library", "expected": "same objects in the same places", "observed": dd}
        inp = {id(o): p for p, o in graph1}
        for p, o in walk(out):
            if id(o) in inp:
                return {"what": where + " returned a result sharing a mutable object with its input",
                        "expected": "no shared Library/Block/Field/list/dict/set/NameParts",
                        "observed": "%s at output %s is input %s" % (type(o).__name__, p, inp[id(o)])}
        del graph0
        lib = out
    return None


CHECKS = {"C07.write": check_write, "C07.single": check_stack, "C07.stack": check_stack}

# --------------------------------------------------------------------------------------------------------------- generation
FORMATS = [
    None,
    {"indent": "\t", "value_column": 0, "block_separator": "\n\n", "trailing_comma": False, "parsing_failed_comment": None},
    {"indent": "\t", "value_column": "auto", "block_separator": "\n\n", "trailing_comma": False, "parsing_failed_comment": None},
    {"indent": "  ", "value_column": "auto", "block_separator": "\n", "trailing_comma": True, "parsing_failed_comment": "% CUSTOM {n}"},
    {"indent": "", "value_column": 5, "block_separator": "", "trailing_comma": True, "parsing_failed_comment": None},
    {"indent": "    ", "value_column": 20, "block_separator": "\n% sep\n", "trailing_comma": False, "parsing_failed_comment": "%% {n} lines failed"},
    {"indent": " ", "value_column": 1, "block_separator": "\n\n\n", "trailing_comma": False, "parsing_failed_comment": None},
    {"indent": "\t", "value_column": 40, "block_separator": "\n\n", "trailing_comma": True, "parsing_failed_comment": None},
    {"indent": "\t\t", "value_column": 3, "block_separator": "\n", "trailing_comma": False, "parsing_failed_comment": ""},
    {"indent": " ", "value_column": "auto", "block_separator": "", "trailing_comma": False, "parsing_failed_comment": None},
    {"indent": "x", "value_column": 12, "block_separator": "\n\n", "trailing_comma": True, "parsing_failed_comment": "failed"},
    {"indent": "\t", "value_column": "auto", "block_separator": "\n\n", "trailing_comma": True, "parsing_failed_comment": "% {n}"},
]


def rand_format(rng):
    return {"indent": rng.choice(["", " ", "\t", "    "]), "value_column": rng.choice(list(range(0, 30)) + ["auto"] * 10),
            "block_separator": rng.choice(["\n", "\n\n", "", "\n% sep\n"]), "trailing_comma": rng.random() < 0.5,
            "parsing_failed_comment": rng.choice([None, None, "% CUSTOM {n}"])}


def rand_lib(rng):
    """(library spec, state)"""
    if rng.random() < 0.6:
        prep = rng.choice(PREPS)
        return {"doc": rng.randrange(len(DOCS)), "prep": prep}, STATE_OF_PREP[prep]
    return {"spec": rand_library_spec(rng)}, "str"


def nonempty(ls):
    return bool(ls["spec"]) if "spec" in ls else ls["doc"] != 0


def rand_stack(rng, state, n):
    stack = []
    for _ in range(n):
        for _try in range(50):
            d = rng.choice(DESCRIPTORS)
            s = next_state(d, state)
            if s is not None:
                break
        else:
            break
        stack.append(d)
        state = s
    return stack


def generate(tier, rng):
    quick = tier == "quick"
    doc_libs = [({"doc": i, "prep": p}, STATE_OF_PREP[p]) for i in range(len(DOCS)) for p in PREPS]
    # (a) writing
    for ls, _ in doc_libs:
        for f in FORMATS:
            yield "C07.write", {"lib": ls, "format": f}, nonempty(ls)
    for _ in range(1500 if quick else 10000):
        ls = {"spec": rand_library_spec(rng)}
        yield "C07.write", {"lib": ls, "format": rand_format(rng) if rng.random() < 0.8 else None}, nonempty(ls)
    # (b) every middleware x option set, once
    for ls, state in doc_libs:
        for d in DESCRIPTORS:
            yield "C07.single", {"lib": ls, "stack": [d]}, nonempty(ls) and next_state(d, state) is not None
    for _ in range(4000 if quick else 30000):
        ls = {"spec": rand_library_spec(rng)}
        d = rng.choice(DESCRIPTORS)
        yield "C07.single", {"lib": ls, "stack": [d]}, nonempty(ls) and next_state(d, "str") is not None
    # (c) stacks of 2..3
    for i in range(15000 if quick else 150000):
        ls, state = rand_lib(rng)
        stack = rand_stack(rng, state, 2 if i % 3 == 0 else 3)
        yield "C07.stack", {"lib": ls, "stack": stack}, nonempty(ls) and len(stack) >= 2
