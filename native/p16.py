"""C16 bounded stand-in: SortBlocksByTypeAndKeyMiddleware against an independent stable sort written from the statement.

Reference (statement only)
  rank(b)  = position of the exact class of b in the given order; classes not listed (incl. every failed block) = len(order)
  key(b)   = b.key for blocks that have a key (entries, strings, duplicate-key wrappers), "" otherwise
  plain    : stable sort of the blocks by (rank, key)
  preserve : the blocks are cut into groups 'run of comments + the non-comment block below it'; a group is ranked by its
             non-comment block; a trailing run of comments is its own group ranked by (rank of its LAST comment, "");
             stable sort of the groups, internal order kept
  The result holds exactly the input blocks (content compared by structural snapshot; every block of a generated library has a
  distinct start_line, so the expected sequence is unique), the input library is unchanged (snapshot + identity map).
"""
import itertools

from bibtexparser.library import Library
from bibtexparser.middlewares.sorting_blocks import SortBlocksByTypeAndKeyMiddleware
from bibtexparser.model import Entry, ExplicitComment, ImplicitComment, Preamble, String
from native.common import library_from_spec, snapshot

TYPES = {"String": String, "Preamble": Preamble, "Entry": Entry, "ImplicitComment": ImplicitComment, "ExplicitComment": ExplicitComment}
TYPE_NAMES = ["String", "Preamble", "Entry", "ImplicitComment", "ExplicitComment"]
ALL_ORDERS = [list(p) for k in range(6) for p in itertools.permutations(TYPE_NAMES, k)]      # 326 sub-permutations

# the 8-block universe; a library is a sequence of universe indices (repeats of an entry/string index become
# DuplicateBlockKeyBlock wrappers when the library is built); the position in the sequence becomes start_line
UNIVERSE = [
    {"t": "entry", "type": "article", "key": "b", "fields": [["title", "{T}"]]},
    {"t": "entry", "type": "book", "key": "a", "fields": []},
    {"t": "string", "key": "a", "value": "\"v\""},
    {"t": "entry", "type": "misc", "key": "", "fields": [["x", "{1}"]]},
    {"t": "preamble", "value": "p"},
    {"t": "failed", "raw": "@article{broken"},
    {"t": "ecomment", "comment": "c1"},
    {"t": "icomment", "comment": "c2"},
]
# extras used by the random section only
EXTRA = [
    {"t": "string", "key": "b", "value": "{w}"},
    {"t": "string", "key": "", "value": "{e}"},
    {"t": "entry", "type": "article", "key": "B", "fields": []},
    {"t": "entry", "type": "article", "key": "ab", "fields": []},
    {"t": "dupfield", "dups": ["a"], "entry": {"t": "entry", "type": "misc", "key": "a", "fields": [["a", "{1}"], ["a", "{2}"]]}},
    {"t": "mwerror", "block": {"t": "entry", "type": "misc", "key": "b", "fields": [["a", "{1}"]]}},
]
POOL = UNIVERSE + EXTRA

RULE = ("libraries = sequences over an 8-block universe (entries b/a/'' , string a, preamble, failed block, explicit and implicit "
        "comment; a repeated entry/string index yields a duplicate-key wrapper; the position is the start_line so all blocks are "
        "distinguishable) x sub-permutations of the five block types (326) x both comment modes; random libraries additionally use "
        "6 more blocks (string b/'' , entries B/ab, duplicate-field block, middleware-error block); "
        "non-trivial = at least 2 blocks; distinct = distinct (sequence, order, mode)")
BOUND = {"quick": "all sequences of length <= 3 (585) x 20 orders (4 fixed + 16 sampled per sequence) x 2 modes; 8 fixed libraries x all 326 "
                  "orders x 2 modes; 40000 random (length 4..8, 14-block pool, random order and mode)",
         "thorough": "all sequences of length <= 4 (4681) x 24 orders x 2 modes; 8 fixed libraries x 326 x 2; 300000 random (length 4..10)"}


def _placed(s, pos):
    s = dict(s, line=pos, raw="@raw%d" % pos)
    for inner in ("entry", "block"):          # wrappers take line/raw from the block they wrap
        if inner in s:
            s[inner] = dict(s[inner], line=pos, raw="@raw%d" % pos)
    return s


def build(seq):
    return library_from_spec([_placed(POOL[i], pos) for pos, i in enumerate(seq)])


# --------------------------------------------------------------------------------------------- reference (statement only)
def stable_insertion_sort(items, keyf):
    out = []
    for it in items:
        k = keyf(it)
        j = len(out)
        while j > 0 and keyf(out[j - 1]) > k:     # strictly greater: equal elements keep their source order
            j -= 1
        out.insert(j, it)
    return out


def rank(cls, order):
    for i, c in enumerate(order):
        if c is cls:
            return i
    return len(order)


def block_key(b):
    return b.key if hasattr(b, "key") else ""


def is_comment(b):
    return isinstance(b, (ExplicitComment, ImplicitComment))


def ref_sort(blocks, order, preserve):
    if not preserve:
        return stable_insertion_sort(blocks, lambda b: (rank(type(b), order), block_key(b)))
    groups, run = [], []
    for b in blocks:
        run.append(b)
        if not is_comment(b):
            groups.append((run, (rank(type(b), order), block_key(b))))
            run = []
    if run:
        groups.append((run, (rank(type(run[-1]), order), "")))
    groups = stable_insertion_sort(groups, lambda g: g[1])
    return [b for g in groups for b in g[0]]


def ident(lib):
    """identity map of the block list and what hangs off the blocks (one level of fields)"""
    out = [id(lib._blocks), id(lib._entries_by_key), id(lib._strings_by_key)]
    for b in lib._blocks:
        out.append(id(b))
        out.append(id(b._parser_metadata))
        if isinstance(b, Entry):
            out.append(id(b._fields))
            out.extend(id(f) for f in b._fields)
    return out


def check_sort(spec):
    lib = build(spec["seq"])
    order = tuple(TYPES[n] for n in spec["order"])
    preserve = spec["preserve"]
    snap0, ids0 = snapshot(lib), ident(lib)
    in_snaps = [snapshot(b) for b in lib.blocks]
    exp = [snapshot(b) for b in ref_sort(list(lib.blocks), order, preserve)]
    try:
        out = SortBlocksByTypeAndKeyMiddleware(block_type_order=order, preserve_comments_on_top=preserve).transform(lib)
    except Exception as e:
        return {"what": "sorting raised", "expected": "a sorted library", "observed": repr(e)}
    if not isinstance(out, Library):
        return {"what": "result is not a Library", "expected": "Library", "observed": type(out).__name__}
    if out is lib:
        return {"what": "the input library itself was returned", "expected": "a new library", "observed": "same object"}
    if snapshot(lib) != snap0 or ident(lib) != ids0:
        return {"what": "the input library was changed", "expected": in_snaps, "observed": [snapshot(b) for b in lib.blocks]}
    got = [snapshot(b) for b in out.blocks]
    if got != exp:
        short = lambda ss: [(s[0], s[1].get("_key", ""), s[1]["_start_line_in_file"]) for s in ss]
        if sorted(map(repr, got)) != sorted(map(repr, in_snaps)):
            what = "the sorted library does not hold exactly the input blocks (lost, duplicated or altered)"
        else:
            what = "blocks are not in (type rank, key, source order) order" + (" with comment runs attached" if preserve else "")
        return {"what": what, "expected": short(exp), "observed": short(got)}
    return None


CHECKS = {"C16.sort": check_sort}

FIXED_ORDERS = [TYPE_NAMES, [], ["Entry"], ["ExplicitComment", "ImplicitComment", "Entry", "String"]]
FIXED_LIBS = [
    [6, 7, 0, 7, 1, 2, 6, 6],          # leading run, inner run, trailing run of comments
    [0, 0, 1, 2, 2, 3, 3, 5],          # duplicates of entries and strings, empty keys, failed
    [7, 5, 6, 4, 0, 6, 1, 7],          # comments above failed / preamble
    [3, 2, 1, 0, 4, 5, 6, 7],          # one of each, reverse-ish
    [6, 7, 6, 7],                      # comments only
    [1, 2, 1, 2, 0, 7, 0, 6],          # duplicate wrapper may overtake its original
    [5, 4, 5, 4, 3, 7, 3, 6],
    [0, 6, 0, 7, 2, 6, 2, 7],
]


def generate(tier, rng):
    quick = tier == "quick"
    maxlen, nsample = (3, 16) if quick else (4, 20)
    for n in range(maxlen + 1):
        for seq in itertools.product(range(len(UNIVERSE)), repeat=n):
            orders = FIXED_ORDERS + rng.sample(ALL_ORDERS, nsample)
            for o in orders:
                for pres in (False, True):
                    yield "C16.sort", {"seq": list(seq), "order": o, "preserve": pres}, n >= 2
    for seq in FIXED_LIBS:
        for o in ALL_ORDERS:
            for pres in (False, True):
                yield "C16.sort", {"seq": seq, "order": o, "preserve": pres}, True
    hi = 8 if quick else 10
    for _ in range(40000 if quick else 300000):
        n = rng.randint(4, hi)
        seq = [rng.randrange(len(POOL)) if rng.random() < 0.5 else rng.randrange(len(UNIVERSE)) for _ in range(n)]
        yield "C16.sort", {"seq": seq, "order": rng.choice(ALL_ORDERS), "preserve": rng.random() < 0.5}, True
