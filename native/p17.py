"""C17 bounded stand-in: field sorting and field-key normalisation against oracles written from the statement.

Sections
  C17.order   SortFieldsCustomMiddleware(order, case_sensitive) raises ValueError iff the order holds a duplicate
              (after case folding when case-insensitive, exact when case-sensitive)
  C17.alpha   SortFieldsAlphabeticallyMiddleware: the entry's fields, each once, in key order (Python str order), ties in source order
  C17.custom  SortFieldsCustomMiddleware: listed keys first in listed order (case-insensitively unless case_sensitive), rest after
              them in source order, ties in source order
  C17.norm    NormalizeFieldKeys: keys lower-case and unique, value of the LAST occurrence, order of FIRST occurrences, no value changed
  all three: in-place mode returns the very Field / value objects of the entry, copy mode equal copies and an untouched input;
  entry type, key, start line, raw and all other blocks untouched; applying twice == applying once.
"""
import itertools

from bibtexparser.library import Library
from bibtexparser.middlewares import NormalizeFieldKeys, SortFieldsAlphabeticallyMiddleware, SortFieldsCustomMiddleware
from bibtexparser.model import Entry, ExplicitComment, Field, ImplicitComment, Preamble, String
from bibtexparser.exceptions import BlockAbortedException
from bibtexparser.model import ParsingFailedBlock
from native.common import snapshot

POOL = ["a", "A", "b", "B", "ab", "Ab", "c"]
VALUE_KINDS = ["str", "mixed"]

RULE = ("entries whose field keys are sequences over the pool a A b B ab Ab c (every case-collision pattern), values distinct per "
        "position (strings, in 'mixed' cases also ints / lists / None), placed in a library between a string, a preamble, comments and a "
        "failed block; custom orders = sequences over the same pool (with repeats, so invalid orders are included) x case_sensitive; "
        "every case in in-place and in copy mode; non-trivial = the entry has >= 2 fields (order: the order has >= 2 items); "
        "distinct = distinct spec")
BOUND = {"quick": "order: all 400 orders of length <= 3 x 2; alpha, norm: all 19608 key sequences of length <= 5 (copy mode for length <= 3 "
                  "and a sample) ; custom: all duplicate-free orders of length <= 2 (57 x 2 modes) x all 400 key sequences of length <= 3 + 6000 random "
                  "(orders <= 3, 4..5 fields)",
         "thorough": "order: same; alpha, norm: all key sequences of length <= 6 + 20000 random of length 7..8; custom: all duplicate-free orders of "
                     "length <= 3 (400 x 2 modes) x all 400 key sequences of length <= 3 + 100000 random (orders <= 3, 4..8 fields)"}


# ------------------------------------------------------------------------------------------------------------------ inputs
def field_value(i, kind):
    if kind == "mixed":
        return ["v%d" % i, i, ["x%d" % i], None, "{V%d}" % i][i % 5]
    return "v%d" % i


def build(spec):
    keys = spec["keys"]
    kind = spec.get("values", "str")
    entry = Entry("article", "Key1", [Field(k, field_value(i, kind), start_line=i + 1) for i, k in enumerate(keys)], start_line=3, raw="@article{raw}")
    others = [String("s", "{sv}", 0, "@string{s = {sv}}"), ImplicitComment("free", 1, "free"), Preamble("p", 2, "@preamble{p}"),
              ExplicitComment("c", 20, "@comment{c}"), ParsingFailedBlock(BlockAbortedException("boom", 3), 21, "@broken{")]
    lib = Library(others[:3] + [entry] + others[3:])
    return lib, entry


def stable_sort(items, keyf):
    out = []
    for it in items:
        k = keyf(it)
        j = len(out)
        while j > 0 and keyf(out[j - 1]) > k:
            j -= 1
        out.insert(j, it)
    return out


def order_has_duplicates(order, cs):
    folded = list(order) if cs else [o.lower() for o in order]
    return any(folded[i] == folded[j] for i in range(len(folded)) for j in range(i))


# reference results: lists of source positions (alpha/custom) resp. (key, source position of the value) pairs (norm)
def ref_alpha(keys):
    return stable_sort(list(range(len(keys))), lambda i: keys[i])


def ref_custom(keys, order, cs):
    folded = list(order) if cs else [o.lower() for o in order]

    def r(i):
        k = keys[i] if cs else keys[i].lower()
        return folded.index(k) if k in folded else len(folded)
    return stable_sort(list(range(len(keys))), r)


def ref_norm(keys):
    first, last = [], {}
    for i, k in enumerate(keys):
        lk = k.lower()
        if lk not in last:
            first.append(lk)
        last[lk] = i
    return [(lk, last[lk]) for lk in first]


def make(spec):
    ip = spec["inplace"]
    if spec["mw"] == "alpha":
        return SortFieldsAlphabeticallyMiddleware(allow_inplace_modification=ip)
    if spec["mw"] == "custom":
        return SortFieldsCustomMiddleware(order=tuple(spec["order"]), case_sensitive=spec["cs"], allow_inplace_modification=ip)
    return NormalizeFieldKeys(allow_inplace_modification=ip)


# ------------------------------------------------------------------------------------------------------------------ checks
def check_order(spec):
    exp = order_has_duplicates(spec["order"], spec["cs"])
    try:
        SortFieldsCustomMiddleware(order=tuple(spec["order"]), case_sensitive=spec["cs"])
        got = None
    except ValueError:
        got = "ValueError"
    except Exception as e:
        got = repr(e)
    if got != ("ValueError" if exp else None):
        return {"what": "order validation", "expected": "ValueError" if exp else "accepted", "observed": got or "accepted"}
    return None


def check_fields(spec):
    lib, entry = build(spec)
    keys, ip = spec["keys"], spec["inplace"]
    src_fields = list(entry.fields)
    src_values = [f.value for f in src_fields]
    src_pairs = [(f.key, snapshot(f.value), f.start_line) for f in src_fields]
    other_snaps = [snapshot(b) for b in lib.blocks if b is not entry]
    lib_snap = snapshot(lib)
    mw = make(spec)
    # expected (key, source position) list
    if spec["mw"] == "alpha":
        exp = [(keys[i], i) for i in ref_alpha(keys)]
    elif spec["mw"] == "custom":
        exp = [(keys[i], i) for i in ref_custom(keys, spec["order"], spec["cs"])]
    else:
        exp = ref_norm(keys)
    try:
        out = mw.transform(lib)
    except Exception as e:
        return {"what": "transform raised", "expected": exp, "observed": repr(e)}
    if not isinstance(out, Library) or len(out.blocks) != len(lib_snap[1]) - 1:
        return {"what": "result is not a library with the same number of blocks", "expected": len(lib_snap[1]) - 1, "observed": repr(out)}
    res = out.blocks[3]
    if type(res) is not Entry:
        return {"what": "the entry is no longer an Entry at its position", "expected": "Entry", "observed": type(res).__name__}
    # other blocks untouched, same positions
    if [snapshot(b) for i, b in enumerate(out.blocks) if i != 3] != other_snaps:
        return {"what": "other blocks changed", "expected": other_snaps, "observed": [snapshot(b) for i, b in enumerate(out.blocks) if i != 3]}
    if (res.entry_type, res.key, res.start_line, res.raw) != ("article", "Key1", 3, "@article{raw}"):
        return {"what": "entry type / key / line / raw changed", "expected": ("article", "Key1", 3, "@article{raw}"),
                "observed": (res.entry_type, res.key, res.start_line, res.raw)}
    got = [(f.key, snapshot(f.value)) for f in res.fields]
    want = [(k, snapshot(src_values[i])) for k, i in exp]
    if got != want:
        return {"what": {"alpha": "fields not in stable key order", "custom": "fields not in (listed order, rest in source order)",
                         "norm": "normalised fields differ (lower-case unique keys, last value, first-occurrence order)"}[spec["mw"]],
                "expected": want, "observed": got}
    if ip:
        # the very objects of the entry: values always, Field objects each once (for norm: the surviving ones)
        if res is not entry:
            return {"what": "in-place mode returned another entry object", "expected": "same Entry", "observed": "copy"}
        if any(f.value is not src_values[i] for f, (_, i) in zip(res.fields, exp)):
            return {"what": "a value object was replaced", "expected": "the entry's own value objects", "observed": got}
        ids = [id(f) for f in res.fields]
        if len(set(ids)) != len(ids) or any(i not in {id(f) for f in src_fields} for i in ids):
            return {"what": "result fields are not the entry's Field objects, each once", "expected": "the entry's Field objects", "observed": got}
        if spec["mw"] != "norm" and [id(f) for f in res.fields] != [id(src_fields[i]) for _, i in exp]:
            return {"what": "result fields are not the entry's Field objects in the expected order", "expected": exp, "observed": got}
    else:
        if res is entry or any(f is g for f in res.fields for g in src_fields):
            return {"what": "copy mode returned the input's own objects", "expected": "copies", "observed": "shared"}
        if snapshot(lib) != lib_snap or [id(f) for f in entry.fields] != [id(f) for f in src_fields] \
                or [(f.key, snapshot(f.value), f.start_line) for f in entry.fields] != src_pairs:
            return {"what": "copy mode changed its input", "expected": src_pairs, "observed": [(f.key, snapshot(f.value), f.start_line) for f in entry.fields]}
        if spec["mw"] != "norm":
            # equal copies: start_line travels with the field
            gl = [f.start_line for f in res.fields]
            if gl != [i + 1 for _, i in exp]:
                return {"what": "copied fields are not equal copies of the source fields (start_line)", "expected": [i + 1 for _, i in exp], "observed": gl}
    # idempotence: applying twice == applying once
    once = snapshot(out)
    try:
        twice = make(spec).transform(out)
    except Exception as e:
        return {"what": "second application raised", "expected": "same as once", "observed": repr(e)}
    if snapshot(twice) != once:
        return {"what": "not idempotent", "expected": got, "observed": [(f.key, snapshot(f.value)) for f in twice.blocks[3].fields]
                if len(twice.blocks) > 3 and isinstance(twice.blocks[3], Entry) else repr(twice.blocks)}
    return None


CHECKS = {"C17.order": check_order, "C17.alpha": check_fields, "C17.custom": check_fields, "C17.norm": check_fields}


# --------------------------------------------------------------------------------------------------------------- generation
def seqs(maxlen):
    for n in range(maxlen + 1):
        for s in itertools.product(POOL, repeat=n):
            yield list(s)


def generate(tier, rng):
    quick = tier == "quick"
    for order in seqs(3):
        for cs in (False, True):
            yield "C17.order", {"order": order, "cs": cs}, len(order) >= 2
    # alpha / norm: every collision pattern
    for keys in seqs(5 if quick else 6):
        n = len(keys)
        for mw in ("alpha", "norm"):
            yield "C17." + mw, {"mw": mw, "keys": keys, "inplace": True}, n >= 2
            if n <= 3 or rng.random() < (0.1 if quick else 0.25):
                yield "C17." + mw, {"mw": mw, "keys": keys, "inplace": False, "values": "mixed" if n % 2 else "str"}, n >= 2
    if not quick:
        for _ in range(20000):
            keys = [rng.choice(POOL) for _ in range(rng.randint(7, 8))]
            mw = rng.choice(["alpha", "norm"])
            yield "C17." + mw, {"mw": mw, "keys": keys, "inplace": rng.random() < 0.5, "values": rng.choice(VALUE_KINDS)}, True
    # custom
    for order in seqs(2 if quick else 3):
        for cs in (False, True):
            if order_has_duplicates(order, cs):
                continue
            for keys in seqs(3):
                yield "C17.custom", {"mw": "custom", "keys": keys, "order": order, "cs": cs, "inplace": (len(keys) + len(order)) % 2 == 0}, len(keys) >= 2
    hi = 5 if quick else 8
    for _ in range(6000 if quick else 100000):
        order = [rng.choice(POOL) for _ in range(rng.randint(0, 3))]
        cs = rng.random() < 0.5
        if order_has_duplicates(order, cs):
            continue
        keys = [rng.choice(POOL) for _ in range(rng.randint(4, hi))]
        yield "C17.custom", {"mw": "custom", "keys": keys, "order": order, "cs": cs, "inplace": rng.random() < 0.5, "values": rng.choice(VALUE_KINDS)}, True
