"""Token-sequence enumeration over the splitter's character classes (shared by p01 / p03 / p04).

`scan(fn, alphabet, maxlen)` enumerates every token sequence up to `maxlen` tokens, smallest first (by length, then in
the alphabet's order), evaluates `fn(text)` on each one and yields `(text, fn(text))` in that fixed order.  Large
levels are evaluated by a fork pool (<= 16 processes); the work is cut into chunks by token prefix and the chunks are
consumed in order (`imap`), so the yielded stream does not depend on scheduling.  `fn` must return something small and
picklable (None for "fine", a short string naming the verdict otherwise): the caller recomputes the full violation in
the parent only for the few cases it wants to show.
"""
import itertools
import multiprocessing
import os

# the splitter's character classes: the six marks, backslash (escape of a mark), block starts, plain text, blanks
ALPHABET = ["{", "}", "\"", ",", "=", "\n", "\\", "@a", "@comment", "@string", "@preamble", "x", " ", "\t", "#", "\r\n",
            "\\\n", "k", "1"]

NPROC = min(16, os.cpu_count() or 1)
_SUFFIX = 4          # at most this many tokens are enumerated inside one chunk (alphabet**k texts per task)
_JOB = None          # (fn, alphabet, suffix_len), inherited by the forked workers


def count(alphabet, maxlen, minlen=0):
    return sum(len(alphabet) ** n for n in range(minlen, maxlen + 1))


def seqs(alphabet, length, prefix=""):
    """All sequences of exactly `length` tokens, in the alphabet's order, as texts."""
    if length == 0:
        yield prefix
        return
    for t in itertools.product(alphabet, repeat=length):
        yield prefix + "".join(t)


def _task(prefix):
    fn, alphabet, k = _JOB
    out = []
    for i, text in enumerate(seqs(alphabet, k, prefix)):
        r = fn(text)
        if r is not None:
            out.append((i, r))
    return out


def scan(fn, alphabet, maxlen, minlen=0, nproc=NPROC):
    """Yield (text, fn(text)) for every token sequence of minlen..maxlen tokens, smallest first."""
    global _JOB
    for length in range(minlen, maxlen + 1):
        if nproc <= 1 or len(alphabet) ** length < 20000:
            for text in seqs(alphabet, length):
                yield text, fn(text)
            continue
        k = min(_SUFFIX, length - 1)       # chunk = all k-token extensions of one prefix; keep >= 64 chunks when possible
        while k > 1 and len(alphabet) ** (length - k) < 64:
            k -= 1
        _JOB = (fn, alphabet, k)
        prefixes = list(seqs(alphabet, length - k))
        pool = multiprocessing.get_context("fork").Pool(min(nproc, len(prefixes)))
        try:
            for prefix, found in zip(prefixes, pool.imap(_task, prefixes, chunksize=1)):
                found = dict(found)
                if not found:
                    for text in seqs(alphabet, k, prefix):
                        yield text, None
                else:
                    for i, text in enumerate(seqs(alphabet, k, prefix)):
                        yield text, found.get(i)
        finally:
            pool.terminate()
            pool.join()
            _JOB = None


def scan_batches(fn, alphabet, length, k, nproc=NPROC):
    """All sequences of exactly `length` tokens, cut into batches "prefix of length-k tokens + every k-token extension".
    Yields (prefix_text, [(index_in_batch, fn(text)), ...] for the texts where fn(text) is not None), in prefix order.
    `batch_texts(alphabet, k, prefix)` lists a batch's texts in index order."""
    global _JOB
    _JOB = (fn, alphabet, k)
    prefixes = list(seqs(alphabet, length - k))
    if nproc <= 1:
        for prefix in prefixes:
            yield prefix, _task(prefix)
        return
    pool = multiprocessing.get_context("fork").Pool(min(nproc, len(prefixes)))
    try:
        for prefix, found in zip(prefixes, pool.imap(_task, prefixes, chunksize=4)):
            yield prefix, found
    finally:
        pool.terminate()
        pool.join()
        _JOB = None


def batch_texts(alphabet, k, prefix):
    return list(seqs(alphabet, k, prefix))


def with_timeout(fn, arg, limit_s):
    """Run fn(arg) in a forked child; return ("ok", result) or ("timeout", None) / ("died", exitcode).
    The child is killed when the wall limit passes, so a hang becomes a verdict instead of blocking the run."""
    ctx = multiprocessing.get_context("fork")
    recv, send = ctx.Pipe(duplex=False)

    def child():
        recv.close()
        try:
            send.send(("ok", fn(arg)))
        except BaseException as e:      # an oracle error inside the child: hand it to the parent
            send.send(("error", "%s: %s" % (type(e).__name__, e)))
        finally:
            send.close()

    p = ctx.Process(target=child)
    p.start()
    send.close()
    try:
        if recv.poll(limit_s):
            try:
                return recv.recv()
            except EOFError:
                p.join(5)
                return ("died", p.exitcode)
        return ("timeout", None)
    finally:
        if p.is_alive():
            p.kill()
        p.join()
        recv.close()
