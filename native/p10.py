"""C10 bounded stand-in: enclosing removal / re-adding against oracles written from the property statement.

Sections
  C10.strip    Remove strips exactly one outer pair of the whitespace-stripped value and records which
  C10.reuse    Remove ; Add(reuse_previous_enclosing=True, *) restores the (stripped) original exactly
  C10.reparse  default enclosing of a brace-balanced value, written into an entry and re-parsed, is one field
  C10.intrule  integer values in numeric fields stay unenclosed iff so configured, and nothing raises
"""
import itertools
import re

import bibtexparser
from bibtexparser.library import Library
from bibtexparser.middlewares.enclosing import AddEnclosingMiddleware, RemoveEnclosingMiddleware
from bibtexparser.model import Entry, Field, String

ALPHABET = ["{", "}", '"', ",", "=", "#", "\\", "@", "a", " "]
META = "removed_enclosing"            # property anchor: per-block 'removed_enclosing' metadata
NUMERIC = ["year", "month", "volume", "number", "pages", "edition", "chapter", "issue"]   # property anchor: numeric-field list
NON_NUMERIC = ["title", "author", "a", "years", "x1"]
REUSE_KEYS = ["a", "year", "title", "x1"]

RULE = ("values = every string over the alphabet { } \" , = # \\ @ a space up to a length bound (superset of what the splitter "
        "produces over that alphabet); removal over str values only, non-negative Python ints (bools excluded) only through "
        "AddEnclosing (intrule); strip: each value as an entry field and as an @string value, oracle 'outer pair' = first and last character of the whitespace-stripped value form {..} or \"..\" and it "
        "has >= 2 characters; reuse: for every value v_i the window (v_i, v_i+37, v_i+74, v_i+111) of the enumeration on 4 distinct keys (one numeric) + v_i as the @string, all 4 "
        "(default, enclose_integers) combinations with reuse on; reparse: values restricted as the quantifier says -- unescaped "
        "braces balanced (a delimiter immediately preceded by a backslash is escaped, DESIGN.md section 6), not ending in a "
        "backslash, containing no block start @\\w*[ \\t]*{ (not a splitter-producible value), and for the quote default no "
        "unescaped quote at brace depth 0 -- x both defaults; intrule: 8 numeric + 5 other keys x ASCII digit strings / ints / "
        "non-digit strings x all 8 AddEnclosing option combinations x (fresh block | after Remove), plus the @string value; "
        "non-trivial = the stripped value is non-empty (strip/reuse/reparse) resp. always (intrule); distinct = distinct spec")
BOUND = {"quick": "strip: all 111111 strings of length <= 5; reuse: all windows over length <= 4 x 4 options + 2000 random "
                  "length 5..9; reparse: all admissible values of length <= 5 x 2 defaults; intrule: full matrix",
         "thorough": "strip: all 1111111 strings of length <= 6; reuse: all windows over length <= 5 x 4 options + 20000 random; "
                     "reparse: all admissible values of length <= 6 x 2 defaults; intrule: full matrix"}


# --------------------------------------------------------------------------------------------- oracles (property text only)
def ref_strip(value):
    """(stripped, kind) with kind in '{', '"', None -- None means 'there is no outer pair'."""
    if not isinstance(value, str):
        return value, None
    w = value.strip()
    if len(w) >= 2 and w[0] == "{" and w[-1] == "}":
        return w[1:-1], "{"
    if len(w) >= 2 and w[0] == '"' and w[-1] == '"':
        return w[1:-1], '"'
    return w, None


def kind_ok(recorded, kind):
    """The recorded enclosing names the stripped pair; for 'none' any marker other than the two delimiters."""
    if kind is None:
        return recorded not in ("{", '"')
    return recorded == kind


def unescaped_marks(v):
    for i, c in enumerate(v):
        if c in '{}"' and not (i > 0 and v[i - 1] == "\\"):
            yield c


def brace_balanced(v):
    d = 0
    for c in unescaped_marks(v):
        if c == "{":
            d += 1
        elif c == "}":
            d -= 1
            if d < 0:
                return False
    return d == 0


def bare_quote_outside_braces(v):
    d = 0
    for c in unescaped_marks(v):
        if c == "{":
            d += 1
        elif c == "}":
            d -= 1
        elif d == 0:
            return True
    return False


def quote_inside_braces(v):
    d = 0
    for c in unescaped_marks(v):
        if c == "{":
            d += 1
        elif c == "}":
            d -= 1
        elif d > 0:
            return True
    return False


_BLOCK_START = re.compile(r"@\w*[ \t]*\{")


def admissible_for_reparse(v, default):
    if not brace_balanced(v) or v.endswith("\\") or _BLOCK_START.search(v):
        return False
    if default == '"' and bare_quote_outside_braces(v):
        return False
    return True


def is_ascii_digits(v):
    return isinstance(v, str) and len(v) > 0 and all(c in "0123456789" for c in v)


def is_int(v):
    return isinstance(v, int) and not isinstance(v, bool)


def enclose(default, v):
    return ("{" + str(v) + "}") if default == "{" else ('"' + str(v) + '"')


def short(x):
    r = repr(x)
    return r if len(r) < 300 else r[:300] + "..."


# --------------------------------------------------------------------------------------------- checks
def check_strip(spec):
    v = spec["value"]
    exp_val, exp_kind = ref_strip(v)
    entry = Entry("article", "k", [Field("f", v, 1)], 0, "@raw")
    string = String("s", v, 2, "@string")
    lone_quote = isinstance(v, str) and v.strip() == '"'
    for where, block in (("entry field", entry), ("@string", string)):
        lib = Library([block])
        try:
            out = RemoveEnclosingMiddleware().transform(lib)
        except Exception as e:
            return {"what": f"RemoveEnclosingMiddleware raised on a {where} value",
                    "expected": short((exp_val, exp_kind)), "observed": f"{type(e).__name__}: {e}"}
        if len(out.blocks) != 1:
            return {"what": f"{where}: block count changed", "expected": 1, "observed": len(out.blocks)}
        b = out.blocks[0]
        if where == "entry field":
            if not isinstance(b, Entry) or [f.key for f in b.fields] != ["f"]:
                return {"what": "entry shape changed", "expected": "Entry with field f", "observed": short(b)}
            got_val = b.fields[0].value
            meta = b.parser_metadata.get(META)
            rec = meta.get("f", "<missing>") if isinstance(meta, dict) else "<no metadata dict>"
        else:
            if not isinstance(b, String):
                return {"what": "@string block replaced", "expected": "String", "observed": short(b)}
            got_val = b.value
            rec = b.parser_metadata.get(META, "<missing>")
        if rec in ("<missing>", "<no metadata dict>"):
            return {"what": f"{where}: which enclosing was removed is not recorded under parser_metadata[{META!r}]",
                    "expected": short(exp_kind), "observed": rec}
        if got_val != exp_val or type(got_val) is not type(exp_val) or not kind_ok(rec, exp_kind):
            return {"what": f"{where}: strip is not 'exactly one outer pair of the whitespace-stripped value (nothing if none)'",
                    "expected": short((exp_val, exp_kind if exp_kind else "<no enclosing>")), "observed": short((got_val, rec)),
                    "finding_key": "F6-lone-quote" if lone_quote else None}
    return None


def check_reuse(spec):
    fields = spec["fields"]
    sval = spec["string"]
    entry = Entry("article", "k", [Field(k, v, i) for i, (k, v) in enumerate(fields)], 0, "@raw")
    string = String("s", sval, 9, "@string")
    lib = Library([entry, string])
    try:
        lib = RemoveEnclosingMiddleware().transform(lib)
        lib = AddEnclosingMiddleware(reuse_previous_enclosing=True, enclose_integers=spec["enclose_integers"],
                                     default_enclosing=spec["default"]).transform(lib)
    except Exception as e:
        return {"what": "Remove ; Add(reuse) raised", "expected": "no exception", "observed": f"{type(e).__name__}: {e}"}
    if len(lib.blocks) != 2 or not isinstance(lib.blocks[0], Entry) or not isinstance(lib.blocks[1], String):
        return {"what": "block list changed", "expected": "[Entry, String]", "observed": short(lib.blocks)}
    exp = [[k, v.strip()] for k, v in fields]
    got = [[f.key, f.value] for f in lib.blocks[0].fields]
    bad = [(e, g) for e, g in zip(exp, got) if e != g]
    if len(exp) != len(got):
        return {"what": "field count changed", "expected": short(exp), "observed": short(got)}
    if lib.blocks[1].value != sval.strip():
        bad.append((["@string", sval.strip()], ["@string", lib.blocks[1].value]))
    if bad:
        lone = all(e[1] == '"' for e, _ in bad)
        return {"what": "Remove followed by Add(reuse_previous_enclosing=True) does not restore the original value",
                "expected": short([e for e, _ in bad]), "observed": short([g for _, g in bad]),
                "finding_key": "F6-lone-quote" if lone else None}
    return None


def check_reparse(spec):
    v, default = spec["value"], spec["default"]
    assert admissible_for_reparse(v, default), "generator produced a value outside the quantifier"
    exp_enclosed = enclose(default, v)
    entry = Entry("a", "k", [Field("f", v, 0)], 0, "@raw")
    try:
        out = AddEnclosingMiddleware(reuse_previous_enclosing=False, enclose_integers=True, default_enclosing=default) \
            .transform(Library([entry]))
        enclosed = out.blocks[0].fields[0].value
    except Exception as e:
        return {"what": "AddEnclosingMiddleware raised", "expected": short(exp_enclosed), "observed": f"{type(e).__name__}: {e}"}
    if enclosed != exp_enclosed:
        return {"what": "default enclosing is not delimiter + value + delimiter", "expected": short(exp_enclosed), "observed": short(enclosed)}
    text = "@a{k, f = " + enclosed + "}"
    try:
        lib = bibtexparser.parse_string(text, parse_stack=[])
    except Exception as e:
        return {"what": "re-parsing the enclosed value raised", "expected": "one entry", "observed": f"{type(e).__name__}: {e}"}
    obs = [(type(b).__name__, [[f.key, f.value] for f in b.fields] if isinstance(b, Entry) else getattr(b, "raw", None)) for b in lib.blocks]
    expd = [("Entry", [["f", exp_enclosed]])]
    if obs != expd:
        key = "F4-brace-in-quotes" if (default == '"' and quote_inside_braces(v)) else None
        return {"what": f"enclosed value written as {text!r} does not re-parse to one entry with the one field f",
                "expected": short(expd), "observed": short(obs), "finding_key": key}
    return None


def check_intrule(spec):
    key, v, default, reuse, encl_int = spec["key"], spec["value"], spec["default"], spec["reuse"], spec["enclose_integers"]
    after_remove = spec.get("after_remove", False)
    # what Add sees as the value / recorded enclosing, from the statement
    if after_remove:
        seen, kind = ref_strip(v)
        if reuse:
            exp_field = exp_string = v.strip()
    else:
        seen, kind = v, None
    if not (after_remove and reuse):
        integer = is_int(seen) or is_ascii_digits(seen)
        unenclosed = (key in NUMERIC) and (not encl_int) and integer
        exp_field = seen if unenclosed else enclose(default, seen)
        exp_string = enclose(default, seen)          # an @string value is not a numeric field
    entry = Entry("article", "k", [Field(key, v, 0)], 0, "@raw")
    string = String("s", v, 3, "@string")
    lib = Library([entry, string])
    try:
        if after_remove:
            lib = RemoveEnclosingMiddleware().transform(lib)
        lib = AddEnclosingMiddleware(reuse_previous_enclosing=reuse, enclose_integers=encl_int, default_enclosing=default).transform(lib)
    except Exception as e:
        fk = None
        if is_int(v) and isinstance(e, AttributeError) and not after_remove and key in NUMERIC and not encl_int:
            fk = "F6-int-attributeerror"
        return {"what": "AddEnclosingMiddleware raised (the integer rule must hold 'without error')",
                "expected": short(exp_field), "observed": f"{type(e).__name__}: {e}", "finding_key": fk}
    if len(lib.blocks) != 2 or not isinstance(lib.blocks[0], Entry) or not isinstance(lib.blocks[1], String) or len(lib.blocks[0].fields) != 1:
        return {"what": "block list changed", "expected": "[Entry(1 field), String]", "observed": short(lib.blocks)}
    got_field = lib.blocks[0].fields[0].value
    got_string = lib.blocks[1].value

    def same(got, exp):
        if is_int(exp):                      # 'stays unenclosed': the int itself or its decimal text
            return (is_int(got) and got == exp) or got == str(exp)
        return isinstance(got, str) and got == exp

    if not same(got_field, exp_field):
        return {"what": f"integer rule / enclosing of field {key!r}", "expected": short(exp_field), "observed": short(got_field)}
    if not same(got_string, exp_string):
        return {"what": "enclosing of the @string value", "expected": short(exp_string), "observed": short(got_string)}
    return None


CHECKS = {"C10.strip": check_strip, "C10.reuse": check_reuse, "C10.reparse": check_reparse, "C10.intrule": check_intrule}


# --------------------------------------------------------------------------------------------- generation
def all_strings(maxlen):
    for n in range(maxlen + 1):
        for t in itertools.product(ALPHABET, repeat=n):
            yield "".join(t)


INT_VALUES = ["0", "7", "12", "007", "1990", 0, 7, 1990, "", "a", "19a", "a1", "-5", "1.5", "1 2", "{1990}", '"1990"', "{}", "1990 # a"]
OPTS = [(d, ei) for d in ("{", '"') for ei in (False, True)]


def rand_value(rng, lo, hi):
    return "".join(rng.choice(ALPHABET) for _ in range(rng.randrange(lo, hi + 1)))


def generate(tier, rng):
    quick = tier == "quick"
    # (d) integer rule -- small, first
    for after_remove in (False, True):
        for v in INT_VALUES:
            if after_remove and not isinstance(v, str):
                continue                 # removal is quantified over str values only
            for key in NUMERIC + NON_NUMERIC:
                for default in ("{", '"'):
                    for reuse in (False, True):
                        for ei in (False, True):
                            yield "C10.intrule", {"key": key, "value": v, "default": default, "reuse": reuse,
                                                  "enclose_integers": ei, "after_remove": after_remove}, True
    # (a) strip
    for v in all_strings(5 if quick else 6):
        yield "C10.strip", {"value": v}, bool(v.strip())
    # (b) reuse: sliding windows of 4 consecutive values
    vals = list(all_strings(4 if quick else 5))
    n = len(vals)
    for i in range(n):
        window = [vals[(i + j * 37) % n] if j else vals[i] for j in range(4)]
        fields = [[k, w] for k, w in zip(REUSE_KEYS, window)]
        for default, ei in OPTS:
            yield "C10.reuse", {"fields": fields, "string": vals[i], "default": default, "enclose_integers": ei}, bool(vals[i].strip())
    for _ in range(2000 if quick else 20000):
        fields = [[k, rand_value(rng, 0, 9)] for k in REUSE_KEYS]
        default, ei = rng.choice(OPTS)
        sv = rand_value(rng, 5, 9)
        yield "C10.reuse", {"fields": fields, "string": sv, "default": default, "enclose_integers": ei}, bool(sv.strip())
    # (c) default enclosing -> write -> re-parse
    for v in all_strings(5 if quick else 6):
        for default in ("{", '"'):
            if admissible_for_reparse(v, default):
                yield "C10.reparse", {"value": v, "default": default}, bool(v.strip())
