"""C18 bounded stand-in: LaTeX encoding / decoding middlewares.

Sections
  C18.ctor             a custom coder combined with an option raises ValueError, every other combination constructs
  C18.scope            only str field values, NameParts part strings and @string values may change, and they stay str
  C18.roundtrip        decode(encode(t)) == t for t in an entry field / NameParts parts
  C18.roundtrip_string the same for @string values
  C18.contain          a raising custom coder yields a MiddlewareErrorBlock holding the original entry, never an exception
"""
import copy
import itertools
import re

from pylatexenc.latex2text import LatexNodes2Text
from pylatexenc.latexencode import UnicodeToLatexEncoder

from bibtexparser.library import Library
from bibtexparser.middlewares.latex_encoding import LatexDecodingMiddleware, LatexEncodingMiddleware
from bibtexparser.middlewares.names import NameParts
from bibtexparser.model import DuplicateBlockKeyBlock, Entry, Field, MiddlewareErrorBlock, String
from native.common import block_from_spec, snapshot

# --------------------------------------------------------------------------------------------- alphabets
LETTERS = list("abcdefghijklmnopqrstuvwxyzABCDEFGHIJKLMNOPQRSTUVWXYZ")
DIGITS = list("0123456789")
ACCENTED = list("éüñøçåàâäãèêëíîïóôöõúûßæœłšžÉÖÅØÑÇ")
PUNCT = list(" .,;:!?()-'/")
SPECIALS = list("%&#_${}~\\")
URLS = ["http://a.b/c", "https://x.org/a-b_c?d=1", "www.x.org", "http://é.b/ü"]
MATHS = ["$x$", "$\\alpha_1$", "$a+b$", "$\\frac{1}{2}$"]
WIDE = LETTERS + DIGITS + ACCENTED + PUNCT + SPECIALS + URLS + MATHS
# one or two representatives of every encoding shape, every punctuation mark and every TeX special
EXH = ["a", "Z", "1", "é", "ü", "ø", "ç"] + PUNCT + SPECIALS + ["http://a.b/c", "www.x.org", "$x$", "$\\alpha_1$"]
EXH_QUICK = [t for t in EXH if t not in ("Z", "ç", ";", ":")]
CORE = ["a", "1", "é", "ø", " ", ".", "!", "?", "-", "'", "/"] + SPECIALS + ["http://a.b/c", "$x$"]
# sequences for which pylatexenc ALONE (UnicodeToLatexEncoder() / LatexNodes2Text() with default settings) is not injective;
# verified empirically: every single token of WIDE and every string of <= 3 EXH-like tokens round-trips through pylatexenc alone
# once these are excluded.  '^' and '"' fail as single characters ('^' -> U+02C6, '"' -> U+201D); "--" -> U+2013, "''" -> U+201D,
# "``" -> U+201C, "!`" -> U+00A1, "?`" -> U+00BF.  '^', '"' and '`' are simply not in the alphabet.
EXCLUDED_CHARS = ["^", '"', "`"]
EXCLUDED_SEQS = ["--", "''", "``", "!`", "?`"]

RULE = ("round trip: texts are concatenations of tokens from an alphabet of ASCII letters, digits, 34 accented Latin letters, space and "
        "punctuation . , ; : ! ? ( ) - ' /, the TeX specials % & # _ $ { } ~ \\, URL tokens (http://a.b/c, https://x.org/a-b_c?d=1, "
        "www.x.org, http://é.b/ü) and math tokens ($x$, $\\alpha_1$, $a+b$, $\\frac{1}{2}$).  Excluded from the input space BY "
        "CONSTRUCTION (never generated, not filtered afterwards) is everything for which pylatexenc alone "
        "(UnicodeToLatexEncoder()/LatexNodes2Text() used directly with default settings) is not injective: the characters ^ \" ` are "
        "not in the alphabet and no text contains the ligature sequences -- '' (`` !` ?` cannot arise without the backtick); "
        "verified empirically that all single tokens and all <= 3-token strings of the remaining alphabet round-trip through "
        "pylatexenc alone, so any remaining difference is due to the repository's own rules (keep-math regex, URL wrapping, "
        "\\url macro spec, verbatim math).  The text is placed in a real Entry field (all cases), in NameParts parts and in an "
        "@string value (smaller sets), encoded with LatexEncodingMiddleware(keep_math, enclose_urls) and decoded with the default "
        "LatexDecodingMiddleware through Library + transform.  scope: libraries of all block kinds (entries with str / int / list / "
        "NameParts values, @string, preamble, both comments, failed, duplicate-field, duplicate-key and middleware-error blocks) x "
        "every constructor option of either middleware (3x3 option values, a real custom coder, a stub custom coder) x "
        "allow_inplace_modification; contain: stub coders raising four exception kinds (with and without message), always or on a "
        "trigger substring, on both sides, and a single failing string at every position of entries with 12 / 16 converted strings (plain fields; parts of one NameParts value).  A failing round trip is labelled F12-url-raw-specials / F13-keepmath-raw-span only if the text "
        "has that family's trait (URL match holding a TeX special / two unescaped $ with a TeX special or $ between) AND it passes "
        "with that rule switched off; everything else stays unclassified.  non-trivial = non-empty text / library with at least one block; distinct = distinct spec")
BOUND = {"quick": "ctor: all 27+27 combinations; scope: 8 fixed libraries x 44 configurations + 500 random pairs; round trip: all <= 3-token "
                  "strings over 28 representative tokens (default options) and all <= 2-token strings over 32 representative tokens under the 3 other (keep_math, "
                  "enclose_urls) combinations, all <= 2-token strings over the full 125-token alphabet (default options), NameParts/@string on <= 2 / <= 1 tokens, 2000 random strings of 4..12 tokens; "
                  "contain: 3 fixed libraries x 2 sides x 8 exception kinds x 2 triggers x inplace + 300 random",
         "thorough": "same with all <= 3-token strings over the 32 representative tokens + all 4-token strings over a 22-token core alphabet + 20000 random strings + 6000 random scope pairs + 3000 random contain cases"}


def admissible(tokens):
    """Generator-side input-space restriction (see RULE)."""
    text = "".join(tokens)
    return not any(c in text for c in EXCLUDED_CHARS) and not any(s in text for s in EXCLUDED_SEQS)


def short(x):
    r = repr(x)
    return r if len(r) < 300 else r[:300] + "..."


# --------------------------------------------------------------------------------------------- coders / middlewares from specs
class StubCoder:
    """Custom encoder and decoder object in one: appends a marker, or raises as configured."""

    def __init__(self, exc=None, msg="", trigger=None):
        self.exc, self.msg, self.trigger = exc, msg, trigger

    def _go(self, s):
        if self.exc is not None and (self.trigger is None or self.trigger in s):
            cls = {"RuntimeError": RuntimeError, "ValueError": ValueError, "KeyError": KeyError, "UnicodeError": UnicodeError}[self.exc]
            raise cls(self.msg) if self.msg is not None else cls()
        return s + "+"

    unicode_to_latex = _go
    latex_to_text = _go


def custom_coder(side, kind):
    if kind is None:
        return None
    if kind == "real":
        return UnicodeToLatexEncoder(non_ascii_only=True) if side == "enc" else LatexNodes2Text(math_mode="text")
    if kind == "stub":
        return StubCoder()
    raise ValueError(kind)


_MW_CACHE = {}


def make_mw(side, a=None, b=None, coder=None, inplace=True):
    """side 'enc': (keep_math=a, enclose_urls=b, encoder=coder); side 'dec': (keep_braced_groups=a, keep_math_mode=b, decoder=coder)."""
    key = (side, a, b, coder, inplace)
    if key not in _MW_CACHE:
        if side == "enc":
            _MW_CACHE[key] = LatexEncodingMiddleware(keep_math=a, enclose_urls=b, encoder=custom_coder(side, coder), allow_inplace_modification=inplace)
        else:
            _MW_CACHE[key] = LatexDecodingMiddleware(keep_braced_groups=a, keep_math_mode=b, decoder=custom_coder(side, coder), allow_inplace_modification=inplace)
    return _MW_CACHE[key]


def value_from_spec(v):
    if isinstance(v, dict) and "np" in v:
        p = v["np"]
        return NameParts(first=list(p.get("first", [])), von=list(p.get("von", [])), last=list(p.get("last", [])), jr=list(p.get("jr", [])))
    return copy.deepcopy(v)


def snap_other(b):
    """Snapshot of a block the middlewares must leave alone; a duplicate-key block's back reference to the *previous*
    entry is excluded (that entry is itself a legitimately transformed block of the same library)."""
    if isinstance(b, DuplicateBlockKeyBlock):
        return ["DuplicateBlockKeyBlock", {k: snapshot(v) for k, v in sorted(vars(b).items()) if k != "_previous_block"}]
    return snapshot(b)


def build_library(specs):
    lib = Library()
    for s in specs:
        b = block_from_spec(s)
        for blk in (b, getattr(b, "ignore_error_block", None)):
            if isinstance(blk, Entry):
                for f in blk.fields:
                    f.value = value_from_spec(f.value)
        lib.add(b)
    return lib


# --------------------------------------------------------------------------------------------- C18.ctor
def check_ctor(spec):
    side, a, b, coder = spec["side"], spec["a"], spec["b"], spec["coder"]
    must_raise = coder is not None and (a is not None or b is not None)
    try:
        c = custom_coder(side, coder)
        if side == "enc":
            LatexEncodingMiddleware(keep_math=a, enclose_urls=b, encoder=c)
        else:
            LatexDecodingMiddleware(keep_braced_groups=a, keep_math_mode=b, decoder=c)
        got = None
    except ValueError:
        got = "ValueError"
    except Exception as e:
        got = type(e).__name__ + ": " + str(e)
    exp = "ValueError" if must_raise else None
    if got != exp:
        return {"what": "constructor option exclusivity (custom coder combined with an option must raise ValueError, nothing else raises)",
                "expected": exp, "observed": got}
    return None


# --------------------------------------------------------------------------------------------- C18.scope
def _np_parts(np):
    return [("first", np.first), ("von", np.von), ("last", np.last), ("jr", np.jr)]


def _entry_scope(orig_snap, orig_fields, e, where):
    """orig_fields: list of (key, start_line, kind, snapshot-or-lengths) taken before the transformation."""
    out = []
    head = [e.entry_type, e.key, e.raw, e.start_line, [f.key for f in e.fields], [f.start_line for f in e.fields]]
    if head != orig_snap:
        out.append({"what": where + ": entry type / key / raw / start_line / field keys changed", "expected": short(orig_snap), "observed": short(head)})
        return out
    for f, (k, kind, info) in zip(e.fields, orig_fields):
        v = f.value
        if kind == "str":
            if type(v) is not str:
                out.append({"what": f"{where}: string field {k!r} no longer holds a str", "expected": "str", "observed": short(v)})
        elif kind == "np":
            ok = isinstance(v, NameParts) and all(isinstance(p, list) and len(p) == n and all(type(x) is str for x in p)
                                                  for (_, p), n in zip(_np_parts(v), info)) if isinstance(v, NameParts) else False
            if not ok:
                out.append({"what": f"{where}: NameParts field {k!r} is no longer a NameParts of equally many str parts",
                            "expected": "NameParts with part lengths " + str(info), "observed": short(v)})
        else:
            if snapshot(v) != info or type(v).__name__ != kind:
                out.append({"what": f"{where}: non-string field {k!r} ({kind}) changed", "expected": short(info), "observed": short(v)})
    return out


def _describe_entry(e):
    head = [e.entry_type, e.key, e.raw, e.start_line, [f.key for f in e.fields], [f.start_line for f in e.fields]]
    fields = []
    for f in e.fields:
        v = f.value
        if type(v) is str:
            fields.append((f.key, "str", None))
        elif isinstance(v, NameParts):
            fields.append((f.key, "np", [len(p) for _, p in _np_parts(v)]))
        else:
            fields.append((f.key, type(v).__name__, snapshot(v)))
    return head, fields


def check_scope(spec):
    lib = build_library(spec["library"])
    c = spec["config"]
    mw = make_mw(c["side"], c["a"], c["b"], c["coder"], c["inplace"])
    desc = []
    for b in lib.blocks:
        if type(b) is Entry:
            desc.append(("entry",) + _describe_entry(b))
        elif type(b) is String:
            desc.append(("string", [b.key, b.raw, b.start_line], type(b.value).__name__, snapshot(b.value)))
        else:
            desc.append(("other", snap_other(b)))
    try:
        out = mw.transform(lib)
    except Exception as e:
        return {"what": "transform raised", "expected": "a library", "observed": f"{type(e).__name__}: {e}"}
    if len(out.blocks) != len(desc):
        return {"what": "number of blocks changed", "expected": len(desc), "observed": len(out.blocks)}
    viol = []
    for i, (b, d) in enumerate(zip(out.blocks, desc)):
        where = f"block {i}"
        if d[0] == "entry":
            e = b.ignore_error_block if isinstance(b, MiddlewareErrorBlock) else b      # a conversion failure may wrap the entry
            if type(e) is not Entry:
                viol.append({"what": where + ": entry replaced by another kind of block", "expected": "Entry", "observed": short(b)})
                continue
            viol.extend(_entry_scope(d[1], d[2], e, where))
        elif d[0] == "string":
            s = b.ignore_error_block if isinstance(b, MiddlewareErrorBlock) else b
            if type(s) is not String:
                viol.append({"what": where + ": @string replaced by another kind of block", "expected": "String", "observed": short(b)})
                continue
            if [s.key, s.raw, s.start_line] != d[1]:
                viol.append({"what": where + ": @string key / raw / start_line changed", "expected": short(d[1]), "observed": short([s.key, s.raw, s.start_line])})
            if d[2] == "str":
                if type(s.value) is not str:
                    viol.append({"what": where + ": @string value no longer a str", "expected": "str", "observed": short(s.value),
                                 "finding_key": "F10-string-tuple" if isinstance(s.value, tuple) else None})
            elif snapshot(s.value) != d[3] or type(s.value).__name__ != d[2]:
                viol.append({"what": where + ": non-string @string value changed", "expected": short(d[3]), "observed": short(s.value)})
        else:
            if snap_other(b) != d[1]:
                viol.append({"what": where + ": a block that is neither entry nor @string changed", "expected": short(d[1]), "observed": short(snap_other(b))})
    for v in viol:
        if v.get("finding_key") is None:
            return v
    return viol[0] if viol else None


# --------------------------------------------------------------------------------------------- C18.roundtrip
def _rt_field(text, km, eu):
    """Encode then decode `text` held by an entry field; returns (final value or None, description of what came back)."""
    lib = Library([Entry("article", "k", [Field("title", text, 1)], 0, "@raw")])
    lib = make_mw("enc", km, eu).transform(lib)
    mid = lib.blocks[0]
    lib = make_mw("dec").transform(lib)
    b = lib.blocks[0]
    if type(b) is not Entry or type(mid) is not Entry:
        err = b.error if isinstance(b, MiddlewareErrorBlock) else getattr(mid, "error", None)
        return None, "conversion failure: " + short(err)
    return b.fields[0].value, None


def _pylatexenc_alone_roundtrips(text):
    try:
        return LatexNodes2Text().latex_to_text(UnicodeToLatexEncoder().unicode_to_latex(text)) == text
    except Exception:
        return False


TEX_SPECIALS = "~%&#_${}\\"
_URL_RES = [re.compile(r"https?://\S*\.\S*"), re.compile(r"www.\S*\.\S*")]


def has_url_with_special(text):
    """The text contains a URL match (the two URL patterns of the property's 'wrap URLs' mechanism) whose span holds a TeX special."""
    return any(any(c in TEX_SPECIALS for c in m.group(0)) for r in _URL_RES for m in r.finditer(text))


def has_dollar_span_with_special(text):
    """At least two unescaped '$' with a TeX special or a further '$' between the first and the last one."""
    pos = [i for i, c in enumerate(text) if c == "$" and not (i > 0 and text[i - 1] == "\\")]
    return len(pos) >= 2 and any(c in TEX_SPECIALS for c in text[pos[0] + 1:pos[-1]])


def _classify_roundtrip(text, km, eu):
    """Recognise the two known families of a failing round trip -- narrowly: an input trait AND the round trip passes once the
    responsible rule is switched off (diagnosis only, the oracle is t == decode(encode(t))).  Anything else stays unclassified.
      F12-url-raw-specials   URL match containing one of ~ % & # _ $ { } or a backslash, and passes with enclose_urls=False
      F13-keepmath-raw-span  two unescaped '$' with a TeX special / further '$' in between and passes with keep_math=False
    When both traits are present and both rules are on, a rule also counts as responsible if switching it off repairs the round
    trip while the other rule is off (the text is then an instance of both families; the first that applies names it)."""
    km_on = km is None or km is True
    eu_on = eu is None or eu is True
    url_trait = eu_on and has_url_with_special(text)
    math_trait = km_on and has_dollar_span_with_special(text)

    def ok(k, u):
        try:
            return _rt_field(text, k, u)[0] == text
        except Exception:
            return False

    if url_trait and ok(km, False):
        return "F12-url-raw-specials"
    if math_trait and ok(False, eu):
        return "F13-keepmath-raw-span"
    if url_trait and math_trait and ok(False, False):
        if not ok(False, eu):          # with the math rule off the URL rule alone still breaks it
            return "F12-url-raw-specials"
        if not ok(km, False):
            return "F13-keepmath-raw-span"
    return None


def check_roundtrip(spec):
    tokens = spec["tokens"]
    assert admissible(tokens), "generator produced a text outside the stated input space"
    text = "".join(tokens)
    km, eu, where = spec.get("keep_math"), spec.get("enclose_urls"), spec.get("where", "field")
    try:
        if where == "field":
            got, note = _rt_field(text, km, eu)
            exp = text
        else:
            np = NameParts(first=[text], von=[], last=["a", text], jr=[text] if spec.get("jr") else [])
            exp = snapshot(np)
            lib = Library([Entry("article", "k", [Field("author", np, 1)], 0, "@raw")])
            lib = make_mw("dec").transform(make_mw("enc", km, eu).transform(lib))
            b = lib.blocks[0]
            if type(b) is Entry:
                got, note = snapshot(b.fields[0].value), None
            else:
                got, note = None, "conversion failure: " + short(getattr(b, "error", b))
    except Exception as e:
        return {"what": "encode/decode raised", "expected": short(text), "observed": f"{type(e).__name__}: {e}"}
    if got != exp:
        return {"what": f"decode(encode(t)) != t ({where}, keep_math={km}, enclose_urls={eu})", "expected": short(exp),
                "observed": note or short(got), "finding_key": _classify_roundtrip(text, km, eu),
                "pylatexenc_alone_roundtrips": _pylatexenc_alone_roundtrips(text)}
    return None


def check_roundtrip_string(spec):
    tokens = spec["tokens"]
    assert admissible(tokens), "generator produced a text outside the stated input space"
    text = "".join(tokens)
    km, eu = spec.get("keep_math"), spec.get("enclose_urls")
    try:
        lib = make_mw("enc", km, eu).transform(Library([String("s", text, 0, "@string")]))
        mid = lib.blocks[0].value if type(lib.blocks[0]) is String else lib.blocks[0]
        lib = make_mw("dec").transform(lib)
    except Exception as e:
        return {"what": "encode/decode of an @string raised", "expected": short(text), "observed": f"{type(e).__name__}: {e}"}
    b = lib.blocks[0]
    got = b.value if type(b) is String else b
    if type(got) is not str or got != text:
        key = "F10-string-tuple" if isinstance(mid, tuple) or isinstance(got, tuple) else _classify_roundtrip(text, km, eu)
        return {"what": f"decode(encode(t)) != t (@string value, keep_math={km}, enclose_urls={eu})", "expected": short(text),
                "observed": short(got), "finding_key": key}
    return None


# --------------------------------------------------------------------------------------------- C18.contain
def _strings_of(v):
    if type(v) is str:
        return [v]
    if isinstance(v, NameParts):
        return list(v.first) + list(v.last) + list(v.von) + list(v.jr)
    return []


def check_contain(spec):
    lib = build_library(spec["library"])
    side, inplace, trigger = spec["side"], spec["inplace"], spec.get("trigger")
    coder = StubCoder(exc=spec["exc"], msg=spec["msg"], trigger=trigger)
    if side == "enc":
        mw = LatexEncodingMiddleware(encoder=coder, allow_inplace_modification=inplace)
    else:
        mw = LatexDecodingMiddleware(decoder=coder, allow_inplace_modification=inplace)
    plan = []
    for b in lib.blocks:
        if type(b) is Entry:
            per_field = [(f.key, f.value if type(f.value) is str else None, any(trigger is None or trigger in s for s in _strings_of(f.value)))
                         for f in b.fields]
            plan.append(("entry", b, (b.entry_type, b.key, [f.key for f in b.fields]), per_field))
        elif type(b) is String:
            plan.append(("string", b, type(b.value) is str and (trigger is None or trigger in b.value), b.value))
        else:
            plan.append(("other", b, snap_other(b)))
    try:
        out = mw.transform(lib)
    except Exception as e:
        return {"what": "an exception of the custom coder escaped transform", "expected": "MiddlewareErrorBlock", "observed": f"{type(e).__name__}: {e}"}
    if len(out.blocks) != len(plan):
        return {"what": "number of blocks changed", "expected": len(plan), "observed": len(out.blocks)}
    viol = []
    for i, (b, p) in enumerate(zip(out.blocks, plan)):
        where = f"block {i}"
        if p[0] == "entry":
            fails = any(x[2] for x in p[3])
            if fails:
                if not isinstance(b, MiddlewareErrorBlock):
                    viol.append({"what": where + ": a conversion failure did not yield a MiddlewareErrorBlock", "expected": "MiddlewareErrorBlock",
                                 "observed": short(b)})
                    continue
                e = b.ignore_error_block
                if type(e) is not Entry or (inplace and e is not p[1]) or (e.entry_type, e.key, [f.key for f in e.fields]) != p[2]:
                    viol.append({"what": where + ": the error block does not hold the original entry", "expected": short(p[2]), "observed": short(e)})
                    continue
                if not isinstance(b.error, Exception):
                    viol.append({"what": where + ": error block without an exception", "expected": "Exception", "observed": short(b.error)})
                for f, (k, orig, failing) in zip(e.fields, p[3]):
                    if failing and orig is not None and (type(f.value) is not str or f.value != orig):
                        viol.append({"what": f"{where}: field {k!r} whose conversion failed does not hold its original value", "expected": short(orig), "observed": short(f.value)})
            else:
                if type(b) is not Entry or (b.entry_type, b.key, [f.key for f in b.fields]) != p[2]:
                    viol.append({"what": where + ": entry without failing value was not returned as the entry", "expected": short(p[2]), "observed": short(b)})
        elif p[0] == "string":
            s = b.ignore_error_block if isinstance(b, MiddlewareErrorBlock) else b
            if type(s) is not String or (inplace and s is not p[1]):
                viol.append({"what": where + ": @string replaced (neither the String nor an error block holding the original String)",
                             "expected": "String or MiddlewareErrorBlock whose ignore_error_block is it", "observed": short(b)})
            elif type(p[3]) is str and type(s.value) is not str:
                viol.append({"what": where + ": @string value no longer a str", "expected": "str", "observed": short(s.value),
                             "finding_key": "F10-string-tuple" if isinstance(s.value, tuple) else None})
            elif p[2] and type(b) is String and s.value != p[3]:
                viol.append({"what": where + ": @string whose conversion failed neither keeps its value nor is reported", "expected": short(p[3]), "observed": short(s.value)})
        else:
            if snap_other(b) != p[2]:
                viol.append({"what": where + ": unrelated block changed", "expected": short(p[2]), "observed": short(snap_other(b))})
    for v in viol:
        if v.get("finding_key") is None:
            return v
    return viol[0] if viol else None


def known_witnesses():
    """True while the minimal witness of a known finding still fails with that finding_key (False = stale)."""
    out = {}
    for key, text in (("F12-url-raw-specials", "http://a.b/~u"), ("F13-keepmath-raw-span", "a $x$ 50% b $y$")):
        v = check_roundtrip({"tokens": [text], "where": "field", "keep_math": None, "enclose_urls": None})
        out[key] = bool(v) and v.get("finding_key") == key
    return out


CHECKS = {"C18.ctor": check_ctor, "C18.scope": check_scope, "C18.roundtrip": check_roundtrip,
          "C18.roundtrip_string": check_roundtrip_string, "C18.contain": check_contain}


# --------------------------------------------------------------------------------------------- generation
SCOPE_VALUES = ["plain", "é ü", "50% & #1 _x", "\\'e {\\o} \\\"u", "{Braced} $x^2$", "http://a.b/c~d", "\\url{http://a.b}", "% comment", "", "{", "a\\",
                1990, 0, ["a", "é"], [], None, 2.5,
                {"np": {"first": ["Élodie", "J."], "von": ["de", "la"], "last": ["Müller"], "jr": ["Jr."]}},
                {"np": {"first": [], "von": [], "last": ["{\\O}rsted"], "jr": []}},
                {"np": {"first": ["A%"], "von": [], "last": ["B", "$x$"], "jr": []}}]
SCOPE_KEYS = ["title", "author", "year", "é", "ur%l", "note", "\\'e"]


def _entry(key, fields, line=0, etype="article"):
    return {"t": "entry", "type": etype, "key": key, "fields": fields, "line": line, "raw": "@raw{" + key + "}"}


FIXED_LIBS = [
    [],
    [_entry("k", [["title", "é"]])],
    [{"t": "string", "key": "s", "value": "Müller", "line": 2, "raw": "@string{s = \"Müller\"}"}],
    [_entry("é%", [["title", "50% é"], ["year", 1990], ["tags", ["a", "é"]], ["author", SCOPE_VALUES[17]], ["\\'e", "\\'e"]], 3, "art%cle")],
    [{"t": "preamble", "value": "é \\'e %", "line": 1, "raw": "@preamble{é}"}, {"t": "ecomment", "comment": "é \\'e %", "line": 2, "raw": "@comment{é}"},
     {"t": "icomment", "comment": "é \\'e % free", "line": 3}, {"t": "failed", "raw": "@article{é \\'e %", "line": 4}],
    [{"t": "dupfield", "dups": ["a"], "entry": _entry("d", [["a", "é"], ["a", "\\'e"]])}, {"t": "mwerror", "block": _entry("m", [["a", "é \\'e"]])},
     _entry("dup", [["a", "é"]]), _entry("dup", [["a", "ü"]])],
    [_entry("k", [["author", SCOPE_VALUES[18]], ["editor", SCOPE_VALUES[19]], ["n", None], ["x", 2.5]]),
     {"t": "string", "key": "s", "value": "\\'e {x}", "line": 2, "raw": "@string"}, {"t": "string", "key": "i", "value": 12, "line": 3, "raw": "@string"}],
    [_entry("u", [["url", "http://a.b/c~d"], ["m", "$x^2$ and 5%"], ["e", ""], ["b", "{"], ["bs", "a\\"]])],
]


def scope_configs():
    for side in ("enc", "dec"):
        for inplace in (True, False):
            for a in (None, True, False):
                for b in (None, True, False):
                    yield {"side": side, "a": a, "b": b, "coder": None, "inplace": inplace}
            for coder in ("real", "stub"):
                yield {"side": side, "a": None, "b": None, "coder": coder, "inplace": inplace}


def rand_scope_library(rng):
    blocks = []
    for _ in range(rng.randrange(0, 6)):
        r = rng.random()
        if r < 0.5:
            n = rng.randrange(0, 5)
            keys = rng.sample(SCOPE_KEYS, n)
            blocks.append(_entry(rng.choice(["k", "k2", "é", "dup"]), [[k, rng.choice(SCOPE_VALUES)] for k in keys], rng.randrange(40), rng.choice(["article", "b%ok"])))
        elif r < 0.65:
            blocks.append({"t": "string", "key": rng.choice(["s", "t", "é"]), "value": rng.choice(SCOPE_VALUES[:11] + [7]), "line": rng.randrange(40), "raw": "@string{..é}"})
        elif r < 0.72:
            blocks.append({"t": "preamble", "value": rng.choice(SCOPE_VALUES[:11]), "line": 1, "raw": "@preamble{é}"})
        elif r < 0.79:
            blocks.append({"t": "ecomment", "comment": rng.choice(SCOPE_VALUES[:11]), "line": 1, "raw": "@comment{é}"})
        elif r < 0.86:
            blocks.append({"t": "icomment", "comment": rng.choice(SCOPE_VALUES[:8]) + "x", "line": 2})
        elif r < 0.92:
            blocks.append({"t": "failed", "raw": rng.choice(["@article{é", "@a{k,\n x = {\\'e\n", ""]), "line": 3})
        elif r < 0.96:
            blocks.append({"t": "dupfield", "dups": ["a"], "entry": _entry("d", [["a", rng.choice(SCOPE_VALUES[:11])], ["a", "é"]])})
        else:
            blocks.append({"t": "mwerror", "block": _entry("m", [["a", rng.choice(SCOPE_VALUES[:11])]])})
    return blocks


EXC_KINDS = [("RuntimeError", "boom"), ("ValueError", "bad value"), ("KeyError", "k"), ("UnicodeError", "u"),
             ("RuntimeError", ""), ("ValueError", None), ("KeyError", None), ("UnicodeError", "")]
CONTAIN_LIBS = [
    [_entry("k", [["title", "aXb"]])],
    [_entry("k", [["title", "ok"], ["note", "has X"], ["year", 1990]]), _entry("k2", [["title", "fine"]]), _entry("k3", []),
     {"t": "string", "key": "s", "value": "sX", "line": 5, "raw": "@string"}, {"t": "preamble", "value": "pX", "line": 6, "raw": "@preamble"}],
    [_entry("n", [["author", {"np": {"first": ["A"], "von": [], "last": ["BX"], "jr": []}}], ["tags", ["X"]]]),
     {"t": "ecomment", "comment": "X", "line": 1, "raw": "@comment{X}"}, {"t": "failed", "raw": "@a{X", "line": 2},
     {"t": "string", "key": "t", "value": "plain", "line": 7, "raw": "@string"}],
]


def tokens_upto(alphabet, n):
    for k in range(0, n + 1):
        for t in itertools.product(alphabet, repeat=k):
            if admissible(t):
                yield list(t)


def generate(tier, rng):
    quick = tier == "quick"
    # constructor exclusivity
    for side in ("enc", "dec"):
        for coder in (None, "real", "stub"):
            for a in (None, True, False):
                for b in (None, True, False):
                    yield "C18.ctor", {"side": side, "a": a, "b": b, "coder": coder}, True
    # scope / type
    for lib in FIXED_LIBS:
        for cfg in scope_configs():
            yield "C18.scope", {"library": lib, "config": cfg}, bool(lib)
    cfgs = list(scope_configs())
    for _ in range(500 if quick else 6000):
        lib = rand_scope_library(rng)
        yield "C18.scope", {"library": lib, "config": rng.choice(cfgs)}, bool(lib)
    # error containment
    for lib in CONTAIN_LIBS:
        for side in ("enc", "dec"):
            for exc, msg in EXC_KINDS:
                for trigger in ("X", None):
                    for inplace in (True, False):
                        yield "C18.contain", {"library": lib, "side": side, "exc": exc, "msg": msg, "trigger": trigger, "inplace": inplace}, True
    # the position of the one failing string inside a long entry does not matter (every position of 12 / 16 converted
    # strings: plain fields, and the parts of one NameParts value after a plain field)
    for n in (12, 16):
        for p in range(n):
            plain = [_entry("long", [["f%d" % i, "hasX" if i == p else "ok%d" % i] for i in range(n)])]
            parts = ["P%d" % i + ("X" if i == p else "") for i in range(n)]
            np = {"np": {"first": parts[:n // 4], "von": parts[n // 4:n // 2], "last": parts[n // 2:n - 2], "jr": parts[n - 2:]}}
            named = [_entry("named", [["title", "fine"], ["author", np]])]
            for lib in (plain, named):
                for side in ("enc", "dec"):
                    for inplace in (True, False):
                        exc, msg = EXC_KINDS[(p + n) % len(EXC_KINDS)]
                        yield "C18.contain", {"library": lib, "side": side, "exc": exc, "msg": msg, "trigger": "X", "inplace": inplace}, True
    for _ in range(300 if quick else 3000):
        lib = [b for b in rand_scope_library(rng)]
        exc, msg = rng.choice(EXC_KINDS)
        yield "C18.contain", {"library": lib, "side": rng.choice(["enc", "dec"]), "exc": exc, "msg": msg,
                              "trigger": rng.choice(["é", "%", "a", None]), "inplace": rng.random() < 0.5}, bool(lib)
    # round trip: @string and NameParts on small sets, entry field exhaustively
    for t in tokens_upto(WIDE, 1):
        yield "C18.roundtrip_string", {"tokens": t, "keep_math": None, "enclose_urls": None}, bool(t)
    for t in tokens_upto(EXH_QUICK if quick else EXH, 3):
        yield "C18.roundtrip", {"tokens": t, "where": "field", "keep_math": None, "enclose_urls": None}, bool(t)
    for t in tokens_upto(EXH, 2):
        yield "C18.roundtrip", {"tokens": t, "where": "nameparts", "keep_math": None, "enclose_urls": None, "jr": len(t) == 2}, bool(t)
    for t in tokens_upto(EXH, 2):
        for km, eu in ((True, False), (False, True), (False, False)):
            yield "C18.roundtrip", {"tokens": t, "where": "field", "keep_math": km, "enclose_urls": eu}, bool(t)
    for t in tokens_upto(WIDE, 2):
        yield "C18.roundtrip", {"tokens": t, "where": "field", "keep_math": None, "enclose_urls": None}, bool(t)
    if not quick:
        for t in itertools.product(CORE, repeat=4):
            if admissible(t):
                yield "C18.roundtrip", {"tokens": list(t), "where": "field", "keep_math": None, "enclose_urls": None}, True
    n = 2000 if quick else 20000
    for i in range(n):
        k = rng.randrange(4, 13)
        while True:
            t = [rng.choice(WIDE) if rng.random() < 0.6 else rng.choice(EXH) for _ in range(k)]
            if admissible(t):
                break
        km, eu = rng.choice([(None, None), (True, True), (True, False), (False, True), (False, False)])
        if i % 10 == 9:
            yield "C18.roundtrip_string", {"tokens": t, "keep_math": km, "enclose_urls": eu}, True
        else:
            yield "C18.roundtrip", {"tokens": t, "where": "field" if i % 10 else "nameparts", "keep_math": km, "enclose_urls": eu}, True
