"""C15 bounded stand-in: the three month middlewares against a 12-row table written from the property statement.

Sections
  C15.single    every spelling of every month x 3 middlewares -> m / lower-case abbreviation / capitalised full name;
                every non-month value -> returned unchanged with its type
  C15.pair      all 9 ordered pairs: Y after X equals Y alone
  C15.nomonth   entries without a month field are returned unchanged
  C15.noraise   no value whatsoever makes a middleware raise (numeric code points, random Unicode)
"""
import itertools
import sys

from bibtexparser.library import Library
from bibtexparser.middlewares.month import MonthAbbreviationMiddleware, MonthIntMiddleware, MonthLongStringMiddleware
from bibtexparser.model import Entry, Field

EXHAUSTIVE = True

# the property's own table (not read from the package)
TABLE = [("jan", "January"), ("feb", "February"), ("mar", "March"), ("apr", "April"), ("may", "May"), ("jun", "June"),
         ("jul", "July"), ("aug", "August"), ("sep", "September"), ("oct", "October"), ("nov", "November"), ("dec", "December")]
MW = {"int": MonthIntMiddleware, "abbr": MonthAbbreviationMiddleware, "long": MonthLongStringMiddleware}
MW_NAMES = ["int", "abbr", "long"]

RULE = ("EXHAUSTIVE part (finite space, enumerated completely): 12 months x {int m, decimal string of m with 0..3 leading zeros, all 2^3 "
        "letter-case variants of the abbreviation, all 2^n letter-case variants of the full English name} x 3 middlewares (C15.single) "
        "and x 9 ordered middleware pairs (C15.pair), each on a real Entry (month between two other fields) through Library + "
        "transform; plus a fixed list of non-month values (out-of-range ints and digit strings, enclosed text, other words, prefixes, "
        "padded spellings, '', None, a float, a list; bools and non-ASCII digit strings excluded as ambiguous) x 3 middlewares and x 9 "
        "pairs, and entries without a month field x 3 middlewares.  NON-exhaustive part (C15.noraise, no-exception claim only): every "
        "single-code-point string in U+0000..U+10FFFF that is isdigit/isdecimal/isnumeric x 3 middlewares, plus seeded random Unicode "
        "strings of length 0..6 mixing numeric code points, ASCII and arbitrary non-surrogate code points.  The oracle decides "
        "'spelling of month m' itself (int in 1..12; ASCII digit string whose value is in 1..12; lower-casing equals the abbreviation "
        "or the full name); non-trivial = value is not the empty string; distinct = distinct spec")
BOUND = {"quick": "exhaustive month table (1852 spellings x 3 and x 9) + 31 non-month values + all numeric single code points + 2000 random Unicode strings",
         "thorough": "exhaustive month table (1852 spellings x 3 and x 9) + 31 non-month values + all numeric single code points + 20000 random Unicode strings"}


# --------------------------------------------------------------------------------------------- oracle
def ref_month(v):
    """m in 1..12 if v is an unenclosed spelling of month m per the statement, else None."""
    if isinstance(v, bool):
        return None
    if isinstance(v, int):
        return v if 1 <= v <= 12 else None
    if isinstance(v, str):
        if v and all(c in "0123456789" for c in v):
            n = int(v)
            return n if 1 <= n <= 12 else None
        low = v.lower()
        for i, (a, f) in enumerate(TABLE):
            if low == a or low == f.lower():
                return i + 1
    return None


def out(mw, m):
    return m if mw == "int" else TABLE[m - 1][0] if mw == "abbr" else TABLE[m - 1][1]


def same_typed(obs, exp):
    if exp is None:
        return obs is None
    return type(obs) is type(exp) and obs == exp


def short(x):
    if isinstance(x, Field):          # may be self-referential (value is the field itself): never call its repr
        return "<Field object key=" + repr(x.key) + (" whose value is itself>" if x.value is x else ">")
    r = repr(x)
    return r if len(r) < 200 else r[:200] + "..."


def build(value):
    return Entry("article", "k", [Field("title", "{T}", 1), Field("month", value, 2), Field("year", "1990", 3)], 0, "@raw")


def classify_exception(e, value):
    if isinstance(e, ValueError) and isinstance(value, str) and any(c.isdigit() and not c.isdecimal() for c in value):
        return "F9-nonascii-digit"
    return None


def run(names, value):
    """Apply the named middlewares in order to a fresh entry; returns (entry-or-None, exception-or-None, library)."""
    lib = Library([build(value)])
    for n in names:
        lib = MW[n]().transform(lib)
    return lib


def frame_violation(lib):
    if len(lib.blocks) != 1 or not isinstance(lib.blocks[0], Entry):
        return {"what": "the entry was not returned as one Entry block", "expected": "[Entry]", "observed": short(lib.blocks)}
    e = lib.blocks[0]
    shape = (e.entry_type, e.key, e.start_line, e.raw, [f.key for f in e.fields], e.fields[0].value if e.fields else None,
             e.fields[2].value if len(e.fields) == 3 else None)
    exp = ("article", "k", 0, "@raw", ["title", "month", "year"], "{T}", "1990")
    if shape != exp:
        return {"what": "something other than the month value changed", "expected": short(exp), "observed": short(shape)}
    return None


def check_value(names, value, what):
    m = ref_month(value)
    exp = out(names[-1], m) if m is not None else value
    try:
        lib = run(names, value)
    except Exception as e:
        return {"what": what + ": a month middleware raised", "expected": short(exp), "observed": f"{type(e).__name__}: {e}",
                "finding_key": classify_exception(e, value)}
    fv = frame_violation(lib)
    if fv:
        return fv
    obs = lib.blocks[0].fields[1].value
    if not same_typed(obs, exp):
        key = "F9-month-field-object" if isinstance(obs, Field) else None
        desc = (f"month {m} -> {names[-1]} form" if m is not None else "non-month value must be returned unchanged with its type")
        return {"what": what + ": " + desc, "expected": short(exp) + " (" + type(exp).__name__ + ")",
                "observed": short(obs) + " (" + type(obs).__name__ + ")", "finding_key": key}
    return None


def check_single(spec):
    return check_value([spec["mw"]], spec["value"], spec["mw"])


def check_pair(spec):
    return check_value([spec["first"], spec["second"]], spec["value"], spec["second"] + " after " + spec["first"])


def check_nomonth(spec):
    fields = spec["fields"]
    entry = Entry("book", "k9", [Field(k, v, i) for i, (k, v) in enumerate(fields)], 4, "@raw9")
    try:
        lib = MW[spec["mw"]]().transform(Library([entry]))
    except Exception as e:
        return {"what": "a month middleware raised on an entry without month", "expected": "unchanged", "observed": f"{type(e).__name__}: {e}"}
    if len(lib.blocks) != 1 or not isinstance(lib.blocks[0], Entry):
        return {"what": "entry without month not returned as one Entry", "expected": "[Entry]", "observed": short(lib.blocks)}
    e = lib.blocks[0]
    obs = (e.entry_type, e.key, e.start_line, e.raw, [[f.key, f.value] for f in e.fields])
    exp = ("book", "k9", 4, "@raw9", [list(x) for x in fields])
    if obs != exp or any(type(f.value) is not type(x[1]) for f, x in zip(e.fields, fields)):
        return {"what": "entry without a month field changed", "expected": short(exp), "observed": short(obs)}
    return None


def check_noraise(spec):
    try:
        run([spec["mw"]], spec["value"])
    except Exception as e:
        return {"what": "month middleware raised ('no value whatsoever makes the middleware raise')", "expected": "no exception",
                "observed": f"{type(e).__name__}: {e}", "finding_key": classify_exception(e, spec["value"])}
    return None


CHECKS = {"C15.single": check_single, "C15.pair": check_pair, "C15.nomonth": check_nomonth, "C15.noraise": check_noraise}


# --------------------------------------------------------------------------------------------- generation
def case_variants(word):
    for bits in itertools.product((False, True), repeat=len(word)):
        yield "".join(c.upper() if b else c.lower() for c, b in zip(word, bits))


def spellings(m):
    yield m
    for z in range(4):
        yield "0" * z + str(m)
    seen = set()
    for w in TABLE[m - 1]:
        for s in case_variants(w):
            if s not in seen:          # 'may' is both abbreviation and full name
                seen.add(s)
                yield s


NON_MONTHS = [0, 13, -1, 100, "0", "13", "00", "013", "0000", "99", "{jan}", '"1"', '"jan"', "{1}", "{January}", "foo", "", "janu", "ja",
              "sept", "januar", " jan", "jan ", "1 ", "+1", "-1", "1.0", "jan.", None, 1.5, ["jan"]]
NOMONTH_ENTRIES = [[], [["title", "{T}"]], [["year", "1990"], ["author", "{A}"]], [["Month", "jan"], ["months", "1"]], [["mon", 3], ["title", "jan"]]]


def numeric_code_points():
    for cp in range(sys.maxunicode + 1):
        if 0xD800 <= cp <= 0xDFFF:
            continue
        c = chr(cp)
        if c.isdigit() or c.isdecimal() or c.isnumeric():
            yield c


def generate(tier, rng):
    pairs = [(x, y) for x in MW_NAMES for y in MW_NAMES]
    # smallest first: ints and digit strings of every month, then non-months, then the letter-case variants
    all_sp = [list(spellings(m)) for m in range(1, 13)]
    numeric_first = [s for sp in all_sp for s in sp[:5]]
    letters = [s for sp in all_sp for s in sp[5:]]
    for group in (numeric_first, NON_MONTHS, letters):
        for v in group:
            for mw in MW_NAMES:
                yield "C15.single", {"mw": mw, "value": v}, v != ""
        for v in group:
            for x, y in pairs:
                yield "C15.pair", {"first": x, "second": y, "value": v}, v != ""
    for fields in NOMONTH_ENTRIES:
        for mw in MW_NAMES:
            yield "C15.nomonth", {"mw": mw, "fields": fields}, True
    # no-exception claim: numeric code points, then random Unicode
    pool = list(numeric_code_points())
    for c in pool:
        for mw in MW_NAMES:
            yield "C15.noraise", {"mw": mw, "value": c}, True
    ascii_pool = "0123456789 janJANfebMay{}\"-+._"
    for _ in range(2000 if tier == "quick" else 20000):
        n = rng.randrange(0, 7)
        chars = []
        for _ in range(n):
            r = rng.random()
            if r < 0.45:
                chars.append(rng.choice(pool))
            elif r < 0.75:
                chars.append(rng.choice(ascii_pool))
            else:
                cp = rng.randrange(0, sys.maxunicode + 1)
                while 0xD800 <= cp <= 0xDFFF:
                    cp = rng.randrange(0, sys.maxunicode + 1)
                chars.append(chr(cp))
        v = "".join(chars)
        yield "C15.noraise", {"mw": rng.choice(MW_NAMES), "value": v}, v != ""
