#!/usr/bin/env python3
"""Debugging aid: generate the obligations of one function, pick those whose name contains a substring, split
the goal into conjuncts and try each conjunct alone (z3 CLI, then cvc5).

usage: python3-vt tools/diag.py <modules,comma> <function qualname> <obligation substring> [seconds]"""
import os
import subprocess
import sys
import tempfile

sys.path.insert(0, os.path.dirname(os.path.dirname(os.path.abspath(__file__))))
import z3  # noqa: E402
from pyvc import driver, bigstack, solve  # noqa: E402
from pyvc.symex import Obligation  # noqa: E402


def conjuncts(g):
    if z3.is_and(g):
        return [c for ch in g.children() for c in conjuncts(ch)]
    if z3.is_quantifier(g) and g.is_forall() and z3.is_implies(g.body()) and z3.is_and(g.body().arg(1)):
        vs = [z3.Const(g.var_name(i), g.var_sort(i)) for i in range(g.num_vars())]
        body = z3.substitute_vars(g.body(), *reversed(vs))
        return [z3.ForAll(vs, z3.Implies(body.arg(0), c)) for c in conjuncts(body.arg(1))]
    if z3.is_implies(g) and z3.is_and(g.arg(1)):
        return [z3.Implies(g.arg(0), c) for c in conjuncts(g.arg(1))]
    if z3.is_quantifier(g) and not g.is_forall() and not g.is_lambda():
        pass
    return [g]


def main():
    mods, fn, sub = sys.argv[1].split(","), sys.argv[2], sys.argv[3]
    secs = int(sys.argv[4]) if len(sys.argv) > 4 else 20
    eng = driver.make_engine(mods)
    c = eng.contracts[fn]
    eng.verify_function(eng.repo.funcs[fn.split("#")[0]], c)
    obs = [o for o in eng.obligations if sub in o.name and not o.expect_sat]
    print(len(obs), "obligations match")
    for o in obs:
        print("==", o.name, " ".join(o.trace))
        for i, cj in enumerate(conjuncts(o.goal)):
            o2 = Obligation(o.name, o.kind, o.hyps, cj)
            o2.reveals = o.reveals
            out = []
            for lite in (False, True):
                text = solve.build_query(o2, lite=lite)
                with tempfile.NamedTemporaryFile("w", suffix=".smt2", delete=False) as f:
                    f.write(text + "\n(check-sat)\n")
                r = solve._run_z3_cli(f.name, secs)
                if r == "unknown":
                    r = "cvc5:" + solve.solve_cvc5(text, secs)[0]
                os.unlink(f.name)
                out.append(r)
                if r in ("unsat", "cvc5:unsat"):
                    break
            w = int(os.environ.get("DIAG_W", "160"))
            print(f"   [{i}] {out}  {str(cj)[:w]!r}")


bigstack.run(main)
