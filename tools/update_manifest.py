#!/usr/bin/env python3
"""Regenerate MANIFEST.json from contracts/properties.py (single source of truth) and validate it."""
import json
import os
import sys

VERIF = os.path.dirname(os.path.dirname(os.path.abspath(__file__)))
sys.path.insert(0, VERIF)
from contracts.properties import PROPS, ENGINE_NOTE, NOT_BUILT  # noqa

props = [json.loads(l) for l in open(os.path.join(VERIF, "properties.jsonl"))]
checks, na = [], []
for p in props:
    pid = p["id"]
    cfg = PROPS.get(pid)
    if cfg and cfg.get("claimed", True):
        checks.append({
            "property_id": pid,
            "quick_cmd": f"python3-vt check.py {pid} --tier quick",
            "thorough_cmd": f"python3-vt check.py {pid} --tier thorough",
            "evidence_file": f"evidence/{pid}.json",
            "replay_cmd_template": f"python3-vt check.py {pid} --replay {{path}}",
            "engine": "pyvc",
            "level_claimed": {"category": cfg["level"], "text": cfg["level_text"], "design_ref": f"DESIGN.md section 7 ({pid})"},
            "level_note": cfg["level_note"],
            "technique": cfg.get("technique", (
                "contract-based deductive verification decides every clause: verification conditions generated from the real AST of %d function contract(s)%s "
                "against sidecar contracts, discharged by z3 / cvc5 for all inputs; the bounded native layer only re-checks the same clauses (labelled bounded)"
                if cfg["level"] == "proof" else
                "contract-based deductive verification decides the clauses listed as proved in level_claimed.text: verification conditions generated from the real "
                "AST of %d function contract(s)%s against sidecar contracts, discharged by z3 / cvc5 for all inputs; the clauses listed as bounded are decided by the "
                "native layer (enumeration / sampling against an independent oracle, labelled bounded, never counted as proved)")
                % (len(cfg.get("functions", [])), (" and %d lemma(s)" % len(cfg["lemmas"])) if cfg.get("lemmas") else "")),
        })
    else:
        na.append({"property_id": pid, "reason": NOT_BUILT.get(pid, "check not built yet (work in progress, see DESIGN.md section 12)")})
m = {
    "version": 1,
    "setup_cmd": "true",
    "hooks": {"guard": "BIBTEXPARSER_VERIF", "enable": "none: contracts are sidecar files, /repo carries no hooks (only fix: commits)",
              "baseline_off_cmd": "cd /repo && /venv/bin/python -m pytest -q -p no:cacheprovider --timeout=900",
              "source_commits": [], "add_only": True},
    "engines": [{"name": "pyvc", "path": "pyvc/", "serves_properties": [c["property_id"] for c in checks], "kind_free_text": ENGINE_NOTE}],
    "checks": checks,
    "notes": "see DESIGN.md; known_findings.json lists repaired defects (fix: commits in /repo) and known findings",
    "not_applicable": na,
}
json.dump(m, open(os.path.join(VERIF, "MANIFEST.json"), "w"), indent=1)
try:
    import jsonschema
    jsonschema.validate(m, json.load(open("/root/.vp/MANIFEST.schema.json")))
    print("MANIFEST valid:", len(checks), "checks,", len(na), "not applicable")
except ImportError:
    print("written (jsonschema not available for validation)")
