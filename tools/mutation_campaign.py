#!/usr/bin/env python3
"""Mutation campaign: how many small changes of the functions under contract does the proof layer notice?

usage: python3-vt tools/mutation_campaign.py <property> [--per-function N] [--seed S] [--native] [--only TEXT]

For every verified function of the property (contracts/properties.py) the source text of the function is mutated by
simple operators (comparison / arithmetic / boolean / index tweaks), one mutant at a time, in a scratch copy of the
package under /tmp (removed afterwards; /repo is never touched).  The function is re-verified against its contract.
A mutant is
  killed-by-proof   an obligation fails or becomes undecided, or the construct leaves the modelled subset;
  killed-by-bounded (with --native) the proof layer accepts it but the property's bounded layer reports a violation;
  survived          neither notices it (an equivalent mutant, or a clause the contract does not pin down).
Mutants are not filtered by the repository's test suite; the campaign measures the contracts, not the tests.
The report goes to mutation/<property>.json."""
import argparse
import ast
import json
import os
import random
import re
import shutil
import subprocess
import sys
import tempfile
import time

VERIF = os.path.dirname(os.path.dirname(os.path.abspath(__file__)))
sys.path.insert(0, VERIF)

OPS = [(" == ", " != "), (" != ", " == "), (" < ", " <= "), (" <= ", " < "), (" > ", " >= "), (" >= ", " > "),
       (" + 1", " + 2"), (" + 1", ""), (" - 1", " - 2"), (" - 1", ""), (" and ", " or "), (" or ", " and "),
       ("not ", ""), ("True", "False"), ("False", "True"), (".start()", ".end()"), (".end()", ".start()"),
       ("[1:]", "[2:]"), ("[1:-1]", "[1:]"), (" is None", " is not None"), (" is not None", " is None"),
       (" += 1", " += 2"), (" -= 1", " -= 2"), ("append(", "insert(0, "), (" in ", " not in "), (" not in ", " in ")]


def string_spans(src):
    """(line index, col start, col end) of every string / comment token: mutations inside them change no behaviour"""
    import io
    import tokenize
    import textwrap
    spans = []
    ded = textwrap.dedent(src)
    shift = len(src.split("\n")[0]) - len(ded.split("\n")[0])
    try:
        for tok in tokenize.generate_tokens(io.StringIO(ded).readline):
            if tok.type in (tokenize.STRING, tokenize.COMMENT) or tok.type == getattr(tokenize, "FSTRING_MIDDLE", -1):
                (l0, c0), (l1, c1) = tok.start, tok.end
                for ln in range(l0, l1 + 1):
                    spans.append((ln - 1, (c0 if ln == l0 else 0) + shift, (c1 if ln == l1 else 10 ** 6) + shift))
    except (tokenize.TokenError, IndentationError):
        pass
    return spans


def mutants_of(src):
    out = []
    lines = src.split("\n")
    spans = string_spans(src)
    for li, line in enumerate(lines):
        stripped = line.strip()
        if not stripped or stripped.startswith(("#", '"""', "'''", "def ", "@")) or "logger." in line:
            continue
        for old, new in OPS:
            for m in re.finditer(re.escape(old), line):
                if any(l == li and c0 <= m.start() < c1 for (l, c0, c1) in spans):
                    continue
                ml = line[:m.start()] + new + line[m.end():]
                cand = "\n".join(lines[:li] + [ml] + lines[li + 1:])
                try:
                    ast.parse("if 1:\n" + "\n".join("    " + x for x in cand.split("\n")) if cand.startswith((" ", "\t")) else cand)
                except SyntaxError:
                    try:
                        import textwrap
                        ast.parse(textwrap.dedent(cand))
                    except SyntaxError:
                        continue
                out.append((li, old.strip(), new.strip(), cand))
    return out


def main():
    ap = argparse.ArgumentParser()
    ap.add_argument("pid")
    ap.add_argument("--per-function", type=int, default=8)
    ap.add_argument("--seed", type=int, default=0)
    ap.add_argument("--native", action="store_true")
    ap.add_argument("--only", default="", help="only functions whose qualified name contains this text; the report goes to mutation/<property>-<only>.json")
    a = ap.parse_args()
    from contracts import properties as P
    cfg = P.PROPS[a.pid]
    from pyvc.extract import Repo
    repo = Repo()
    rng = random.Random(a.seed)
    report = {"property": a.pid, "seed": a.seed, "per_function": a.per_function, "mutants": []}
    seen_fn = set()
    for q in cfg["functions"]:
        base = q.split("#")[0]
        fi = repo.funcs.get(base)
        if fi is None or base in seen_fn or a.only not in base:
            continue
        seen_fn.add(base)
        variants = [x for x in cfg["functions"] if x.split("#")[0] == base]
        relfile = fi.module.replace(".", "/") + ".py"
        path = os.path.join("/repo", relfile)
        text = open(path).read()
        seg = ast.get_source_segment(text, fi.node)
        if seg is None or text.count(seg) != 1:
            continue
        ms = mutants_of(seg)
        rng.shuffle(ms)
        for (li, old, new, cand) in ms[:a.per_function]:
            d = tempfile.mkdtemp(prefix="mutc-", dir="/tmp")
            try:
                shutil.copytree("/repo/bibtexparser", os.path.join(d, "bibtexparser"))
                open(os.path.join(d, relfile), "w").write(text.replace(seg, cand))
                t0 = time.time()
                env = dict(os.environ, VERIF_REPO=d, PYTHONHASHSEED="0")
                code = ("import sys; sys.path.insert(0, %r)\n"
                        "from pyvc import driver, bigstack\n"
                        "eng, verdicts, _ = bigstack.run(driver.run, %r, %r, 10000, False)\n"
                        "bad = sorted({(v.status, v.name) for v in verdicts if v.status != 'proved' and not v.name.endswith('@known')})\n"
                        "import json; print('RESULT ' + json.dumps({'bad': bad[:6], 'problems': [list(x)[:2] for x in eng.problems][:3]}))\n") % (VERIF, variants, cfg.get("modules"))
                p = subprocess.run(["python3-vt", "-c", code], capture_output=True, text=True, env=env, timeout=1500, cwd=VERIF)
                res = None
                for ln in p.stdout.splitlines():
                    if ln.startswith("RESULT "):
                        res = json.loads(ln[7:])
                rec = {"function": base, "line": seg.split("\n")[li].strip()[:100], "op": f"{old} -> {new}", "proof_s": round(time.time() - t0, 1)}
                if res is None:
                    rec["verdict"] = "checker-error"
                    rec["detail"] = p.stderr[-300:]
                elif res["bad"] or res["problems"]:
                    rec["verdict"] = "killed-by-proof"
                    rec["detail"] = [b[1].split("/", 1)[1] + ":" + b[0] for b in res["bad"][:3]] + [str(x)[:80] for x in res["problems"][:1]]
                else:
                    rec["verdict"] = "survived-proof"
                    if a.native and cfg.get("native"):
                        env2 = dict(os.environ, PYTHONPATH=d + ":" + VERIF, VERIF_NATIVE_BUDGET="90")
                        pn = subprocess.run(["/venv/bin/python", os.path.join(VERIF, "native", "run.py"), a.pid, "--tier", "quick", "--seed", "0"],
                                            capture_output=True, text=True, env=env2, timeout=900, cwd="/")
                        try:
                            nres = json.loads(pn.stdout.strip().splitlines()[-1])
                            nv = [v for v in nres.get("violations", [])]
                            rec["verdict"] = "killed-by-bounded" if nv else "survived"
                            rec["bounded"] = [v.get("check") for v in nv[:3]]
                        except Exception:
                            rec["verdict"] = "killed-by-bounded" if pn.returncode != 0 else "survived"
                            rec["bounded"] = ["native layer crashed: " + pn.stderr[-120:]]
                report["mutants"].append(rec)
                print(f"{rec['verdict']:18s} {base.split('.')[-1]:40s} {rec['op']:16s} {rec['line'][:60]}", flush=True)
            finally:
                shutil.rmtree(d, ignore_errors=True)
    from collections import Counter
    report["summary"] = dict(Counter(m["verdict"] for m in report["mutants"]))
    os.makedirs(os.path.join(VERIF, "mutation"), exist_ok=True)
    json.dump(report, open(os.path.join(VERIF, "mutation", a.pid + ("-" + a.only if a.only else "") + ".json"), "w"), indent=1)
    print("SUMMARY", a.pid, report["summary"])


if __name__ == "__main__":
    main()
