#!/bin/sh
# usage: tools/diag_mods.sh <modules> <function> <obligation substring> [seconds]
cd "$(dirname "$0")/.." && exec python3-vt tools/diag.py "$@"
