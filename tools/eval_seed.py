#!/usr/bin/env python3
"""Validate a seeded change and run the registered check(s) against it.

usage: tools/eval_seed.py <prop> <label> <patch.diff> <demo.py> [--checks C06,C05] [--store]

1. validation in a scratch git worktree of /repo (outside /repo and /verif, removed afterwards): the patch applies, the
   unedited test suite passes with it, the demo fails with it and passes without it;
2. detection: the patch is applied to /repo itself (git apply), the listed checks run, the patch is undone
   (git checkout -- .) straight afterwards;
3. with --store the change is kept as /verif/seeded/<prop><label>/ {patch.diff, demo.py, meta.json}.
"""
import argparse
import json
import os
import shutil
import subprocess
import sys
import tempfile
import time

VERIF = os.path.dirname(os.path.dirname(os.path.abspath(__file__)))


def sh(cmd, cwd=None, env=None, timeout=1800):
    p = subprocess.run(cmd, shell=True, cwd=cwd, env=env, capture_output=True, text=True, timeout=timeout)
    return p.returncode, (p.stdout + p.stderr)


def main():
    ap = argparse.ArgumentParser()
    ap.add_argument("prop")
    ap.add_argument("label")
    ap.add_argument("patch")
    ap.add_argument("demo")
    ap.add_argument("--checks")
    ap.add_argument("--store", action="store_true")
    ap.add_argument("--needs", default="")
    ap.add_argument("--skip-validate", action="store_true")
    a = ap.parse_args()
    patch, demo = os.path.abspath(a.patch), os.path.abspath(a.demo)
    meta = {"property": a.prop, "label": a.label, "needs_to_manifest": a.needs, "ran": []}
    old_meta = os.path.join(VERIF, "seeded", a.prop + a.label, "meta.json")
    if not a.needs and os.path.exists(old_meta):
        meta["needs_to_manifest"] = json.load(open(old_meta)).get("needs_to_manifest", "")
    ok = True
    if not a.skip_validate:
        wt = tempfile.mkdtemp(prefix="seedval-", dir="/tmp")
        os.rmdir(wt)
        rc, out = sh(f"git -C /repo worktree add -q --detach {wt} HEAD")
        try:
            env = dict(os.environ, PYTHONPATH=wt)
            rc0, o0 = sh(f"/venv/bin/python {demo}", cwd=wt, env=env)
            rc, o = sh(f"git apply {patch}", cwd=wt)
            if rc != 0:
                print("PATCH DOES NOT APPLY", o[-500:])
                ok = False
            rc1, o1 = sh("/venv/bin/python -m pytest -q -p no:cacheprovider --timeout=900 tests 2>&1 | tail -1", cwd=wt, env=env)
            rc2, o2 = sh(f"/venv/bin/python {demo}", cwd=wt, env=env)
            meta["ran"] += [f"demo on the unchanged tree: exit {rc0}", f"test suite with the change: {o1.strip()}", f"demo with the change: exit {rc2}"]
            meta["suite_with_change"] = o1.strip()
            meta["demo_exit_unchanged"], meta["demo_exit_changed"] = rc0, rc2
            if rc0 != 0 or rc2 == 0 or "2431 passed" not in o1:
                ok = False
            print(f"validate: demo unchanged exit={rc0}  suite: {o1.strip()}  demo changed exit={rc2}  -> {'OK' if ok else 'REJECTED'}")
        finally:
            sh(f"git -C /repo worktree remove --force {wt}")
            shutil.rmtree(wt, ignore_errors=True)
    checks = [c for c in (a.checks or a.prop).split(",") if c]
    results = {}
    rc, st = sh("git -C /repo status --porcelain")
    if st.strip():
        print("REFUSING: /repo has uncommitted changes:\n" + st)
        return 2
    rc, o = sh(f"git -C /repo apply {patch}")
    if rc != 0:
        print("cannot apply to /repo:", o[-300:])
        return 2
    # the evidence files under /verif/evidence must come from runs against /repo itself: keep them aside while the
    # changed tree is checked and put them back afterwards
    saved_ev = {}
    for c in checks:
        ep = os.path.join(VERIF, "evidence", c + ".json")
        if os.path.exists(ep):
            saved_ev[ep] = open(ep).read()
    try:
        for c in checks:
            t0 = time.time()
            rc, out = sh(f"python3-vt check.py {c} --tier quick", cwd=VERIF, timeout=3600)
            lines = [l for l in out.splitlines() if l.startswith(("VIOLATION", "UNDECIDED", "CHECKER-ERROR", "KNOWN-FINDING"))]
            results[c] = {"exit": rc, "wall_s": round(time.time() - t0, 1), "violations": [l for l in lines if l.startswith("VIOLATION")][:8],
                          "undecided": [l for l in lines if l.startswith("UNDECIDED")][:8], "errors": [l for l in lines if l.startswith("CHECKER")][:3]}
            print(f"  check {c}: exit={rc} wall={results[c]['wall_s']}s  violations={len([l for l in lines if l.startswith('VIOLATION')])} "
                  f"undecided={len([l for l in lines if l.startswith('UNDECIDED')])}")
            for l in results[c]["violations"][:4] + results[c]["undecided"][:3] + results[c]["errors"]:
                print("     ", l[:230])
            # keep the replay files of this run next to the seeded change
            if a.store:
                rd = os.path.join(VERIF, "replays", c)
                dst = os.path.join(VERIF, "seeded", a.prop + a.label, "replays_" + c)
                if os.path.isdir(rd):
                    shutil.rmtree(dst, ignore_errors=True)
                    os.makedirs(dst, exist_ok=True)
                    for l in results[c]["violations"][:4]:
                        pth = l.split("replay=")[1].split()[0]
                        if os.path.exists(pth):
                            shutil.copy(pth, dst)
    finally:
        for ep, txt in saved_ev.items():
            open(ep, "w").write(txt)
        sh("git -C /repo checkout -- .")
        rc, st = sh("git -C /repo status --porcelain")
        if st.strip():
            print("WARNING: /repo not clean after undo:", st)
    meta["checks"] = results
    meta["detected_by"] = [c for c, r in results.items() if r["exit"] == 1]
    meta["validated"] = ok
    if a.store and (ok or a.skip_validate):
        d = os.path.join(VERIF, "seeded", a.prop + a.label)
        os.makedirs(d, exist_ok=True)
        for src, name in ((patch, "patch.diff"), (demo, "demo.py")):
            if os.path.abspath(src) != os.path.join(d, name):
                shutil.copy(src, os.path.join(d, name))
        json.dump(meta, open(os.path.join(d, "meta.json"), "w"), indent=1)
    return 0


if __name__ == "__main__":
    sys.exit(main())
