#!/bin/bash
# run every registered quick check sequentially; print exit code and wall time per property
cd "$(dirname "$0")/.."
for p in $(python3 -c "import json;print(' '.join(c['property_id'] for c in json.load(open('MANIFEST.json'))['checks']))"); do
  s=$(date +%s)
  out=$(python3-vt check.py $p --tier ${1:-quick} 2>&1); rc=$?
  e=$(date +%s)
  echo "$p exit=$rc wall=$((e-s))s $(echo "$out" | grep -c '^VIOLATION') violations $(echo "$out" | grep -c '^UNDECIDED') undecided $(echo "$out" | grep -c '^KNOWN-FINDING') known"
  echo "$out" | grep '^VIOLATION\|^UNDECIDED\|^CHECKER' | head -5
done
