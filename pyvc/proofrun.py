"""Proof layer of one property: VC generation for its functions, discharge, baseline floor, evidence."""
import json
import os
import time

import z3

from . import driver, solve
from . import builtins_model as bm
from .extract import DROPPED
from .symex import EngineError

VERIF = os.path.dirname(os.path.dirname(os.path.abspath(__file__)))

TRUSTED_GLOBAL = [
    "A-PY: CPython executes the extracted statements with the semantics encoded in pyvc (ints unbounded, str as z3 strings, component heap); no MemoryError/signals",
    "A-SCHEMA: attribute kinds of contracts/schema.py (the repository's own annotations) hold of every heap quantified over",
    "A-CLOSED: the classes of the repository are the only subclasses of its classes (no user subclasses)",
    "A-LOG: logging / warnings.warn calls are no-ops whose arguments are not evaluated",
]


def run_property(pid, cfg, tier, known):
    t0 = time.time()
    out = {"coverage": {}, "assumptions": list(TRUSTED_GLOBAL), "failed": [], "undecided": [], "known_hit": [], "error": None}
    try:
        eng = driver.make_engine(cfg.get("modules"))
    except Exception as e:
        out["error"] = f"contracts failed to load: {type(e).__name__}: {e}"
        return out
    eng.carveouts = {k["obligation"]: k for k in known if k.get("obligation")}
    eng.prop_filter = pid
    eng.prop_tags = cfg.get("tags", [pid])      # clauses tagged for these properties are obligations of this check
    fn_info = []
    summaries = {}
    for q in cfg["functions"]:
        c = eng.contracts.get(q)
        if c is None:
            out["error"] = f"property {pid} lists {q} but no contract is registered for it"
            return out
        fi = eng.repo.funcs.get(q.split('#')[0])
        if fi is None:
            eng.problems.append((q + "/function", "contracted function no longer exists in the repository"))
            continue
        if c.trusted:
            fn_info.append({"function": q, "sha": fi.sha, "status": "ASSUMED (trusted contract, body not verified)"})
            out["assumptions"].append(f"assumed contract (not verified): {q}")
            continue
        try:
            summaries[q] = eng.verify_function(fi, c)
            fn_info.append({"function": q, "sha": fi.sha, "paths": summaries[q]["paths"]})
        except EngineError as e:
            eng.problems.append((q + "/body", f"outside the modelled subset: {e}"))
            fn_info.append({"function": q, "sha": fi.sha, "status": "undecided"})
        except RecursionError:
            eng.problems.append((q + "/body", "symbolic execution exceeded the recursion budget"))
    for ln in cfg.get("lemmas", []):
        try:
            eng.verify_lemma(ln, eng.lemmas[ln])
        except (EngineError, KeyError) as e:
            eng.problems.append(("lemma:" + ln, f"{type(e).__name__}: {e}"))
    t_gen = time.time() - t0
    timeout_ms = 10000 if tier == "quick" else 60000
    obs = eng.obligations
    verdicts = solve.discharge(obs, timeout_ms=timeout_ms, cvc5_timeout=15 if tier == "quick" else 60)
    groups = solve.group_by_name(verdicts)

    names = sorted(groups)
    # ---- baseline floor
    bpath = os.path.join(VERIF, "baseline", "obligations.json")
    base = json.load(open(bpath)).get(pid, []) if os.path.exists(bpath) else None
    if os.environ.get("VERIF_WRITE_BASELINE"):
        base = None          # the floor is being regenerated from this run
    missing = []
    if base is not None:
        have = set(names) | {n for n, _ in eng.problems}
        for b in base:
            # obligations that exist only when a (possibly infeasible) exceptional / dynamically typed path is
            # explored are not part of the floor: their presence depends on path pruning, not on the contracts
            if "/raises#no-" in b or "/type#" in b:
                continue
            if b not in have:
                missing.append(b)
    proved = [n for n in names if groups[n][0] == "proved"]
    failed = [n for n in names if groups[n][0] == "failed"]
    undec = [n for n in names if groups[n][0] == "undecided"]

    for n in failed:
        if n.endswith("@known"):
            continue
        vs = [v for v in groups[n][1] if v.status == "failed"]
        v = vs[0]
        concrete, cnote = None, ""
        fq = n.split("/")[0]
        fbase = fq.split("#")[0]
        if fbase in eng.repo.funcs and fq in eng.contracts and v.ob.entry[0] is not None:
            from .concretize import concretize
            for cand in vs[:3]:
                try:
                    concrete, cnote = concretize(eng, cand.ob, eng.repo.funcs[fbase], eng.contracts[fq])
                except Exception as e:
                    concrete, cnote = None, f"concretisation failed: {type(e).__name__}: {e}"
                if concrete:
                    v = cand
                    break
        out["failed"].append({
            "concretisation": cnote,
            "kind": "obligation", "property": pid, "name": n, "obligation_kind": v.kind, "clause": v.note,
            "function": fq, "source_sha": eng.repo.funcs[fbase].sha if fbase in eng.repo.funcs else None,
            "solver": v.solver, "solver_output": "sat", "path": " ".join(v.trace), "model": v.model,
            "failing_paths": len(vs), "concrete": concrete, "replayed": False,
            "note": "counter-model of the verification condition; concrete inputs could not be reconstructed automatically"})
    # known findings: the carved obligation must be proved, the un-carved twin must still fail
    for name, kf in eng.carveouts.items():
        twin = name + "@known"
        if twin in groups:
            if groups[twin][0] != "proved":       # twin goal is the ORIGINAL clause: failing/undecided = still a finding
                out["known_hit"].append(kf)
            else:
                print(f"NOTE: known finding no longer reproduces at the obligation level: {kf['what']}")
    for n in undec:
        if n.endswith("@known"):
            continue
        v = groups[n][1][0]
        entry = {"name": n, "reason": (v.reason or "unknown") + f" ({v.solver})"}
        # candidate search (bounded stand-in job 3): a model of the query WITHOUT its quantified hypotheses, turned into
        # concrete inputs; check.py replays it on the real code and reports it only if it is a legal, violating input
        fq = n.split("/")[0]
        fbase = fq.split("#")[0]
        if fbase in eng.repo.funcs and fq in eng.contracts and v.ob.entry[0] is not None and n not in eng.carveouts:
            from .concretize import concretize
            for cand in [x for x in groups[n][1] if x.status == "undecided"][:2]:
                try:
                    concrete, cnote = concretize(eng, cand.ob, eng.repo.funcs[fbase], eng.contracts[fq], drop_quantified=True)
                except Exception as e:
                    concrete, cnote = None, f"{type(e).__name__}: {e}"
                if concrete:
                    entry["candidate"] = {"kind": "obligation", "property": pid, "name": n, "obligation_kind": v.kind, "clause": v.note, "function": fq,
                                          "source_sha": eng.repo.funcs[fbase].sha, "solver": "z3 (quantifier-free part)", "solver_output": "candidate model",
                                          "path": " ".join(cand.trace), "concrete": concrete, "concretisation": cnote, "strict_requires": True,
                                          "note": "candidate found for an undecided obligation; counts only when the native replay confirms a legal violating input"}
                    break
        out["undecided"].append(entry)
    for n, msg in eng.problems:
        out["undecided"].append({"name": n, "reason": msg})
    for n in missing:
        out["undecided"].append({"name": n, "reason": "obligation of the baseline was not generated on this tree (contracted construct disappeared)"})

    real = [n for n in names if not n.endswith("@known")]
    n_ob = len(real) + len(eng.problems) + len(missing)
    n_dis = len([n for n in real if groups[n][0] == "proved"])
    if n_ob == 0:
        out["error"] = f"zero obligations generated for {pid}"
        return out
    times = sorted(((v.seconds, v.name) for v in verdicts), reverse=True)
    by_kind = {}
    for n in real:
        k = groups[n][1][0].kind
        by_kind[k] = by_kind.get(k, 0) + 1
    samples = []
    for n in real[:: max(1, len(real) // 6)][:6]:
        st, vs = groups[n]
        samples.append({"obligation": n, "clause": vs[0].note[:300], "queries": len(vs), "result": st, "solver": vs[0].solver,
                        "seconds": round(sum(v.seconds for v in vs), 3)})
    uf_used = sorted({d for d in bm.UF_DOC})
    cov = out["coverage"]
    cov.update({
        "obligations": n_ob, "discharged": n_dis,
        "queries": len(verdicts),
        "checker_cmd": f"python3-vt check.py {pid} --tier {tier}",
        "trusted_base": TRUSTED_GLOBAL + sorted(cfg.get("trusted", [])) + [f"uninterpreted: {k} = {v}" for k, v in bm.UF_DOC.items()]
                        + sorted(f"external: {x}" for x in eng.trusted_used),
        "functions_under_contract": fn_info,
        "obligations_by_kind": by_kind,
        "solver_result_cache": {"answered_from_cache": sum(1 for v in verdicts if v.solver.endswith("(cached)")),
                                "note": "a cached answer is only ever used for a byte-identical query text; the text is regenerated from /repo's source on every run"},
        "solver_time_s": {"total": round(sum(v.seconds for v in verdicts), 2), "max": round(times[0][0], 2) if times else 0,
                          "slowest": [{"s": round(s, 2), "obligation": n} for s, n in times[:5]]},
        "solvers": {"z3": len([v for v in verdicts if v.solver == "z3"]), "cvc5": len([v for v in verdicts if v.solver == "cvc5"])},
        "vcgen_s": round(t_gen, 2),
        "covers_sat": len([n for n in real if "/cover#" in n and groups[n][0] == "proved"]),
        "samples": samples,
        "extraction_dropped": DROPPED,
        "proved_clauses": cfg.get("proved_clauses", ""),
        "bounded_clauses": cfg.get("bounded_clauses", ""),
        "failed_obligations": [f["name"] for f in out["failed"]],
        "paths": eng.stats["paths"],
    })
    out["names"] = real
    return out
