"""Models of builtin functions and methods (assumed contracts, see builtins_model docstring)."""
import ast
import z3

from .vals import *
from .vals import PyVal
from .state import fresh, FAM_SORT

IntS, BoolS, StrS = z3.IntSort(), z3.BoolSort(), z3.StringSort()

BUILTIN_FUNCS = {"repr", "len", "isinstance", "max", "min", "int", "str", "list", "set", "dict", "sorted", "next",
                 "iter", "type", "getattr", "any", "all", "bool", "issubclass", "deepcopy", "copy", "noop_init",
                 "re.finditer", "enumerate", "zip", "range", "tuple", "abs"}


def _bm():
    from . import builtins_model
    return builtins_model


def _err(msg):
    from .symex import EngineError
    return EngineError(msg)


def isinstance_bool(eng, st, v, cls):
    """z3 Bool for isinstance(v, cls) ; cls is SClass or STuple of SClass"""
    bm = _bm()
    if isinstance(cls, (STuple, SConstSeq)):
        return z3.Or([isinstance_bool(eng, st, v, c) for c in cls.items])
    if isinstance(cls, SFunc) and cls.what == "typeof":
        w = cls.payload
        if isinstance(v, SDyn) and isinstance(w, (SRef, SOptRef)):
            kw = w.kind[4:] if isinstance(w, SRef) else w.inner[4:]
            rv = PyVal.rval(v.t)
            cv, cw = eng.cls_term(st, rv), eng.cls_term(st, w.t)
            pairs = [(a_, b_) for a_ in eng.repo.classes for b_ in eng.concrete_subclasses(kw) if eng.is_subclass(a_, b_)]
            return z3.And(PyVal.is_RefV(v.t), z3.Or([z3.And(cv == eng.class_ids[a_], cw == eng.class_ids[b_]) for a_, b_ in pairs] + [z3.BoolVal(False)]))
        if isinstance(v, (SRef, SOptRef)) and isinstance(w, SDyn):
            kv = v.kind[4:] if isinstance(v, SRef) else v.inner[4:]
            rw = PyVal.rval(w.t)
            cv, cw = eng.cls_term(st, v.t), eng.cls_term(st, rw)
            pairs = [(a_, b_) for a_ in eng.concrete_subclasses(kv) for b_ in eng.repo.classes if eng.is_subclass(a_, b_)]
            # type(w) for a non-object w (str, int, None, list ...) is never a repo class
            return z3.And(PyVal.is_RefV(w.t), z3.Or([z3.And(cv == eng.class_ids[a_], cw == eng.class_ids[b_]) for a_, b_ in pairs] + [z3.BoolVal(False)]))
        if isinstance(v, (SRef, SOptRef)) and isinstance(w, (SRef, SOptRef)):
            kv = v.kind[4:] if isinstance(v, SRef) else v.inner[4:]
            kw = w.kind[4:] if isinstance(w, SRef) else w.inner[4:]
            pairs = [(a_, b_) for a_ in eng.concrete_subclasses(kv) for b_ in eng.concrete_subclasses(kw) if eng.is_subclass(a_, b_)]
            cv, cw = eng.cls_term(st, v.t), eng.cls_term(st, w.t)
            return z3.Or([z3.And(cv == eng.class_ids[a_], cw == eng.class_ids[b_]) for a_, b_ in pairs] + [z3.BoolVal(False)])
        raise _err("isinstance(x, type(y)) on non-objects")
    name = cls.name
    if isinstance(v, SDyn):
        t = v.t
        if name == "str":
            return PyVal.is_StrV(t)
        if name == "int":
            return z3.Or(PyVal.is_IntV(t), PyVal.is_BoolV(t))
        if name == "bool":
            return PyVal.is_BoolV(t)
        if name in ("list", "dict", "set", "tuple"):
            return z3.And(PyVal.is_RefV(t), eng.cls_term(st, PyVal.rval(t)) == eng.class_ids[name])
        if name == "Collection":
            # str, list, tuple, set, dict are Collections; generators and repo objects are not
            return z3.Or(PyVal.is_StrV(t), z3.And(PyVal.is_RefV(t), z3.Or([eng.cls_term(st, PyVal.rval(t)) == eng.class_ids[c] for c in ("list", "tuple", "set", "dict")])))
        if name in eng.repo.classes or name in eng.class_ids:
            return z3.And(PyVal.is_RefV(t), eng.isinstance_term(st, PyVal.rval(t), name))
        raise _err(f"isinstance(dyn, {name})")
    if isinstance(v, SStr):
        return z3.BoolVal(name in ("str", "Collection", "object"))
    if isinstance(v, SBool):
        return z3.BoolVal(name in ("int", "bool", "object"))
    if isinstance(v, SInt):
        return z3.BoolVal(name in ("int", "object"))
    if isinstance(v, SNone):
        return z3.BoolVal(name in ("NoneType", "object"))
    if isinstance(v, STuple):
        return z3.BoolVal(name in ("tuple", "Collection", "object"))
    if isinstance(v, SRef):
        if v.kind.startswith("list:"):
            return z3.BoolVal(name in ("list", "Collection", "object"))
        if v.kind.startswith("dict:"):
            return z3.BoolVal(name in ("dict", "Collection", "object"))
        if v.kind.startswith("set:"):
            return z3.BoolVal(name in ("set", "Collection", "object"))
        if v.kind.startswith("ref:"):
            if name in ("str", "int", "bool", "list", "dict", "set", "tuple", "Collection"):
                return z3.BoolVal(False)
            return eng.isinstance_term(st, v.t, name)
    if isinstance(v, SOptRef):
        inner = SRef(v.t, v.inner)
        return z3.And(v.t != 0, isinstance_bool(eng, st, inner, cls))
    if isinstance(v, SRef) and v.kind == "ext":
        # an opaque third-party / file object is not an instance of a builtin value type or of a repository class
        return z3.BoolVal(False)
    raise _err(f"isinstance({v!r}, {name})")


def call_builtin(eng, name, bound_self, args, kwargs, st, fr, k, node=None):
    bm = _bm()
    if name == "noop_init":
        return k(st, SNone())
    if name == "len":
        (x,) = args
        if isinstance(x, SStr):
            return k(st, SInt(z3.Length(x.t)))
        if isinstance(x, SRef) and x.kind.startswith("list:"):
            return k(st, SInt(eng.list_len(st, x)))
        if isinstance(x, SRef) and x.kind.startswith("dict:"):
            return k(st, SInt(z3.Select(st.heap.get(("dn", bm.kfam(x.kind))), x.t)))
        if isinstance(x, SRef) and x.kind.startswith("set:"):
            return k(st, SInt(z3.Select(st.heap.get(("sn", bm.kfam(x.kind))), x.t)))
        if isinstance(x, (STuple, SConstSeq)):
            return k(st, SInt(len(x.items)))
        if isinstance(x, SSnap):
            return k(st, SInt(x.n))
        raise _err(f"len({x!r})")
    if name == "isinstance":
        return k(st, SBool(isinstance_bool(eng, st, args[0], args[1])))
    if name == "issubclass":
        a, b = args
        if isinstance(a, SClass) and isinstance(b, SClass):
            return k(st, SBool(eng.is_subclass(a.name, b.name)))
        raise _err("issubclass on non-constant classes")
    if name in ("max", "min"):
        if len(args) == 2 and all(isinstance(a, (SInt, SBool)) for a in args):
            x, y = bm.as_int(args[0]), bm.as_int(args[1])
            return k(st, SInt(z3.If(x >= y, x, y) if name == "max" else z3.If(x <= y, x, y)))
        raise _err(f"{name} of {args!r}")
    if name == "abs":
        x = bm.as_int(args[0])
        return k(st, SInt(z3.If(x >= 0, x, -x)))
    if name == "bool":
        return k(st, SBool(eng.truth(st, args[0])))
    if name == "int":
        (x,) = args
        if isinstance(x, (SInt, SBool)):
            return k(st, SInt(bm.as_int(x)))
        if isinstance(x, SStr):
            ok = bm.U["int_ok"](x.t)
            val = SInt(bm.U["int_of"](x.t))
            if st.spec:
                return k(st, val)
            return eng.branch(st, ok, lambda s: k(s, val), lambda s: eng.raise_new(s, "ValueError"), "int()")
        if isinstance(x, SDyn):
            t = x.t
            if st.spec:
                return k(st, SInt(z3.If(PyVal.is_StrV(t), bm.U["int_of"](PyVal.sval(t)), PyVal.ival(t))))
            def as_str(s):
                return call_builtin(eng, "int", None, [SStr(PyVal.sval(t))], {}, s, fr, k)
            def not_str(s):
                return eng.branch(s, z3.Or(PyVal.is_IntV(t), PyVal.is_BoolV(t)),
                                  lambda s2: k(s2, SInt(z3.If(PyVal.is_BoolV(t), z3.If(PyVal.bval(t), 1, 0), PyVal.ival(t)))),
                                  lambda s2: eng.raise_new(s2, "TypeError"), "int(dyn)")
            return eng.branch(st, PyVal.is_StrV(t), as_str, not_str, "int(dyn)str")
        raise _err(f"int({x!r})")
    if name == "str":
        (x,) = args
        return k(st, SStr(bm.format_value(eng, st, x)))
    if name == "repr":
        (x,) = args
        # A-REPR: the repr of an object is an uninterpreted, non-empty string
        t = x.t if x.t is not None else z3.IntVal(0)
        f = z3.Function("py_repr_" + str(t.sort()).replace(" ", "_").replace("(", "_").replace(")", "_").replace(",", "_"), t.sort(), StrS)
        r = f(t)
        st.assume(z3.Length(r) > 0)
        eng.trusted_used.add("A-REPR: repr() of an object is a non-empty string")
        return k(st, SStr(r))
    if name == "type":
        (x,) = args
        if isinstance(x, SRef) and x.kind.startswith("ref:"):
            v = SFunc("typeof", x)
            return k(st, v)
        if isinstance(x, SStr):
            return k(st, SClass("str"))
        return k(st, SFunc("typeof", x))
    if name == "getattr":
        obj, nm = args[0], args[1]
        lit = bm.literal_str(nm.t) if isinstance(nm, SStr) else None
        if lit is None:
            raise _err("getattr with symbolic name")
        if len(args) == 3:
            default = args[2]
            outs = eng.get_attr(obj, lit, st, fr, k)
            res = []
            for (s, kind, payload) in outs:
                if kind == "raise" and payload.cls == "AttributeError":
                    res += k(s, default)
                else:
                    res.append((s, kind, payload))
            return res
        return eng.get_attr(obj, lit, st, fr, k)
    if name == "list":
        if not args:
            return k(st, eng.new_list(st, getattr(node, "_kind", "list:any")[5:]))
        (x,) = args
        return to_list(eng, x, st, fr, k)
    if name == "tuple":
        (x,) = args
        return to_list(eng, x, st, fr, k)
    if name == "dict":
        if not args:
            return k(st, bm.new_dict(eng, st, getattr(node, "_kind", "dict:str:any")))
        raise _err("dict(x)")
    if name == "set":
        kind = getattr(node, "_kind", "set:str")
        if not args:
            return k(st, new_set(eng, st, kind))
        return set_from(eng, args[0], st, fr, k, kind)
    if name in ("deepcopy", "copy"):
        from .copy_model import deepcopy_model
        return deepcopy_model(eng, args[0], st, fr, k, deep=(name == "deepcopy"))
    if name == "iter":
        (x,) = args
        if isinstance(x, SStr):
            r = st.new_ref()
            it = SRef(r, "iter:str")
            it.src = x
            st.heap.set(("ipos",), z3.Store(st.heap.get(("ipos",)), r, z3.IntVal(0)))
            st.ghost.setdefault("iter_src", {})[str(r)] = x
            return k(st, it)
        raise _err(f"iter({x!r})")
    if name == "next":
        return next_model(eng, args, st, fr, k)
    if name in ("any", "all"):
        return any_all(eng, name, args[0], st, fr, k)
    if name == "sorted":
        from .sort_model import sorted_model
        return sorted_model(eng, args[0], kwargs.get("key"), st, fr, k, inplace=False)
    if name == "re.finditer":
        # the splitter's mark iterator: a ghost cursor over the mark arrays (contract A-RE)
        st.heap.set(("g", "cur", "int"), z3.IntVal(0))
        # A-RE speaks about the marks of the text given here: BIB_LEN is its length
        from . import marks
        if len(args) >= 2 and isinstance(args[1], SStr):
            st.assume(z3.Length(args[1].t) == marks.L)
        return k(st, SRef(z3.IntVal(7), "iter:marks"))
    raise _err(f"builtin {name} not modelled")


def to_list(eng, x, st, fr, k):
    bm = _bm()
    if isinstance(x, SRef) and x.kind.startswith("list:"):
        n = eng.list_len(st, x)
        return k(st, eng.new_list_sym(st, x.kind[5:], n, eng.list_elems(st, x)))
    if isinstance(x, (STuple, SConstSeq)):
        if x.kind == "constseq" and x.pykind == "dict":
            items = [it.items[0] for it in x.items]
        else:
            items = x.items
        ek = bm.join_kinds([v.kind for v in items]) if items else "any"
        return k(st, eng.new_list(st, ek, items))
    if isinstance(x, SFunc) and x.what == "dictview":
        d, which = x.payload
        kf, vf, has, val, n, keys = bm.dict_parts(eng, st, d)
        kk, vk = bm.dict_kinds(d.kind)
        if which == "keys":
            return k(st, eng.new_list_sym(st, kk, n, keys))
        if which == "values":
            arr = fresh("dvals", z3.ArraySort(IntS, FAM_SORT[vf]))
            j = z3.Int("j!dv")
            st.assume(z3.ForAll([j], z3.Implies(z3.And(0 <= j, j < n), z3.Select(arr, j) == z3.Select(val, z3.Select(keys, j)))))
            return k(st, eng.new_list_sym(st, vk, n, arr))
    if isinstance(x, SRef) and x.kind.startswith("set:"):
        # list(a_set): some order, each member once — only the length/membership are specified
        kk = x.kind[4:]
        fam = elem_heapkey(kk)
        n = z3.Select(st.heap.get(("sn", fam)), x.t)
        arr = fresh("setlist", z3.ArraySort(IntS, FAM_SORT[fam]))
        has = z3.Select(st.heap.get(("shas", fam)), x.t)
        j = z3.Int("j!sl2")
        st.assume(z3.ForAll([j], z3.Implies(z3.And(0 <= j, j < n), z3.Select(has, z3.Select(arr, j)))))
        return k(st, eng.new_list_sym(st, kk, n, arr))
    if isinstance(x, SFunc) and x.what == "genexp":
        ge, idx, gfr = x.payload
        lc = ast.ListComp(elt=ge.elt, generators=ge.generators)
        return bm.list_comp(eng, lc, st, gfr, k)
    raise _err(f"list({x!r})")


def new_set(eng, st, kind):
    fam = elem_heapkey(kind[4:])
    r = st.new_ref()
    h = st.heap
    h.set(("shas", fam), z3.Store(h.get(("shas", fam)), r, z3.K(FAM_SORT[fam], z3.BoolVal(False))))
    h.set(("sn", fam), z3.Store(h.get(("sn", fam)), r, z3.IntVal(0)))
    return SRef(r, kind)


def set_from(eng, x, st, fr, k, kind):
    bm = _bm()
    if isinstance(x, SRef) and x.kind.startswith("list:"):
        ek = x.kind[5:]
        fam = elem_heapkey(ek)
        n = eng.list_len(st, x)
        el = eng.list_elems(st, x)
        has = fresh("sethas", z3.ArraySort(FAM_SORT[fam], BoolS))
        j = z3.Int("j!sf")
        kx = z3.Const("k!sf", FAM_SORT[fam])
        wit = fresh("setwit", z3.ArraySort(FAM_SORT[fam], IntS))
        st.assume(z3.ForAll([j], z3.Implies(z3.And(0 <= j, j < n), z3.Select(has, z3.Select(el, j)))))
        st.assume(z3.ForAll([kx], z3.Implies(z3.Select(has, kx), z3.And(0 <= z3.Select(wit, kx), z3.Select(wit, kx) < n, z3.Select(el, z3.Select(wit, kx)) == kx))))
        cnt = fresh("setn", IntS)
        st.assume(z3.And(cnt >= 0, cnt <= n, z3.Implies(n > 0, cnt > 0)))
        # cnt == n  <=>  elements pairwise distinct
        j2 = z3.Int("j2!sf")
        st.assume((cnt == n) == z3.ForAll([j, j2], z3.Implies(z3.And(0 <= j, j < j2, j2 < n), z3.Select(el, j) != z3.Select(el, j2))))
        r = st.new_ref()
        h = st.heap
        h.set(("shas", fam), z3.Store(h.get(("shas", fam)), r, has))
        h.set(("sn", fam), z3.Store(h.get(("sn", fam)), r, cnt))
        return k(st, SRef(r, "set:" + ek))
    raise _err(f"set({x!r})")


def next_model(eng, args, st, fr, k):
    it = args[0]
    if isinstance(it, SRef) and it.kind == "iter:marks":
        cur = st.heap.get(("g", "cur", "int"))
        n = eng.mark_count()
        def has(s):
            s.heap.set(("g", "cur", "int"), z3.simplify(cur + 1))
            return k(s, SMatch(cur))
        def eof(s):
            if len(args) > 1:
                return k(s, args[1] if not isinstance(args[1], SNone) else SMatch(z3.IntVal(-1)))
            return eng.raise_new(s, "StopIteration")
        return eng.branch(st, cur < n, has, eof, "next(marks)")
    if isinstance(it, SRef) and it.kind == "iter:str":
        src = st.ghost["iter_src"][str(it.t)]
        pos = z3.Select(st.heap.get(("ipos",)), it.t)
        def has(s):
            s.heap.set(("ipos",), z3.Store(s.heap.get(("ipos",)), it.t, pos + 1))
            return k(s, SStr(z3.SubString(src.t, pos, 1)))
        def eof(s):
            if len(args) > 1:
                return k(s, args[1])
            return eng.raise_new(s, "StopIteration")
        return eng.branch(st, pos < z3.Length(src.t), has, eof, "next(iter)")
    raise _err(f"next({it!r})")


def any_all(eng, name, x, st, fr, k):
    bm = _bm()
    if isinstance(x, SFunc) and x.what == "genexp":
        ge, idx, gfr = x.payload
        g = ge.generators[0]
        if len(ge.generators) != 1:
            raise _err("nested generator")
        def got_iter(s, it):
            n, acc, ek = bm.comp_source(eng, it, s)
            if n is None:
                raise _err("any/all over constant")
            j = fresh("aj", IntS)
            xv = acc(s, j)
            holder = {}
            saved = s.spec
            s.spec = True
            try:
                s.frames.append({"__parent__": len(s.frames) - 1})
                eng.assign(g.target, xv, s, gfr, lambda s3: eng.ev(ge.elt, s3, gfr, lambda s4, v: holder.update(v=eng.truth(s4, v)) or []))
                s.frames.pop()
            finally:
                s.spec = saved
            body = holder["v"]
            rng = z3.And(0 <= j, j < n)
            if name == "all":
                return k(s, SBool(z3.ForAll([j], z3.Implies(rng, body))))
            return k(s, SBool(z3.Exists([j], z3.And(rng, body))))
        return eng.ev(g.iter, st, gfr, got_iter)
    raise _err(f"{name}({x!r})")


# ---- methods --------------------------------------------------------------------------------------------

def call_method(eng, o, name, args, kwargs, st, fr, k, node=None):
    bm = _bm()
    if isinstance(o, SOptRef):
        inner_ = SRef(o.t, o.inner)
        if st.spec:
            return call_method(eng, inner_, name, args, kwargs, st, fr, k, node)
        return eng.branch(st, o.t != 0, lambda s_: call_method(eng, inner_, name, args, kwargs, s_, fr, k, node),
                          lambda s_: eng.raise_new(s_, "AttributeError"), "optional")
    if isinstance(o, SStr):
        return str_method(eng, o, name, args, kwargs, st, fr, k)
    if isinstance(o, SMatch):
        return eng.match_method(o, name, args, st, fr, k)
    if isinstance(o, SRef) and o.kind.startswith("list:"):
        return list_method(eng, o, name, args, kwargs, st, fr, k)
    if isinstance(o, SRef) and o.kind.startswith("dict:"):
        return dict_method(eng, o, name, args, kwargs, st, fr, k)
    if isinstance(o, SRef) and o.kind.startswith("set:"):
        return set_method(eng, o, name, args, kwargs, st, fr, k)
    if isinstance(o, (STuple, SConstSeq)):
        if name == "index":
            (x,) = args
            def go(i, s):
                if i == len(o.items):
                    return eng.raise_new(s, "ValueError")
                return eng.branch(s, eng.equal(s, x, o.items[i]), lambda s2: k(s2, SInt(i)), lambda s2: go(i + 1, s2), "tuple.index")
            return go(0, st)
        if name == "count":
            (x,) = args
            t = z3.IntVal(0)
            for it in o.items:
                t = t + z3.If(eng.equal(st, x, it), 1, 0)
            return k(st, SInt(t))
        if name in ("keys", "values") and isinstance(o, SConstSeq) and o.pykind == "dict":
            return k(st, SConstSeq([it.items[0 if name == "keys" else 1] for it in o.items], "list"))
    if isinstance(o, SRef) and o.kind == "iter:marks":
        pass
    raise _err(f"method {name} on {o!r}")


def str_method(eng, o, name, args, kwargs, st, fr, k):
    bm = _bm()
    U = bm.U
    t = o.t
    if name == "startswith":
        (p,) = args
        if isinstance(p, SStr):
            return k(st, SBool(z3.PrefixOf(p.t, t)))
    if name == "endswith":
        (p,) = args
        if isinstance(p, SStr):
            return k(st, SBool(z3.SuffixOf(p.t, t)))
    if name == "strip":
        if not args:
            return k(st, SStr(U["strip"](t)))
        if isinstance(args[0], SStr):
            return k(st, SStr(U["strip_chars"](t, args[0].t)))
    if name == "rstrip":
        if not args:
            return k(st, SStr(U["rstrip"](t)))
        if isinstance(args[0], SStr):
            return k(st, SStr(U["rstrip_chars"](t, args[0].t)))
    if name == "lower":
        return k(st, SStr(U["lower"](t)))
    if name in ("isdigit", "isascii", "isspace", "isalpha", "isupper"):
        return k(st, SBool(U[name](t)))
    if name == "format":
        if not args and list(kwargs) == ["n"] and isinstance(kwargs["n"], SInt):
            return k(st, SStr(U["fmt_n"](t, kwargs["n"].t)))
        return k(st, SStr(fresh("fmt", StrS)))
    if name == "splitlines":
        n = U["nlines"](t)
        arr = fresh("lines", z3.ArraySort(IntS, StrS))
        return k(st, eng.new_list_sym(st, "str", n, arr))
    if name == "join":
        (x,) = args
        return join_model(eng, o, x, st, fr, k)
    if name == "count":
        pass
    raise _err(f"str.{name} not modelled")


def join_model(eng, sep, x, st, fr, k):
    """sep.join(xs) for a list of str: recursive function over (elems, n) (assumed contract of str.join)."""
    bm = _bm()
    if isinstance(x, SFunc) and x.what == "genexp":
        ge, idx, gfr = x.payload
        lc = ast.ListComp(elt=ge.elt, generators=ge.generators)
        return bm.list_comp(eng, lc, st, gfr, lambda s, lv: join_model(eng, sep, lv, s, fr, k))
    if isinstance(x, SRef) and x.kind.startswith("list:"):
        ek = x.kind[5:]
        if ek == "any":
            # TypeError unless every element is a str
            n = eng.list_len(st, x)
            el = eng.list_elems(st, x)
            j = z3.Int("j!jn")
            allstr = z3.ForAll([j], z3.Implies(z3.And(0 <= j, j < n), PyVal.is_StrV(z3.Select(el, j))))
            def ok(s):
                # the str view of the element array as a term of the array itself (the same list gives the same term)
                arr = z3.Lambda([j], PyVal.sval(z3.Select(el, j)))
                return k(s, SStr(eng.join_term(sep.t, arr, n)))
            if st.spec:
                return ok(st)
            return eng.branch(st, allstr, ok, lambda s: eng.raise_new(s, "TypeError"), "join")
        if ek != "str":
            return eng.raise_new(st, "TypeError")
        n = eng.list_len(st, x)
        el = eng.list_elems(st, x)
        if bm.literal_str(sep.t) == "":
            return k(st, SStr(eng.list_joined(st, x)))
        return k(st, SStr(eng.join_term(sep.t, el, n)))
    if isinstance(x, (STuple, SConstSeq)):
        parts = []
        for i, it in enumerate(x.items):
            if not isinstance(it, SStr):
                return eng.raise_new(st, "TypeError")
            if i:
                parts.append(sep.t)
            parts.append(it.t)
        if not parts:
            return k(st, SStr(""))
        t = parts[0]
        for p in parts[1:]:
            t = z3.Concat(t, p)
        return k(st, SStr(t))
    if isinstance(x, SDyn):
        # a dynamic argument: a list / tuple object is joined element-wise; a str or anything else is outside the model
        seq = z3.And(PyVal.is_RefV(x.t), z3.Or([eng.cls_term(st, PyVal.rval(x.t)) == eng.class_ids[c] for c in ("list", "tuple")]))
        if not st.spec:
            eng.oblige(st, "type", "join-arg-sequence", seq, "str.join on a dynamic value that is not known to be a list or tuple")
            st.assume(seq)
        return join_model(eng, sep, SRef(PyVal.rval(x.t), "list:any"), st, fr, k)
    raise _err(f"join over {x!r}")


def list_method(eng, o, name, args, kwargs, st, fr, k):
    bm = _bm()
    ek = o.kind[5:]
    fam = eng.list_fam(o)
    n = eng.list_len(st, o)
    el = eng.list_elems(st, o)
    if name == "append":
        (x,) = args
        if isinstance(x, SRef) and not ek.startswith(("ref:", "list:", "dict:", "set:")) and ek != "any":
            raise _err(f"append of {x.kind} to list:{ek}")
        xt = eng.coerce(st, x, ek)
        eng.list_set_all(st, o, n + 1, z3.Store(el, n, xt),
                         z3.Concat(eng.list_joined(st, o), xt) if fam == "str" else None)
        return k(st, SNone())
    if name == "extend":
        (x,) = args
        if isinstance(x, SRef) and x.kind.startswith("list:"):
            if eng.list_fam(x) != fam:
                if fam == "any":
                    raise _err("extend list:any with typed list")
                raise _err("extend with different element family")
            m = eng.list_len(st, x)
            ex = eng.list_elems(st, x)
            arr = fresh("ext", z3.ArraySort(IntS, FAM_SORT[fam]))
            j = z3.Int("j!ex")
            st.assume(z3.ForAll([j], z3.Implies(z3.And(0 <= j, j < n), z3.Select(arr, j) == z3.Select(el, j))))
            st.assume(z3.ForAll([j], z3.Implies(z3.And(0 <= j, j < m), z3.Select(arr, n + j) == z3.Select(ex, j))))
            eng.list_set_all(st, o, n + m, arr,
                             z3.Concat(eng.list_joined(st, o), eng.list_joined(st, x)) if fam == "str" else None)
            return k(st, SNone())
        if isinstance(x, (STuple, SConstSeq)):
            arr, ln = el, n
            jn = eng.list_joined(st, o) if fam == "str" else None
            for it in x.items:
                t = eng.coerce(st, it, ek)
                arr = z3.Store(arr, ln, t)
                ln = ln + 1
                if fam == "str":
                    jn = z3.Concat(jn, t)
            eng.list_set_all(st, o, ln, arr, jn)
            return k(st, SNone())
        if isinstance(x, SDyn):
            # extend with a dynamic list / tuple object: element-wise; into a list of objects only objects may go
            seq = z3.And(PyVal.is_RefV(x.t), z3.Or([eng.cls_term(st, PyVal.rval(x.t)) == eng.class_ids[c] for c in ("list", "tuple")]))
            eng.oblige(st, "type", "extend-arg-sequence", seq, "list.extend with a dynamic value that is not known to be a list or tuple")
            st.assume(seq)
            xs = SRef(PyVal.rval(x.t), "list:any")
            m = eng.list_len(st, xs)
            ex = eng.list_elems(st, xs)
            j = z3.Int("j!exd")
            arr = fresh("ext", z3.ArraySort(IntS, FAM_SORT[fam]))
            st.assume(z3.ForAll([j], z3.Implies(z3.And(0 <= j, j < n), z3.Select(arr, j) == z3.Select(el, j))))
            if fam == "ref":
                allobj = z3.ForAll([j], z3.Implies(z3.And(0 <= j, j < m), PyVal.is_RefV(z3.Select(ex, j))))
                eng.oblige(st, "type", "extend-elements-objects", allobj, "a non-object would be stored in a list of objects")
                st.assume(allobj)
                # the quantified variable is the direct index of the new array (E-matching cannot invert n + j)
                st.assume(z3.ForAll([j], z3.Implies(z3.And(n <= j, j < n + m), z3.Select(arr, j) == PyVal.rval(z3.Select(ex, j - n)))))
            elif fam == "any":
                st.assume(z3.ForAll([j], z3.Implies(z3.And(n <= j, j < n + m), z3.Select(arr, j) == z3.Select(ex, j - n))))
            else:
                raise _err("extend of a typed scalar list with a dynamic value")
            eng.list_set_all(st, o, n + m, arr)
            return k(st, SNone())
    if name == "insert":
        i, x = args
        it = bm.as_int(i)
        p0 = z3.If(it < 0, it + n, it)
        p = z3.If(p0 < 0, 0, z3.If(p0 > n, n, p0))
        arr = fresh("ins", z3.ArraySort(IntS, FAM_SORT[fam]))
        j = z3.Int("j!in")
        st.assume(z3.ForAll([j], z3.Implies(z3.And(0 <= j, j < p), z3.Select(arr, j) == z3.Select(el, j))))
        st.assume(z3.Select(arr, p) == eng.coerce(st, x, ek))
        st.assume(z3.ForAll([j], z3.Implies(z3.And(p < j, j <= n), z3.Select(arr, j) == z3.Select(el, j - 1))))
        eng.list_set_all(st, o, n + 1, arr)
        return k(st, SNone())
    if name in ("index", "remove"):
        (x,) = args
        p = fresh("pos", IntS)
        j = z3.Int("j!ix")
        eq_at = lambda t: eng.equal(st, from_sort(ek, z3.Select(el, t)), x)
        found = z3.And(0 <= p, p < n, eq_at(p), z3.ForAll([j], z3.Implies(z3.And(0 <= j, j < p), z3.Not(eq_at(j)))))
        absent = z3.ForAll([j], z3.Implies(z3.And(0 <= j, j < n), z3.Not(eq_at(j))))
        out = []
        if eng.feasible(st, found):
            s1 = st.copy()
            s1.assume(found)
            s1.trace.append(f"list.{name}:found")
            if name == "index":
                out += k(s1, SInt(p))
            else:
                arr = fresh("rem", z3.ArraySort(IntS, FAM_SORT[fam]))
                s1.assume(z3.ForAll([j], z3.Implies(z3.And(0 <= j, j < p), z3.Select(arr, j) == z3.Select(el, j))))
                s1.assume(z3.ForAll([j], z3.Implies(z3.And(p <= j, j < n - 1), z3.Select(arr, j) == z3.Select(el, j + 1))))
                eng.list_set_all(s1, o, n - 1, arr)
                s1.ghost["last_removed_pos"] = p
                out += k(s1, SNone())
        if eng.feasible(st, absent):
            s2 = st.copy()
            s2.assume(absent)
            s2.trace.append(f"list.{name}:absent")
            out += eng.raise_new(s2, "ValueError")
        return out
    if name == "pop":
        if not args:
            idx = n - 1
        else:
            it = bm.as_int(args[0])
            idx = z3.If(it < 0, it + n, it)
        def good(s):
            v = eng.list_get(s, o, idx)
            arr = fresh("pop", z3.ArraySort(IntS, FAM_SORT[fam]))
            j = z3.Int("j!pp")
            s.assume(z3.ForAll([j], z3.Implies(z3.And(0 <= j, j < idx), z3.Select(arr, j) == z3.Select(el, j))))
            s.assume(z3.ForAll([j], z3.Implies(z3.And(idx <= j, j < n - 1), z3.Select(arr, j) == z3.Select(el, j + 1))))
            eng.list_set_all(s, o, n - 1, arr)
            return k(s, v)
        return eng.branch(st, z3.And(idx >= 0, idx < n), good, lambda s: eng.raise_new(s, "IndexError"), "pop")
    if name == "count":
        (x,) = args
        c = fresh("count", IntS)
        j = z3.Int("j!ct")
        eq_at = lambda t: eng.equal(st, from_sort(ek, z3.Select(el, t)), x)
        st.assume(z3.And(c >= 0, c <= n))
        st.assume((c == 0) == z3.ForAll([j], z3.Implies(z3.And(0 <= j, j < n), z3.Not(eq_at(j)))))
        j2 = z3.Int("j2!ct")
        st.assume((c > 1) == z3.Exists([j, j2], z3.And(0 <= j, j < j2, j2 < n, eq_at(j), eq_at(j2))))
        return k(st, SInt(c))
    if name == "sort":
        from .sort_model import sorted_model
        return sorted_model(eng, o, kwargs.get("key"), st, fr, k, inplace=True)
    raise _err(f"list.{name} not modelled")


def dict_method(eng, o, name, args, kwargs, st, fr, k):
    bm = _bm()
    kk, vk = bm.dict_kinds(o.kind)
    kf, vf, has, val, n, keys = bm.dict_parts(eng, st, o)
    if name in ("get", "pop"):
        key = args[0]
        default = args[1] if len(args) > 1 else (SNone() if name == "get" else None)
        if isinstance(key, SDyn) and kk == "str":
            kt = PyVal.sval(key.t)
            present = z3.And(PyVal.is_StrV(key.t), z3.Select(has, kt))
        else:
            kt = eng.coerce(st, key, kk)
            present = z3.Select(has, kt)
        def yes(s):
            v = from_sort(vk, z3.Select(val, kt))
            eng.assume_wellformed(s, v)
            if name == "pop":
                bm.dict_remove(eng, s, o, kt)
            return k(s, v)
        def no(s):
            if default is None:
                return eng.raise_new(s, "KeyError")
            return k(s, default)
        return eng.branch(st, present, yes, no, f"dict.{name}")
    if name in ("keys", "values", "items"):
        return k(st, SFunc("dictview", (o, name)))
    if name == "copy":
        d2 = bm.new_dict(eng, st, o.kind)
        h = st.heap
        h.set(("dhas", kf), z3.Store(h.get(("dhas", kf)), d2.t, has))
        h.set(("dval", kf, vf), z3.Store(h.get(("dval", kf, vf)), d2.t, val))
        h.set(("dn", kf), z3.Store(h.get(("dn", kf)), d2.t, n))
        h.set(("dkeys", kf), z3.Store(h.get(("dkeys", kf)), d2.t, keys))
        h.set(("dpos", kf), z3.Store(h.get(("dpos", kf)), d2.t, z3.Select(h.get(("dpos", kf)), o.t)))
        return k(st, d2)
    raise _err(f"dict.{name} not modelled")


def set_method(eng, o, name, args, kwargs, st, fr, k):
    bm = _bm()
    kk = o.kind[4:]
    fam = elem_heapkey(kk)
    h = st.heap
    has = z3.Select(h.get(("shas", fam)), o.t)
    n = z3.Select(h.get(("sn", fam)), o.t)
    if name == "add":
        (x,) = args
        xt = eng.coerce(st, x, kk)
        present = z3.Select(has, xt)
        h.set(("shas", fam), z3.Store(h.get(("shas", fam)), o.t, z3.Store(has, xt, z3.BoolVal(True))))
        h.set(("sn", fam), z3.Store(h.get(("sn", fam)), o.t, z3.If(present, n, n + 1)))
        return k(st, SNone())
    if name == "intersection":
        (x,) = args
        if isinstance(x, SRef) and x.kind.startswith("set:"):
            has2 = z3.Select(h.get(("shas", fam)), x.t)
            r = new_set(eng, st, o.kind)
            nh = fresh("inter", z3.ArraySort(FAM_SORT[fam], BoolS))
            kx = z3.Const("k!int", FAM_SORT[fam])
            st.assume(z3.ForAll([kx], z3.Select(nh, kx) == z3.And(z3.Select(has, kx), z3.Select(has2, kx))))
            cnt = fresh("intern", IntS)
            st.assume(cnt >= 0)
            st.assume((cnt > 0) == z3.Exists([kx], z3.Select(nh, kx)))
            h.set(("shas", fam), z3.Store(h.get(("shas", fam)), r.t, nh))
            h.set(("sn", fam), z3.Store(h.get(("sn", fam)), r.t, cnt))
            return k(st, r)
    raise _err(f"set.{name} not modelled")


def call_dyn_method(eng, o, name, args, kwargs, st, fr, k, node=None):
    """method call on a dynamic value: str methods on StrV, AttributeError on int/bool/None,
    dispatch on the object class for RefV."""
    t = o.t
    str_methods = {"startswith", "endswith", "strip", "rstrip", "lower", "isdigit", "isascii", "isspace", "isalpha",
                   "isupper", "format", "splitlines", "join"}
    if st.spec and name in str_methods:
        return str_method(eng, SStr(PyVal.sval(t)), name, args, kwargs, st, fr, k)
    out = []
    def as_str(s):
        if name in str_methods:
            return str_method(eng, SStr(PyVal.sval(t)), name, args, kwargs, s, fr, k)
        return eng.raise_new(s, "AttributeError")
    def not_str(s):
        def as_ref(s2):
            return eng.dyn_ref_method(o, name, args, kwargs, s2, fr, k)
        return eng.branch(s, PyVal.is_RefV(t), as_ref, lambda s2: eng.raise_new(s2, "AttributeError"), "dyn-ref")
    return eng.branch(st, PyVal.is_StrV(t), as_str, not_str, f"dyn.{name}")


def call_external(eng, qual, args, kwargs, st, fr, k, node=None):
    raise _err(f"external function {qual} has no assumed contract")


def construct_dataclass(eng, ci, args, kwargs, st, fr, k):
    obj = eng.new_object(st, ci.name)
    names = [n for n, _ in ci.dataclass_fields]
    vals = dict(zip(names, args))
    vals.update(kwargs)
    def go(i, s):
        if i == len(ci.dataclass_fields):
            return k(s, obj)
        n, default = ci.dataclass_fields[i]
        own = eng.attr_owner(ci.name, n)
        if own is None:
            raise _err(f"dataclass field {ci.name}.{n} missing from schema")
        if n in vals:
            eng.write_attr(s, obj.t, own[0], n, own[1], vals[n])
            return go(i + 1, s)
        # default / default_factory=list
        if isinstance(default, ast.Call) and ast.unparse(default.func).endswith("field"):
            for kw in default.keywords:
                if kw.arg == "default_factory" and isinstance(kw.value, ast.Name) and kw.value.id == "list":
                    lv = eng.new_list(s, own[1][5:] if own[1].startswith("list:") else "any")
                    eng.write_attr(s, obj.t, own[0], n, own[1], lv)
                    return go(i + 1, s)
            raise _err("dataclass field() form")
        def got(s2, v):
            eng.write_attr(s2, obj.t, own[0], n, own[1], v)
            return go(i + 1, s2)
        return eng.ev(default, s, fr, got)
    return go(0, st)


def construct_builtin(eng, cname, args, kwargs, st, fr, k, node=None):
    if cname in ("list", "dict", "set", "str", "int", "bool", "tuple", "type"):
        return call_builtin(eng, cname, None, args, kwargs, st, fr, k, node)
    raise _err(f"constructor {cname}")
