"""The executor is written in continuation-passing style without a trampoline, so large specification
expressions need a deep Python stack: run it in a thread with a big C stack."""
import sys
import threading


def run(fn, *args, **kw):
    sys.setrecursionlimit(400000)
    threading.stack_size(1024 * 1024 * 1024)
    box = {}

    def target():
        try:
            box["v"] = fn(*args, **kw)
        except BaseException as e:      # re-raised in the caller
            box["e"] = e
    t = threading.Thread(target=target)
    t.start()
    t.join()
    if "e" in box:
        raise box["e"]
    return box.get("v")
