"""Assumed contracts of Python builtins / stdlib used by the repository (trusted base A-PY, A-STR, A-CHR,
A-DICT, A-COPY, A-SORT).  Every uninterpreted function declared here is listed in the evidence.

Uninterpreted string functions get their facts by *instantiation at ground terms* (`instantiate_axioms`):
for every application f(t) occurring in a query the schema facts for f at t are added, and for literal
arguments the value CPython computes is added.  Queries therefore stay quantifier-free for strings.
"""
import ast
import z3

from .vals import *
from .vals import PyVal
from .state import fresh, FAM_SORT

IntS, BoolS, StrS = z3.IntSort(), z3.BoolSort(), z3.StringSort()

# ---- uninterpreted functions (A-STR / A-CHR) -----------------------------------------------------
U = {
    "lower": z3.Function("py_lower", StrS, StrS),
    "strip": z3.Function("py_strip", StrS, StrS),
    "rstrip": z3.Function("py_rstrip", StrS, StrS),
    "isdigit": z3.Function("py_isdigit", StrS, BoolS),
    "isascii": z3.Function("py_isascii", StrS, BoolS),
    "isspace": z3.Function("py_isspace", StrS, BoolS),
    "isalpha": z3.Function("py_isalpha", StrS, BoolS),
    "isupper": z3.Function("py_isupper", StrS, BoolS),
    "int_ok": z3.Function("py_int_ok", StrS, BoolS),
    "int_of": z3.Function("py_int_of", StrS, IntS),
    "spaces": z3.Function("py_spaces", IntS, StrS),
    "int_str": z3.Function("py_int_str", IntS, StrS),
    "fmt_n": z3.Function("py_format_n", StrS, IntS, StrS),
    "nlines": z3.Function("py_nlines", StrS, IntS),
    "strip_chars": z3.Function("py_strip_chars", StrS, StrS, StrS),
    "rstrip_chars": z3.Function("py_rstrip_chars", StrS, StrS, StrS),
    "dyn_str": z3.Function("py_str_of", PyVal, StrS),
    "obj_eq": z3.Function("py_obj_eq", IntS, IntS, BoolS),
}
UF_DOC = {
    "py_lower": "str.lower (uninterpreted; value on literals from CPython; idempotent; identity on [0-9]+)",
    "py_strip": "str.strip() (uninterpreted; idempotent; identity when both end characters are literal non-whitespace; value on literals from CPython)",
    "py_rstrip": "str.rstrip() (uninterpreted; value on literals from CPython)",
    "py_isdigit": "str.isdigit (uninterpreted; with isascii it is [0-9]+)",
    "py_isascii": "str.isascii (uninterpreted; with isdigit it is [0-9]+)",
    "py_int_ok": "int(str) succeeds (uninterpreted; true on [0-9]+; NOT implied by isdigit)",
    "py_int_of": "int(str) value (equals str.to_int on [0-9]+)",
    "py_spaces": "' ' * n (length max(n,0), only spaces, empty for n<=0)",
    "py_int_str": "str(int) (injective on ints; digits for n>=0)",
    "py_format_n": "str.format(n=int) (uninterpreted function of template and n)",
    "py_nlines": "len(str.splitlines()) (uninterpreted, >= 0)",
    "py_str_of": "str(x) / f-string formatting of a dynamic value (uninterpreted; identity on str)",
    "py_obj_eq": "== between repo objects (Block/Field.__eq__): reflexive, symmetric; implies equal class (proved for the repo's __eq__ in C19)",
}
DIGITS = z3.Plus(z3.Range("0", "9"))
# exactly the characters str.strip() removes (str.isspace() over all code points, computed from the running CPython)
WS_CHARS = "".join(c for c in map(chr, range(0x110000)) if c.isspace())


def _py_str(t):
    """Python str of a z3 string literal, or None."""
    if z3.is_string_value(t):
        return t.as_string().encode("latin-1", "backslashreplace").decode("unicode_escape") if "\\u" in t.as_string() or "\\x" in t.as_string() else t.as_string()
    return None


def literal_str(t):
    if z3.is_string_value(t):
        s = t.as_string()
        # z3 escapes non-printable characters as \u{..}
        import re
        return re.sub(r"\\u\{([0-9a-fA-F]+)\}", lambda m: chr(int(m.group(1), 16)), s)
    return None


def _subterms(terms):
    seen = set()
    todo = list(terms)
    while todo:
        t = todo.pop()
        i = t.get_id()
        if i in seen:
            continue
        seen.add(i)
        yield t
        if z3.is_quantifier(t):
            todo.append(t.body())
        else:
            todo.extend(t.children())


def _mentions_bound_var(t):
    todo, seen = [t], set()
    while todo:
        x = todo.pop()
        if x.get_id() in seen:
            continue
        seen.add(x.get_id())
        if z3.is_var(x):
            return True
        if not z3.is_quantifier(x):
            todo.extend(x.children())
    return False


_CTX = {}
_APPS_CACHE = {}      # id of a top-level term -> (the term, its py_* applications): hypotheses are shared by many obligations


def _py_apps(t):
    hit = _APPS_CACHE.get(t.get_id())
    if hit is not None and hit[0].eq(t):
        return hit[1]
    apps = [x for x in _subterms([t]) if z3.is_app(x) and x.num_args() > 0 and x.decl().name().startswith("py_")]
    if len(_APPS_CACHE) > 200000:
        _APPS_CACHE.clear()
    _APPS_CACHE[t.get_id()] = (t, apps)
    return apps


def instantiate_axioms(terms, rounds=2):
    """Ground instances of the schema facts for every UF application in `terms`."""
    # regular-expression facts about digit strings are only added to queries that talk about digits at all
    _CTX["digits"] = any(x.decl().name() in ("py_isdigit", "py_int_ok", "py_int_of", "py_isascii") for t in terms for x in _py_apps(t))
    facts = []
    done = set()
    cur = list(terms)
    for _ in range(rounds):
        new = []
        for t in (x for top in cur for x in _py_apps(top)):
            name = t.decl().name()
            key = t.get_id()
            if key in done:
                continue
            done.add(key)
            if _mentions_bound_var(t):
                if name == "py_isspace" and "isspace!q" not in done:
                    # applications under binders (whitespace runs): the single-character fact as a quantified axiom
                    done.add("isspace!q")
                    c = z3.Const("c!ws", StrS)
                    app = U["isspace"](c)
                    new.append(z3.ForAll([c], z3.Implies(z3.Length(c) == 1, app == z3.Or([c == z3.StringVal(w) for w in WS_CHARS])), patterns=[app]))
                continue      # only closed applications are instantiated
            new += _facts_for(name, t)
        if not new:
            break
        facts += new
        cur = new
    return facts


def _facts_for(name, t):
    a = t.arg(0)
    lit = literal_str(a) if a.sort() == StrS else None
    out = []
    if name == "py_lower":
        if lit is not None:
            out.append(t == z3.StringVal(lit.lower()))
        else:
            out.append(U["lower"](t) == t)
            out.append(z3.Implies(z3.Length(a) == 0, t == z3.StringVal("")))
            # lower() maps cased letters to letters and leaves every other character alone: '@' in front stays / appears
            # only if it was there
            out.append(z3.PrefixOf(z3.StringVal("@"), t) == z3.PrefixOf(z3.StringVal("@"), a))
            if _CTX.get("digits"):
                out.append(z3.Implies(z3.InRe(a, DIGITS), t == a))      # ASCII digit strings have no cased characters
    elif name == "py_strip":
        if lit is not None:
            out.append(t == z3.StringVal(lit.strip()))
        else:
            out.append(U["strip"](t) == t)
            out.append(z3.Length(t) <= z3.Length(a))
            out.append(z3.Contains(a, t))
            # a string whose first and last characters are literal non-whitespace is its own strip
            first = z3.SubString(a, 0, 1)
            last = z3.SubString(a, z3.Length(a) - 1, 1)
            nws = lambda c: z3.And([c != z3.StringVal(w) for w in WS_CHARS])
            out.append(z3.Implies(z3.And(z3.Length(a) > 0, nws(first), nws(last)), t == a))
            # result has no whitespace at its ends
            out.append(z3.Implies(z3.Length(t) > 0, z3.And(nws(z3.SubString(t, 0, 1)), nws(z3.SubString(t, z3.Length(t) - 1, 1)))))
    elif name == "py_rstrip":
        if lit is not None:
            out.append(t == z3.StringVal(lit.rstrip()))
        else:
            out.append(z3.PrefixOf(t, a))
            nws = lambda c: z3.And([c != z3.StringVal(w) for w in WS_CHARS])
            # only trailing whitespace goes: a first character that is not whitespace stays, the result ends in none
            out.append(z3.Implies(z3.And(z3.Length(a) > 0, nws(z3.SubString(a, 0, 1))), z3.Length(t) > 0))
            out.append(z3.Implies(z3.And(z3.Length(a) > 0, z3.Not(U["isspace"](z3.SubString(a, 0, 1)))), z3.Length(t) > 0))
            if z3.is_app(a) and a.decl().kind() == z3.Z3_OP_SEQ_EXTRACT:
                # rstrip of a slice: the first character of the slice is the character at the slice start
                base, off, ln = a.arg(0), a.arg(1), a.arg(2)
                out.append(z3.Implies(z3.And(off >= 0, ln > 0, off < z3.Length(base)), z3.SubString(a, 0, 1) == z3.SubString(base, off, 1)))
                out.append(z3.Implies(z3.And(off >= 0, ln > 0, off + ln <= z3.Length(base)),
                                      z3.SubString(a, z3.Length(a) - 1, 1) == z3.SubString(base, off + ln - 1, 1)))
            out.append(z3.Implies(z3.And(z3.Length(a) == 1, U["isspace"](a)), t == z3.StringVal("")))
            out.append(z3.Implies(z3.Length(a) == 0, t == z3.StringVal("")))
            # trailing whitespace goes: a string that ends in whitespace gets shorter
            out.append(z3.Implies(z3.And(z3.Length(a) > 0, U["isspace"](z3.SubString(a, z3.Length(a) - 1, 1))), z3.Length(t) < z3.Length(a)))
            out.append(z3.Implies(z3.Length(t) > 0, nws(z3.SubString(t, z3.Length(t) - 1, 1))))
            out.append(z3.Implies(z3.And(z3.Length(a) > 0, nws(z3.SubString(a, z3.Length(a) - 1, 1))), t == a))
    elif name == "py_isspace":
        if lit is not None:
            out.append(t == z3.BoolVal(lit.isspace()))
        else:
            # a single character is whitespace iff it is one of the characters str.strip() removes (WS_CHARS is
            # computed from the running CPython: exactly the code points with str.isspace())
            out.append(z3.Implies(z3.Length(a) == 1, t == z3.Or([a == z3.StringVal(w) for w in WS_CHARS])))
            out.append(z3.Implies(z3.Length(a) == 0, z3.Not(t)))
    elif name == "py_isalpha":
        if lit is not None:
            out.append(t == z3.BoolVal(lit.isalpha()))
    elif name == "py_isupper":
        if lit is not None:
            out.append(t == z3.BoolVal(lit.isupper()))
    elif name == "py_isdigit":
        if lit is not None:
            out.append(t == z3.BoolVal(lit.isdigit()))
        else:
            out.append(z3.And(t, U["isascii"](a)) == z3.InRe(a, DIGITS))
            out.append(z3.Implies(t, z3.Length(a) > 0))
    elif name == "py_isascii":
        if lit is not None:
            out.append(t == z3.BoolVal(lit.isascii()))
        else:
            out.append(z3.And(t, U["isdigit"](a)) == z3.InRe(a, DIGITS))
    elif name == "py_int_ok":
        if lit is not None:
            try:
                int(lit)
                ok = True
            except ValueError:
                ok = False
            out.append(t == z3.BoolVal(ok))
        else:
            out.append(z3.Implies(z3.InRe(a, DIGITS), t))
    elif name == "py_int_of":
        if lit is not None:
            try:
                out.append(t == z3.IntVal(int(lit)))
            except ValueError:
                pass
        else:
            out.append(z3.Implies(z3.InRe(a, DIGITS), z3.And(t == z3.StrToInt(a), t >= 0)))
    elif name == "py_spaces":
        n = a
        out.append(z3.Length(t) == z3.If(n > 0, n, 0))
        out.append(z3.Implies(n <= 0, t == z3.StringVal("")))
    elif name == "py_int_str":
        n = a
        if z3.is_int_value(n):
            out.append(t == z3.StringVal(str(n.as_long())))
        else:
            out.append(z3.Implies(n >= 0, z3.And(t == z3.IntToStr(n), z3.InRe(t, DIGITS))))
            out.append(z3.Length(t) > 0)
    elif name == "py_nlines":
        if lit is not None:
            out.append(t == z3.IntVal(len(lit.splitlines())))
        else:
            out.append(t >= 0)
    elif name == "py_str_of":
        out.append(z3.Implies(PyVal.is_StrV(a), t == PyVal.sval(a)))
        out.append(z3.Implies(PyVal.is_IntV(a), t == U["int_str"](PyVal.ival(a))))
    elif name == "py_obj_eq":
        b = t.arg(1)
        out.append(U["obj_eq"](a, a))
        out.append(t == U["obj_eq"](b, a))
        out.append(z3.Implies(a == b, t))
    elif name == "py_strip_chars":
        chars = literal_str(t.arg(1))
        if lit is not None and chars is not None:
            out.append(t == z3.StringVal(lit.strip(chars)))
        else:
            out.append(z3.Length(t) <= z3.Length(a))
            out.append(z3.Contains(a, t))
    elif name == "py_rstrip_chars":
        chars = literal_str(t.arg(1))
        if lit is not None and chars is not None:
            out.append(t == z3.StringVal(lit.rstrip(chars)))
        else:
            out.append(z3.PrefixOf(t, a))
            if chars is not None and len(chars) == 1:
                c = z3.StringVal(chars)
                # result does not end with the stripped character; the removed suffix is only that character
                out.append(z3.Not(z3.SuffixOf(c, t)))
    return out


# ---- small helpers ------------------------------------------------------------------------------

def default_of(sort):
    if sort == IntS:
        return z3.IntVal(0)
    if sort == StrS:
        return z3.StringVal("")
    if sort == BoolS:
        return z3.BoolVal(False)
    if sort == PyVal:
        return PyVal.NoneV
    raise ValueError(sort)


def kfam(kind):
    """key family of a dict:/set: kind"""
    parts = kind.split(":")
    return elem_heapkey(parts[1])


def dict_kinds(kind):
    # dict:<k>:<v...>
    _, kk, vk = kind.split(":", 2)
    return kk, vk


def as_int(v):
    if isinstance(v, SInt):
        return v.t
    if isinstance(v, SBool):
        return z3.If(v.t, 1, 0)
    raise TypeError(v)


def join_kinds(kinds):
    ks = set(kinds)
    if any(k.startswith("tuple:") for k in ks):
        return "any"
    if len(ks) == 1:
        return next(iter(ks))
    if all(k.startswith("ref:") for k in ks) and _ENGINE[0] is not None:
        eng = _ENGINE[0]
        names = [k[4:] for k in ks]
        for cand in (eng.repo.mro(names[0]) if names[0] in eng.repo.classes else []):
            if all(eng.is_subclass(n, cand) for n in names):
                return "ref:" + cand
    return "any"


_ENGINE = [None]


def ite(eng, st, c, a, b):
    if isinstance(a, SNone) and isinstance(b, SNone):
        return a
    if a.kind == b.kind and getattr(a, "t", None) is not None:
        return from_sort(a.kind, z3.If(c, a.t, b.t))
    if isinstance(a, (SRef, SOptRef, SNone)) and isinstance(b, (SRef, SOptRef, SNone)):
        inner = a.kind if isinstance(a, SRef) else (b.kind if isinstance(b, SRef) else (a.inner if isinstance(a, SOptRef) else b.inner))
        ta = z3.IntVal(0) if isinstance(a, SNone) else a.t
        tb = z3.IntVal(0) if isinstance(b, SNone) else b.t
        return SOptRef(z3.If(c, ta, tb), inner)
    return SDyn(z3.If(c, to_dyn(a), to_dyn(b)))


def dyn_ref_truth(eng, st, r):
    # truthiness of an object held dynamically: lists by length, everything else True
    lens = [z3.Select(st.heap.get(("len", fam)), r) for fam in ("any", "str")]
    is_list = z3.Select(st.heap.get(("cls",)), r) == eng.class_ids["list"]
    return z3.If(is_list, z3.Or([l > 0 for l in lens]), z3.BoolVal(True))


def set_nonempty(eng, st, v):
    return z3.Select(st.heap.get(("sn", kfam(v.kind))), v.t) > 0


def dyn_equal(eng, st, a, b):
    if isinstance(a, SDyn) and isinstance(b, SDyn):
        ta, tb = a.t, b.t
        both_ref = z3.And(PyVal.is_RefV(ta), PyVal.is_RefV(tb))
        num = lambda t: z3.If(PyVal.is_BoolV(t), z3.If(PyVal.bval(t), 1, 0), PyVal.ival(t))
        isnum = lambda t: z3.Or(PyVal.is_IntV(t), PyVal.is_BoolV(t))
        return z3.If(both_ref, U["obj_eq"](PyVal.rval(ta), PyVal.rval(tb)),
                     z3.If(z3.And(isnum(ta), isnum(tb)), num(ta) == num(tb), ta == tb))
    d, o = (a, b) if isinstance(a, SDyn) else (b, a)
    if isinstance(o, SStr):
        return z3.And(PyVal.is_StrV(d.t), PyVal.sval(d.t) == o.t)
    if isinstance(o, (SInt, SBool)):
        return z3.Or(z3.And(PyVal.is_IntV(d.t), PyVal.ival(d.t) == as_int(o)),
                     z3.And(PyVal.is_BoolV(d.t), z3.If(PyVal.bval(d.t), 1, 0) == as_int(o)))
    if isinstance(o, (SRef, SOptRef)):
        return z3.And(PyVal.is_RefV(d.t), U["obj_eq"](PyVal.rval(d.t), o.t))
    if isinstance(o, STuple):
        return z3.And(PyVal.is_RefV(d.t), fresh("tuple_eq", BoolS))
    raise TypeError((a, b))


def ref_equal(eng, st, a, b):
    # lists compare elementwise, objects through their __eq__ (uninterpreted, reflexive)
    return U["obj_eq"](a.t, b.t)


def is_dropped_call(call):
    f = call.func
    if isinstance(f, ast.Attribute) and isinstance(f.value, ast.Name):
        if f.value.id in ("logger", "logging"):
            return True
        if f.value.id == "warnings" and f.attr == "warn":
            return True
    return False


def external_name(eng, qual):
    eng.trusted_used.add(qual)
    name = qual.split(".")[-1]
    if name in ("deepcopy", "copy") and qual.startswith("copy."):
        return SFunc("builtin", name)
    if qual in ("typing.Collection", "collections.abc.Collection"):
        return SClass("Collection")
    if name == "OrderedDict":
        return SFunc("builtin", "dict")
    return SFunc("external", qual)


def module_attr(eng, mod, attr):
    if mod.name == "re" and attr == "finditer":
        return SFunc("builtin", "re.finditer")
    if mod.name == "re" and attr == "MULTILINE":
        return SInt(8)
    return SFunc("external", f"{mod.name}.{attr}")


def eval_module_const(eng, node, mod):
    """Constants that are not literals (e.g. list(d.keys())) are taken from the constants dump computed
    by importing the real package (contracts loader fills eng.const_dump)."""
    key = None
    for (m, n), v in eng.repo.consts.items():
        if v is node:
            key = (m, n)
    if key and not getattr(eng, "const_dump", None) and hasattr(eng, "_const_dump_loader"):
        eng.const_dump = eng._const_dump_loader()
    if key and key in getattr(eng, "const_dump", {}):
        return eng.const_dump[key]
    raise Exception(f"module constant {key} is not a literal and is not in the constants dump")


def py_to_value(eng, pv):
    if pv is None:
        return SNone()
    if isinstance(pv, bool):
        return SBool(pv)
    if isinstance(pv, int):
        return SInt(pv)
    if isinstance(pv, str):
        return SStr(pv)
    if isinstance(pv, (tuple, list)):
        return SConstSeq([py_to_value(eng, x) for x in pv], "tuple" if isinstance(pv, tuple) else "list")
    if isinstance(pv, dict):
        v = SConstSeq([STuple([py_to_value(eng, a), py_to_value(eng, b)]) for a, b in pv.items()], "dict")
        return v
    if isinstance(pv, type):
        return SClass(pv.__name__)
    raise Exception(f"constant {pv!r}")


def format_value(eng, st, v):
    if isinstance(v, SStr):
        return v.t
    if isinstance(v, SInt):
        return U["int_str"](v.t)
    if isinstance(v, SDyn):
        return U["dyn_str"](v.t)
    return fresh("fmt", StrS)


# ---- binary operators / comparisons -------------------------------------------------------------

def binop(eng, op, a, b, st, fr, k):
    if isinstance(a, (SInt, SBool)) and isinstance(b, (SInt, SBool)):
        x, y = as_int(a), as_int(b)
        if isinstance(op, ast.Add):
            return k(st, SInt(x + y))
        if isinstance(op, ast.Sub):
            return k(st, SInt(x - y))
        if isinstance(op, ast.Mult):
            return k(st, SInt(x * y))
        if isinstance(op, ast.Mod):
            if z3.is_int_value(y) and y.as_long() > 0:
                return k(st, SInt(x % y))
        if isinstance(op, ast.FloorDiv):
            if z3.is_int_value(y) and y.as_long() > 0:
                return k(st, SInt(x / y))
    if isinstance(a, SStr) and isinstance(b, SStr) and isinstance(op, ast.Add):
        return k(st, SStr(z3.Concat(a.t, b.t)))
    if isinstance(a, SStr) and isinstance(b, SInt) and isinstance(op, ast.Mult):
        lit = literal_str(a.t)
        if lit == " ":
            return k(st, SStr(U["spaces"](b.t)))
    if isinstance(a, SRef) and isinstance(b, SRef) and a.kind.startswith("list:") and b.kind.startswith("list:") and isinstance(op, ast.Add):
        return list_concat(eng, a, b, st, k)
    if isinstance(a, SConstSeq) and isinstance(b, SRef) and b.kind.startswith("list:") and isinstance(op, ast.Add):
        la = eng.new_list(st, b.kind[5:], a.items)
        return list_concat(eng, la, b, st, k)
    if isinstance(a, SDyn) or isinstance(b, SDyn):
        return dyn_binop(eng, op, a, b, st, fr, k)
    from .symex import EngineError
    scalar = (SInt, SBool, SStr, SNone)
    if isinstance(a, scalar) and isinstance(b, scalar):
        strs = isinstance(a, SStr) + isinstance(b, SStr)
        valid_unmodelled = (isinstance(op, ast.Mult) and strs == 1 and not isinstance(a, SNone) and not isinstance(b, SNone)) \
            or (isinstance(op, ast.Mod) and isinstance(a, SStr)) \
            or (strs == 0 and not isinstance(a, SNone) and not isinstance(b, SNone))
        if not valid_unmodelled:
            return eng.raise_new(st, "TypeError")
    raise EngineError(f"binary {op.__class__.__name__} on {a!r}, {b!r}")


def dyn_binop(eng, op, a, b, st, fr, k):
    """Binary operator with a dynamic operand: fork on the tag (ints/bools behave as ints, str + str
    concatenates, everything else is the TypeError CPython raises)."""
    d_is_a = isinstance(a, SDyn)
    d = a if d_is_a else b

    def retry(s, v):
        return binop(eng, op, v, b, s, fr, k) if d_is_a else binop(eng, op, a, v, s, fr, k)
    t = d.t
    if st.spec:
        # total reading: the integer / string view that matches the other operand
        o = b if d_is_a else a
        if isinstance(o, SStr):
            return retry(st, SStr(PyVal.sval(t)))
        return retry(st, SInt(PyVal.ival(t)))

    def not_int(s):
        def not_bool(s2):
            return eng.branch(s2, PyVal.is_StrV(t), lambda s3: try_or_typeerror(s3, SStr(PyVal.sval(t))),
                              lambda s3: eng.raise_new(s3, "TypeError"), "dyn-op-str")
        return eng.branch(s, PyVal.is_BoolV(t), lambda s2: try_or_typeerror(s2, SBool(PyVal.bval(t))), not_bool, "dyn-op-bool")

    def try_or_typeerror(s, v):
        return retry(s, v)
    return eng.branch(st, PyVal.is_IntV(t), lambda s: try_or_typeerror(s, SInt(PyVal.ival(t))), not_int, "dyn-op-int")


def list_concat(eng, a, b, st, k):
    ek = a.kind[5:] if a.kind == b.kind else join_kinds([a.kind[5:], b.kind[5:]])
    fam = elem_heapkey(ek)
    if eng.list_fam(a) != fam or eng.list_fam(b) != fam:
        from .symex import EngineError
        raise EngineError("concatenation of lists of different element families")
    la, lb = eng.list_len(st, a), eng.list_len(st, b)
    ea, eb = eng.list_elems(st, a), eng.list_elems(st, b)
    arr = fresh("cat", z3.ArraySort(IntS, FAM_SORT[fam]))
    j = z3.Int("j!cat")
    st.assume(z3.ForAll([j], z3.Implies(z3.And(0 <= j, j < la), z3.Select(arr, j) == z3.Select(ea, j))))
    st.assume(z3.ForAll([j], z3.Implies(z3.And(0 <= j, j < lb), z3.Select(arr, la + j) == z3.Select(eb, j))))
    return k(st, eng.new_list_sym(st, ek, la + lb, arr))


def compare(eng, op, a, b, st, fr, k):
    """k(st, z3 Bool)"""
    from .symex import EngineError
    if isinstance(op, ast.Is):
        return k(st, eng.identical(st, a, b))
    if isinstance(op, ast.IsNot):
        return k(st, z3.Not(eng.identical(st, a, b)))
    if isinstance(op, ast.Eq):
        return k(st, eng.equal(st, a, b))
    if isinstance(op, ast.NotEq):
        return k(st, z3.Not(eng.equal(st, a, b)))
    if isinstance(op, (ast.Lt, ast.LtE, ast.Gt, ast.GtE)):
        if isinstance(a, (SInt, SBool)) and isinstance(b, (SInt, SBool)):
            x, y = as_int(a), as_int(b)
            return k(st, {ast.Lt: x < y, ast.LtE: x <= y, ast.Gt: x > y, ast.GtE: x >= y}[type(op)])
        if isinstance(a, SStr) and isinstance(b, SStr):
            lt, le = z3.StrLT if hasattr(z3, "StrLT") else None, None
            x, y = a.t, b.t
            return k(st, {ast.Lt: x < y, ast.LtE: x <= y, ast.Gt: y < x, ast.GtE: y <= x}[type(op)])
        if isinstance(a, SDyn) or isinstance(b, SDyn):
            # ordering on a dynamic value: ints compare, anything else is a TypeError
            d, o, flip = (a, b, False) if isinstance(a, SDyn) else (b, a, True)
            if isinstance(o, (SInt, SBool)):
                x, y = z3.If(PyVal.is_BoolV(d.t), z3.If(PyVal.bval(d.t), 1, 0), PyVal.ival(d.t)), as_int(o)
                if flip:
                    x, y = y, x
                res = {ast.Lt: x < y, ast.LtE: x <= y, ast.Gt: x > y, ast.GtE: x >= y}[type(op)]
                if st.spec:
                    return k(st, res)
                return eng.branch(st, z3.Or(PyVal.is_IntV(d.t), PyVal.is_BoolV(d.t)), lambda s: k(s, res), lambda s: eng.raise_new(s, "TypeError"), "dyn-order")
        raise EngineError(f"ordering between {a!r} and {b!r}")
    if isinstance(op, (ast.In, ast.NotIn)):
        def fin(s, c):
            return k(s, c if isinstance(op, ast.In) else z3.Not(c))
        return contains(eng, b, a, st, fr, fin)
    raise EngineError(f"comparison {op.__class__.__name__}")


def contains(eng, cont, x, st, fr, k):
    """x in cont -> k(st, Bool)"""
    if isinstance(cont, SOptRef):
        inner_ = SRef(cont.t, cont.inner)
        if st.spec:
            return contains(eng, inner_, x, st, fr, k)
        return eng.branch(st, cont.t != 0, lambda s_: contains(eng, inner_, x, s_, fr, k),
                          lambda s_: eng.raise_new(s_, "TypeError"), "optional")
    from .symex import EngineError
    if isinstance(cont, SConstSeq):
        if cont.pykind == "dict":
            return k(st, z3.Or([eng.equal(st, x, it.items[0]) for it in cont.items] + [z3.BoolVal(False)]))
        return k(st, z3.Or([eng.equal(st, x, it) for it in cont.items] + [z3.BoolVal(False)]))
    if isinstance(cont, STuple):
        return k(st, z3.Or([eng.equal(st, x, it) for it in cont.items] + [z3.BoolVal(False)]))
    if isinstance(cont, SStr) and isinstance(x, SStr):
        return k(st, z3.Contains(cont.t, x.t))
    if isinstance(cont, SRef) and cont.kind.startswith("dict:"):
        kk, vk = dict_kinds(cont.kind)
        if isinstance(x, SDyn) and kk == "str":
            # non-str keys are simply absent from a str-keyed dict
            has = z3.Select(st.heap.get(("dhas", "str")), cont.t)
            return k(st, z3.And(PyVal.is_StrV(x.t), z3.Select(has, PyVal.sval(x.t))))
        has = z3.Select(st.heap.get(("dhas", elem_heapkey(kk))), cont.t)
        return k(st, z3.Select(has, eng.coerce(st, x, kk)))
    if isinstance(cont, SRef) and cont.kind.startswith("set:"):
        kk = cont.kind[4:]
        if isinstance(x, SDyn) and kk == "str":
            has = z3.Select(st.heap.get(("shas", "str")), cont.t)
            return k(st, z3.And(PyVal.is_StrV(x.t), z3.Select(has, PyVal.sval(x.t))))
        has = z3.Select(st.heap.get(("shas", elem_heapkey(kk))), cont.t)
        return k(st, z3.Select(has, eng.coerce(st, x, kk)))
    if isinstance(cont, SRef) and cont.kind.startswith("list:"):
        n = eng.list_len(st, cont)
        el = eng.list_elems(st, cont)
        j = fresh("jin", IntS)
        ek = cont.kind[5:]
        eqj = eng.equal(st, x, from_sort(ek, z3.Select(el, j)))
        return k(st, z3.Exists([j], z3.And(0 <= j, j < n, eqj)))
    if isinstance(cont, SDyn):
        # a dynamic container (e.g. a tuple of field names held in an untyped attribute): it must be a tuple / list object;
        # membership is element-wise == over its items
        ids = [eng.class_ids[c] for c in ("tuple", "list") if c in eng.class_ids]
        ok = z3.And(PyVal.is_RefV(cont.t), z3.Or([eng.cls_term(st, PyVal.rval(cont.t)) == i for i in ids]))
        if not st.spec:
            eng.oblige(st, "type", "in-container-sequence", ok, "`in` on a dynamic value that is not known to be a tuple or list")
            st.assume(ok)
        return contains(eng, SRef(PyVal.rval(cont.t), "list:any"), x, st, fr, k)
    raise EngineError(f"`in` on {cont!r}")


# ---- indexing / slicing -------------------------------------------------------------------------

def norm_index(i_t, n_t):
    return z3.If(i_t < 0, i_t + n_t, i_t)


def index_value(eng, o, i, st, fr, k):
    if isinstance(o, SOptRef):
        inner_ = SRef(o.t, o.inner)
        if st.spec:
            return index_value(eng, inner_, i, st, fr, k)
        return eng.branch(st, o.t != 0, lambda s_: index_value(eng, inner_, i, s_, fr, k),
                          lambda s_: eng.raise_new(s_, "TypeError"), "optional")
    from .symex import EngineError
    if isinstance(o, SSnap):
        return k(st, from_sort(o.elemkind, z3.Select(o.elems, as_int(i))))
    if isinstance(o, SRef) and o.kind.startswith("list:"):
        if not isinstance(i, (SInt, SBool)):
            raise EngineError("list index of non-int")
        n = eng.list_len(st, o)
        it = as_int(i)
        if st.spec:
            # specification indexing is mathematical: xs[i] is the i-th element, no wrap-around
            return k(st, eng.list_get(st, o, it))
        j = z3.simplify(norm_index(it, n))
        ok = z3.And(j >= 0, j < n)
        def good(s):
            v = eng.list_get(s, o, j)
            eng.assume_wellformed(s, v)
            return k(s, v)
        return eng.branch(st, ok, good, lambda s: eng.raise_new(s, "IndexError"), "index")
    if isinstance(o, SRef) and o.kind.startswith("dict:"):
        kk, vk = dict_kinds(o.kind)
        if isinstance(i, SDyn) and kk == "str":
            if st.spec:
                i = SStr(PyVal.sval(i.t))
            else:
                return eng.branch(st, PyVal.is_StrV(i.t),
                                  lambda s: index_value(eng, o, SStr(PyVal.sval(i.t)), s, fr, k),
                                  lambda s: eng.raise_new(s, "KeyError"), "dictkey-dyn")
        kt = eng.coerce(st, i, kk)
        has = z3.Select(z3.Select(st.heap.get(("dhas", elem_heapkey(kk))), o.t), kt)
        def good(s):
            val = z3.Select(z3.Select(s.heap.get(("dval", elem_heapkey(kk), elem_heapkey(vk))), o.t), kt)
            v = from_sort(vk, val)
            eng.assume_wellformed(s, v)
            return k(s, v)
        if st.spec:
            return good(st)
        return eng.branch(st, has, good, lambda s: eng.raise_new(s, "KeyError"), "dictkey")
    if isinstance(o, SStr):
        n = z3.Length(o.t)
        it = as_int(i)
        j = z3.simplify(norm_index(it, n))
        ok = z3.And(j >= 0, j < n)
        if st.spec:
            return k(st, SStr(z3.SubString(o.t, j, 1)))
        return eng.branch(st, ok, lambda s: k(s, SStr(z3.SubString(o.t, j, 1))), lambda s: eng.raise_new(s, "IndexError"), "strindex")
    if isinstance(o, (STuple, SConstSeq)):
        if isinstance(o, SConstSeq) and o.pykind == "dict":
            # constant mapping lookup by symbolic key
            def go(idx, s):
                if idx == len(o.items):
                    if s.spec:
                        return k(s, o.items[0].items[1])
                    return eng.raise_new(s, "KeyError")
                kv = o.items[idx]
                c = eng.equal(s, i, kv.items[0])
                if s.spec:
                    raise EngineError("constant dict lookup in spec")
                return eng.branch(s, c, lambda s2: k(s2, kv.items[1]), lambda s2: go(idx + 1, s2), "cdict")
            return go(0, st)
        if isinstance(i, SInt) and z3.is_int_value(z3.simplify(i.t)):
            c = z3.simplify(i.t).as_long()
            if -len(o.items) <= c < len(o.items):
                return k(st, o.items[c])
            return eng.raise_new(st, "IndexError")
        if isinstance(i, SInt) and o.items:
            # symbolic index into a constant sequence: If-chain
            n = len(o.items)
            j = norm_index(i.t, z3.IntVal(n))
            def mk(s):
                acc = o.items[-1]
                for idx in range(n - 2, -1, -1):
                    acc = ite(eng, s, j == idx, o.items[idx], acc)
                return k(s, acc)
            if st.spec:
                return mk(st)
            return eng.branch(st, z3.And(j >= 0, j < n), mk, lambda s: eng.raise_new(s, "IndexError"), "cindex")
    if isinstance(o, SDyn):
        return dyn_index(eng, o, i, st, fr, k)
    raise EngineError(f"indexing {o!r}")


def dyn_index(eng, o, i, st, fr, k):
    from .symex import EngineError
    raise EngineError("indexing a dynamic value")


def clamp_slice(lo, hi, n):
    """Python slice bounds (step 1) -> (start, stop) with start <= stop after clamping."""
    def cl(x, default):
        if x is None:
            return default
        x = z3.If(x < 0, x + n, x)
        return z3.If(x < 0, 0, z3.If(x > n, n, x))
    a = cl(lo, z3.IntVal(0))
    b = cl(hi, n)
    b = z3.If(b < a, a, b)
    return z3.simplify(a), z3.simplify(b)


def slice_value(eng, o, lo, hi, step, st, fr, k):
    from .symex import EngineError
    def dyn_bound(v):
        # a dynamic slice bound must be an int here (None bounds are written literally in the code under contract)
        if isinstance(v, SDyn):
            if not st.spec:
                eng.oblige(st, "type", "slice-bound-int", PyVal.is_IntV(v.t), "a dynamic value is used as a slice bound")
                st.assume(PyVal.is_IntV(v.t))
            return SInt(PyVal.ival(v.t))
        return v
    lo, hi = dyn_bound(lo), dyn_bound(hi)
    lo_t = as_int(lo) if lo is not None and not isinstance(lo, SNone) else None
    hi_t = as_int(hi) if hi is not None and not isinstance(hi, SNone) else None
    if step is not None and not isinstance(step, SNone):
        stv = z3.simplify(as_int(step))
        if not z3.is_int_value(stv):
            raise EngineError("symbolic slice step")
        if stv.as_long() == -1:
            return reversed_slice(eng, o, lo_t, hi_t, st, fr, k)
        if stv.as_long() != 1:
            raise EngineError("slice step other than 1 / -1")
    if isinstance(o, SStr):
        n = z3.Length(o.t)
        a, b = clamp_slice(lo_t, hi_t, n)
        return k(st, SStr(z3.SubString(o.t, a, b - a)))
    if isinstance(o, SRef) and o.kind.startswith("list:"):
        n = eng.list_len(st, o)
        a, b = clamp_slice(lo_t, hi_t, n)
        fam = eng.list_fam(o)
        el = eng.list_elems(st, o)
        arr = fresh("slice", z3.ArraySort(IntS, FAM_SORT[fam]))
        j = z3.Int("j!sl")
        st.assume(z3.ForAll([j], z3.Implies(z3.And(0 <= j, j < b - a), z3.Select(arr, j) == z3.Select(el, a + j))))
        return k(st, eng.new_list_sym(st, o.kind[5:], b - a, arr))
    if isinstance(o, (STuple, SConstSeq)):
        cl = lambda x: None if x is None else z3.simplify(x)
        a, b = cl(lo_t), cl(hi_t)
        if (a is None or z3.is_int_value(a)) and (b is None or z3.is_int_value(b)):
            sl = slice(None if a is None else a.as_long(), None if b is None else b.as_long())
            items = o.items[sl]
            return k(st, STuple(items) if isinstance(o, STuple) else SConstSeq(items, o.pykind))
    raise EngineError(f"slice of {o!r}")


def reversed_slice(eng, o, lo_t, hi_t, st, fr, k):
    from .symex import EngineError
    if isinstance(o, SRef) and o.kind.startswith("list:"):
        n = eng.list_len(st, o)
        fam = eng.list_fam(o)
        el = eng.list_elems(st, o)
        # xs[lo::-1] / xs[::-1]  (hi must be absent): elements lo, lo-1, ..., 0
        if hi_t is not None:
            raise EngineError("reversed slice with a stop bound")
        if lo_t is None:
            start = n - 1
        else:
            s0 = z3.If(lo_t < 0, lo_t + n, lo_t)
            start = z3.If(s0 < 0, -1, z3.If(s0 > n - 1, n - 1, s0))
        ln = start + 1
        arr = fresh("rev", z3.ArraySort(IntS, FAM_SORT[fam]))
        j = z3.Int("j!rv")
        st.assume(z3.ForAll([j], z3.Implies(z3.And(0 <= j, j < ln), z3.Select(arr, j) == z3.Select(el, start - j))))
        return k(st, eng.new_list_sym(st, o.kind[5:], z3.simplify(ln), arr))
    raise EngineError(f"reversed slice of {o!r}")


def store_index(eng, o, i, v, st, fr, k):
    if isinstance(o, SOptRef):
        inner_ = SRef(o.t, o.inner)
        if st.spec:
            return store_index(eng, inner_, i, v, st, fr, k)
        return eng.branch(st, o.t != 0, lambda s_: store_index(eng, inner_, i, v, s_, fr, k),
                          lambda s_: eng.raise_new(s_, "TypeError"), "optional")
    from .symex import EngineError
    if isinstance(o, SRef) and o.kind.startswith("list:"):
        n = eng.list_len(st, o)
        j = z3.simplify(norm_index(as_int(i), n))
        def good(s):
            el = eng.list_elems(s, o)
            eng.list_set_all(s, o, eng.list_len(s, o), z3.Store(el, j, eng.coerce(s, v, o.kind[5:])))
            return k(s)
        return eng.branch(st, z3.And(j >= 0, j < n), good, lambda s: eng.raise_new(s, "IndexError"), "store-index")
    if isinstance(o, SRef) and o.kind.startswith("dict:"):
        dict_store(eng, st, o, i, v)
        return k(st)
    raise EngineError(f"item store on {o!r}")


def delete_index(eng, o, i, st, fr, k):
    if isinstance(o, SOptRef):
        inner_ = SRef(o.t, o.inner)
        if st.spec:
            return delete_index(eng, inner_, i, st, fr, k)
        return eng.branch(st, o.t != 0, lambda s_: delete_index(eng, inner_, i, s_, fr, k),
                          lambda s_: eng.raise_new(s_, "TypeError"), "optional")
    from .symex import EngineError
    if isinstance(o, SRef) and o.kind.startswith("dict:"):
        kk, vk = dict_kinds(o.kind)
        kt = eng.coerce(st, i, kk)
        has = z3.Select(z3.Select(st.heap.get(("dhas", elem_heapkey(kk))), o.t), kt)
        def good(s):
            dict_remove(eng, s, o, kt)
            return k(s)
        return eng.branch(st, has, good, lambda s: eng.raise_new(s, "KeyError"), "del-key")
    raise EngineError(f"del on {o!r}")


# ---- dicts ------------------------------------------------------------------------------------------

def new_dict(eng, st, kind):
    kk, vk = dict_kinds(kind)
    kf, vf = elem_heapkey(kk), elem_heapkey(vk)
    r = st.new_ref()
    d = SRef(r, kind)
    h = st.heap
    h.set(("dhas", kf), z3.Store(h.get(("dhas", kf)), r, z3.K(FAM_SORT[kf], z3.BoolVal(False))))
    h.set(("dn", kf), z3.Store(h.get(("dn", kf)), r, z3.IntVal(0)))
    h.get(("dval", kf, vf))
    h.get(("dkeys", kf))
    h.get(("dpos", kf))
    return d


def dict_parts(eng, st, d):
    kk, vk = dict_kinds(d.kind)
    kf, vf = elem_heapkey(kk), elem_heapkey(vk)
    h = st.heap
    return (kf, vf, z3.Select(h.get(("dhas", kf)), d.t), z3.Select(h.get(("dval", kf, vf)), d.t),
            z3.Select(h.get(("dn", kf)), d.t), z3.Select(h.get(("dkeys", kf)), d.t))


def dict_store(eng, st, d, key, v):
    kk, vk = dict_kinds(d.kind)
    kf, vf, has, val, n, keys = dict_parts(eng, st, d)
    kt = eng.coerce(st, key, kk)
    vt = eng.coerce(st, v, vk)
    h = st.heap
    present = z3.Select(has, kt)
    h.set(("dhas", kf), z3.Store(h.get(("dhas", kf)), d.t, z3.Store(has, kt, z3.BoolVal(True))))
    h.set(("dval", kf, vf), z3.Store(h.get(("dval", kf, vf)), d.t, z3.Store(val, kt, vt)))
    h.set(("dn", kf), z3.Store(h.get(("dn", kf)), d.t, z3.If(present, n, n + 1)))
    h.set(("dkeys", kf), z3.Store(h.get(("dkeys", kf)), d.t, z3.If(present, keys, z3.Store(keys, n, kt))))
    pos = z3.Select(h.get(("dpos", kf)), d.t)
    h.set(("dpos", kf), z3.Store(h.get(("dpos", kf)), d.t, z3.If(present, pos, z3.Store(pos, kt, n))))


def dict_remove(eng, st, d, kt):
    """Remove a present key; the order array closes the gap (position of kt is existentially chosen:
    sound for any dict whose order array lists each present key once)."""
    kf, vf, has, val, n, keys = dict_parts(eng, st, d)
    h = st.heap
    p = fresh("dpos", IntS)
    st.assume(z3.And(0 <= p, p < n, z3.Select(keys, p) == kt))
    nk = fresh("dkeys", z3.ArraySort(IntS, FAM_SORT[kf]))
    j = z3.Int("j!dr")
    st.assume(z3.ForAll([j], z3.Implies(z3.And(0 <= j, j < p), z3.Select(nk, j) == z3.Select(keys, j))))
    st.assume(z3.ForAll([j], z3.Implies(z3.And(p <= j, j < n - 1), z3.Select(nk, j) == z3.Select(keys, j + 1))))
    h.set(("dhas", kf), z3.Store(h.get(("dhas", kf)), d.t, z3.Store(has, kt, z3.BoolVal(False))))
    h.set(("dn", kf), z3.Store(h.get(("dn", kf)), d.t, n - 1))
    h.set(("dkeys", kf), z3.Store(h.get(("dkeys", kf)), d.t, nk))
    pos = z3.Select(h.get(("dpos", kf)), d.t)
    npos = fresh("dposr", z3.ArraySort(FAM_SORT[kf], IntS))
    kq = z3.Const("k!dr", FAM_SORT[kf])
    st.assume(z3.ForAll([kq], z3.Select(npos, kq) == z3.If(z3.Select(pos, kq) > p, z3.Select(pos, kq) - 1, z3.Select(pos, kq))))
    h.set(("dpos", kf), z3.Store(h.get(("dpos", kf)), d.t, npos))


# ---- comprehensions ---------------------------------------------------------------------------------

def _single_gen(e):
    from .symex import EngineError
    if len(e.generators) != 1 or e.generators[0].is_async:
        raise EngineError("nested comprehension")
    return e.generators[0]


def comp_source(eng, it, st):
    """(length term, element accessor j -> Value, element kind) for an iterable value."""
    from .symex import EngineError
    if isinstance(it, SRef) and it.kind.startswith("list:"):
        n = eng.list_len(st, it)
        return n, (lambda s, j: eng.list_get(s, it, j)), it.kind[5:]
    if isinstance(it, (STuple, SConstSeq)):
        return None, it.items, None
    raise EngineError(f"comprehension over {it!r}")


def list_comp(eng, e, st, fr, k):
    """[elt for x in xs if cond]  —  map: pointwise quantified definition; filter: order-preserving
    sub-sequence characterised by a monotone index map (assumed contract of list comprehensions)."""
    from .symex import EngineError
    g = _single_gen(e)

    def got_iter(s, it):
        n, acc, ek = comp_source(eng, it, s)
        if n is None:
            # concrete sequence: unroll
            def go(i, s2, outv):
                if i == len(acc):
                    kind = join_kinds([v.kind for v in outv]) if outv else "any"
                    return k(s2, eng.new_list(s2, kind, outv))
                def with_x(s3):
                    def after_if(s4, keep):
                        def yes(s5):
                            return eng.ev(e.elt, s5, fr, lambda s6, v: go(i + 1, s6, outv + [v]))
                        return eng.branch(s4, keep, yes, lambda s5: go(i + 1, s5, outv), "compif")
                    return ev_conds(eng, g.ifs, s3, fr, after_if)
                return eng.assign(g.target, acc[i], s2, fr, with_x)
            return go(0, s, [])
        # symbolic list
        j = fresh("cj", IntS)
        s_body = s  # evaluate element expression once at a symbolic index (pure expressions only)
        x = acc(s_body, j)
        saved_spec = s.spec
        s.spec = True   # element expressions of comprehensions in the repo are pure attribute reads
        try:
            holder = {}
            def with_x(s3):
                def after_if(s4, keep):
                    def got_elt(s5, v):
                        holder["elt"] = v
                        holder["keep"] = keep
                        return []
                    return eng.ev(e.elt, s4, fr, got_elt)
                return ev_conds(eng, g.ifs, s3, fr, after_if)
            s.frames.append({"__parent__": len(s.frames) - 1})
            eng.assign(g.target, x, s, fr, with_x)
            s.frames.pop()
        finally:
            s.spec = saved_spec
        elt, keep = holder["elt"], holder["keep"]
        if isinstance(elt, SFunc) and elt.what == "typeof":
            # type(x) as a value: the class id of x
            tv = elt.payload
            elt = SInt(eng.cls_term(s, tv.t if not isinstance(tv, SDyn) else PyVal.rval(tv.t)))
        if isinstance(elt, STuple):
            # a fresh tuple object per element: identities are not observable, contents are not modelled
            tarr = fresh("tuples", z3.ArraySort(IntS, IntS))
            elt = SDyn(PyVal.RefV(z3.Select(tarr, j)))
        okind = elt.kind
        # [b for b in xs if isinstance(b, T)]: the result is statically a list of T
        if (len(g.ifs) == 1 and isinstance(e.elt, ast.Name) and isinstance(g.target, ast.Name) and e.elt.id == g.target.id
                and isinstance(g.ifs[0], ast.Call) and isinstance(g.ifs[0].func, ast.Name) and g.ifs[0].func.id == "isinstance"
                and isinstance(g.ifs[0].args[0], ast.Name) and g.ifs[0].args[0].id == g.target.id
                and isinstance(g.ifs[0].args[1], ast.Name) and g.ifs[0].args[1].id in eng.repo.classes):
            okind = "ref:" + g.ifs[0].args[1].id
        fam = elem_heapkey(okind)
        arr = fresh("comp", z3.ArraySort(IntS, FAM_SORT[fam]))
        et = eng.coerce(s, elt, okind)
        if not g.ifs:
            s.assume(z3.ForAll([j], z3.Implies(z3.And(0 <= j, j < n), z3.Select(arr, j) == et)))
            return k(s, eng.new_list_sym(s, okind, n, arr))
        # filter: m = number kept, idx: strictly increasing map from output to input positions
        m = fresh("cm", IntS)
        idx = fresh("cidx", z3.ArraySort(IntS, IntS))
        q = z3.Int("q!comp")
        q2 = z3.Int("q2!comp")
        keep_at = lambda t: z3.substitute(keep, (j, t))
        elt_at = lambda t: z3.substitute(et, (j, t))
        s.assume(z3.And(0 <= m, m <= n))
        s.assume(z3.ForAll([q], z3.Implies(z3.And(0 <= q, q < m), z3.And(
            0 <= z3.Select(idx, q), z3.Select(idx, q) < n, keep_at(z3.Select(idx, q)),
            z3.Select(arr, q) == elt_at(z3.Select(idx, q))))))
        s.assume(z3.ForAll([q, q2], z3.Implies(z3.And(0 <= q, q < q2, q2 < m), z3.Select(idx, q) < z3.Select(idx, q2))))
        # every kept input position is hit
        inv = fresh("cinv", z3.ArraySort(IntS, IntS))
        s.assume(z3.ForAll([j], z3.Implies(z3.And(0 <= j, j < n, keep), z3.And(
            0 <= z3.Select(inv, j), z3.Select(inv, j) < m, z3.Select(idx, z3.Select(inv, j)) == j))))
        # consequences of the characterisation that need a counting argument (sound: they follow from idx being
        # an order isomorphism between the output positions and the kept input positions)
        i2 = z3.Int("i2!comp")
        all_kept = z3.ForAll([j], z3.Implies(z3.And(0 <= j, j < n), keep))
        s.assume(z3.Implies(all_kept, z3.And(m == n, z3.ForAll([q], z3.Implies(z3.And(0 <= q, q < n), z3.Select(idx, q) == q)))))
        s.assume(z3.Implies(z3.ForAll([j], z3.Implies(z3.And(0 <= j, j < n), z3.Not(keep))), m == 0))
        d = fresh("cdrop", IntS)      # "exactly one position is dropped" instantiated at a Skolem position
        one_dropped = z3.And(0 <= d, d < n, z3.Not(keep_at(d)), z3.ForAll([i2], z3.Implies(z3.And(0 <= i2, i2 < n, i2 != d), keep_at(i2))))
        s.assume(z3.Implies(z3.Exists([i2], z3.And(0 <= i2, i2 < n, z3.Not(keep_at(i2)))), z3.And(0 <= d, d < n, z3.Not(keep_at(d)))))
        s.assume(z3.Implies(one_dropped, z3.And(m == n - 1, z3.ForAll([q], z3.Implies(z3.And(0 <= q, q < m), z3.Select(idx, q) == z3.If(q < d, q, q + 1))))))
        lv = eng.new_list_sym(s, okind, m, arr)
        s.ghost.setdefault("comp_idx", {})[lv.t.get_id()] = (idx, inv, m)
        return k(s, lv)
    return eng.ev(g.iter, st, fr, got_iter)


def ev_conds(eng, ifs, st, fr, k):
    """conjunction of comprehension conditions -> k(st, Bool)"""
    def go(i, s, acc):
        if i == len(ifs):
            return k(s, z3.And(acc) if acc else z3.BoolVal(True))
        return eng.ev(ifs[i], s, fr, lambda s2, v: go(i + 1, s2, acc + [eng.truth(s2, v)]))
    return go(0, st, [])


def dict_comp(eng, e, st, fr, k):
    """{f.key: f for f in fields}: insertion-ordered dict with last-wins values (assumed dict semantics):
    has(k) <=> some element maps to k; val(k) = value of the LAST element with that key."""
    from .symex import EngineError
    g = _single_gen(e)
    if g.ifs:
        raise EngineError("dict comprehension with condition")

    def got_iter(s, it):
        n, acc, ek = comp_source(eng, it, s)
        if n is None:
            raise EngineError("dict comprehension over constant")
        j = fresh("dj", IntS)
        x = acc(s, j)
        holder = {}
        saved = s.spec
        s.spec = True
        try:
            s.frames.append({"__parent__": len(s.frames) - 1})
            def with_x(s3):
                return eng.ev(e.key, s3, fr, lambda s4, kv: eng.ev(e.value, s4, fr, lambda s5, vv: holder.update(k=kv, v=vv) or []))
            eng.assign(g.target, x, s, fr, with_x)
            s.frames.pop()
        finally:
            s.spec = saved
        kv, vv = holder["k"], holder["v"]
        kind = f"dict:{kv.kind}:{vv.kind}"
        d = new_dict(eng, s, kind)
        kf, vf = elem_heapkey(kv.kind), elem_heapkey(vv.kind)
        has = fresh("dchas", z3.ArraySort(FAM_SORT[kf], BoolS))
        val = fresh("dcval", z3.ArraySort(FAM_SORT[kf], FAM_SORT[vf]))
        kt, vt = eng.coerce(s, kv, kv.kind), eng.coerce(s, vv, vv.kind)
        key_at = lambda t: z3.substitute(kt, (j, t))
        val_at = lambda t: z3.substitute(vt, (j, t))
        kx = z3.Const("k!dc", FAM_SORT[kf])
        last = fresh("dclast", z3.ArraySort(FAM_SORT[kf], IntS))
        # every element's key is present, maps to the value of the last element with that key
        s.assume(z3.ForAll([j], z3.Implies(z3.And(0 <= j, j < n), z3.And(
            z3.Select(has, kt), z3.Select(last, kt) >= j, z3.Select(last, kt) < n))))
        s.assume(z3.ForAll([kx], z3.Implies(z3.Select(has, kx), z3.And(
            0 <= z3.Select(last, kx), z3.Select(last, kx) < n, key_at(z3.Select(last, kx)) == kx,
            z3.Select(val, kx) == val_at(z3.Select(last, kx))))))
        h = s.heap
        h.set(("dhas", kf), z3.Store(h.get(("dhas", kf)), d.t, has))
        h.set(("dval", kf, vf), z3.Store(h.get(("dval", kf, vf)), d.t, val))
        cnt = fresh("dcn", IntS)
        s.assume(z3.And(cnt >= 0, cnt <= n))
        h.set(("dn", kf), z3.Store(h.get(("dn", kf)), d.t, cnt))
        okeys = fresh("dckeys", z3.ArraySort(IntS, FAM_SORT[kf]))
        opos = fresh("dcpos", z3.ArraySort(FAM_SORT[kf], IntS))
        t_ = z3.Int("t!dc")
        # the order array lists exactly the present keys, each once
        s.assume(z3.ForAll([t_], z3.Implies(z3.And(0 <= t_, t_ < cnt), z3.And(z3.Select(has, z3.Select(okeys, t_)), z3.Select(opos, z3.Select(okeys, t_)) == t_))))
        s.assume(z3.ForAll([kx], z3.Implies(z3.Select(has, kx), z3.And(0 <= z3.Select(opos, kx), z3.Select(opos, kx) < cnt, z3.Select(okeys, z3.Select(opos, kx)) == kx))))
        j2_ = z3.Int("j2!dc")
        distinct = z3.ForAll([j, j2_], z3.Implies(z3.And(0 <= j, j < j2_, j2_ < n), kt != z3.substitute(kt, (j, j2_))))
        s.assume(z3.Implies(distinct, z3.And(cnt == n, z3.ForAll([t_], z3.Implies(z3.And(0 <= t_, t_ < n), z3.And(z3.Select(okeys, t_) == key_at(t_), z3.Select(last, key_at(t_)) == t_))))))
        h.set(("dkeys", kf), z3.Store(h.get(("dkeys", kf)), d.t, okeys))
        h.set(("dpos", kf), z3.Store(h.get(("dpos", kf)), d.t, opos))
        return k(s, d)
    return eng.ev(g.iter, st, fr, got_iter)


def set_comp(eng, e, st, fr, k):
    """{f(x) for x in xs}: the set of the mapped list (list comprehension followed by set())"""
    from .builtins_calls import set_from
    lc = ast.ListComp(elt=e.elt, generators=e.generators)
    return list_comp(eng, lc, st, fr, lambda s, lv: set_from(eng, lv, s, fr, k, "set:" + lv.kind[5:]))


def unpack(eng, v, n, st, fr, k):
    from .symex import EngineError
    if isinstance(v, (STuple, SConstSeq)):
        if len(v.items) != n:
            return eng.raise_new(st, "ValueError")
        return k(st, v.items)
    if isinstance(v, SRef) and v.kind.startswith("list:"):
        ln = eng.list_len(st, v)
        return eng.branch(st, ln == n, lambda s: k(s, [eng.list_get(s, v, z3.IntVal(i)) for i in range(n)]),
                          lambda s: eng.raise_new(s, "ValueError"), "unpack")
    raise EngineError(f"unpack of {v!r}")


def dyn_set_attr(eng, o, attr, v, st, fr, k):
    from .symex import EngineError
    raise EngineError(f"attribute store on dynamic value .{attr}")


# ---- special forms (specification language) ---------------------------------------------------------

def _quant(kind):
    def form(eng, e, st, fr, k):
        from .symex import EngineError
        # forall(x, guard, body) | forall((x, y), guard, body) | forall(x, 'str', guard, body)
        args = list(e.args)
        vars_ = args[0].elts if isinstance(args[0], ast.Tuple) else [args[0]]
        sortname = "int"
        if len(args) == 4:
            sortname = args[1].value
            args = [args[0]] + args[2:]
        if len(args) != 3:
            raise EngineError("forall(x, guard, body)")
        consts = []
        st.frames.append({"__parent__": len(st.frames) - 1})
        for v in vars_:
            if sortname == "int":
                c = fresh(v.id, IntS)
                st.env[v.id] = SInt(c)
            elif sortname == "str":
                c = fresh(v.id, StrS)
                st.env[v.id] = SStr(c)
            elif sortname.startswith(("ref:", "list:", "dict:")):
                c = fresh(v.id, IntS)
                st.env[v.id] = SRef(c, sortname)
            else:
                raise EngineError(f"quantifier sort {sortname}")
            consts.append(c)
        def got_g(s, g):
            def got_b(s2, b):
                s2.frames.pop()
                gt, bt = eng.truth(s2, g), eng.truth(s2, b)
                if kind == "forall":
                    return k(s2, SBool(z3.ForAll(consts, z3.Implies(gt, bt))))
                return k(s2, SBool(z3.Exists(consts, z3.And(gt, bt))))
            return eng.ev(args[2], s, fr, got_b)
        return eng.ev(args[1], st, fr, got_g)
    return form


def _implies(eng, e, st, fr, k):
    def got_a(s, a):
        ta = z3.simplify(eng.truth(s, a))
        if z3.is_false(ta):
            return k(s, SBool(True))       # statically false antecedent: the consequent need not be well-formed
        return eng.ev(e.args[1], s, fr, lambda s2, b: k(s2, SBool(z3.Implies(ta, eng.truth(s2, b)))))
    return eng.ev(e.args[0], st, fr, got_a)


def _old(eng, e, st, fr, k):
    from .symex import EngineError
    if st.old is None:
        raise EngineError("old() outside a postcondition")
    oheap, oenv, oalloc = st.old
    cur_heap, cur_alloc = st.heap, st.alloc
    st.heap = oheap.copy()
    st.alloc = oalloc
    fr_old = dict(oenv)
    fr_old["__parent__"] = len(st.frames) - 1      # quantified variables / ghost names stay visible
    st.frames.append(fr_old)
    def done(s, v):
        s.frames.pop()
        s.heap = cur_heap
        s.alloc = cur_alloc
        return k(s, v)
    return eng.ev(e.args[0], st, fr, done)


def _was(eng, e, st, fr, k):
    """was(obj, 'attr'): the value attribute `attr` of the (current) object `obj` had when the function was entered"""
    attr = e.args[1].value
    def got(s, o):
        oheap, oenv, oalloc = s.old
        cur_heap, cur_alloc = s.heap, s.alloc
        s.heap = oheap.copy()
        s.alloc = oalloc
        def done(s2, v):
            s2.heap = cur_heap
            s2.alloc = cur_alloc
            return k(s2, v)
        return eng.get_attr(o, attr, s, fr, done)
    return eng.ev(e.args[0], st, fr, got)


def _fresh(eng, e, st, fr, k):
    """fresh(x): x was allocated during this call (its id is >= the allocation pointer at entry)."""
    def got(s, v):
        base = s.old[2] if s.old is not None else s.alloc0
        if isinstance(v, SDyn):
            return k(s, SBool(z3.And(PyVal.is_RefV(v.t), PyVal.rval(v.t) >= base)))
        if isinstance(v, SNone):
            return k(s, SBool(False))
        return k(s, SBool(v.t >= base))
    return eng.ev(e.args[0], st, fr, got)


def _cut(eng, e, st, fr, k):
    """cut(s, a, b): the piece s[a:b] for 0 <= a <= b <= len(s), as the plain sequence extract (no Python clamping: outside
    that range it is whatever the extract is -- contracts state the range next to it)"""
    return eng.ev(e.args[0], st, fr, lambda s1, sv: eng.ev(e.args[1], s1, fr, lambda s2, a: eng.ev(e.args[2], s2, fr,
                  lambda s3, b: k(s3, SStr(z3.SubString(sv.t, as_int(a), as_int(b) - as_int(a)))))))


def _alloc0(eng, e, st, fr, k):
    """ALLOC0(): the allocation pointer at entry of the function under contract (objects with a smaller id existed)"""
    base = st.old[2] if st.old is not None else st.alloc0
    return k(st, SInt(base))


def _existed(eng, e, st, fr, k):
    """existed(x): x is an object that already existed when the function was entered"""
    def got(s, v):
        base = s.old[2] if s.old is not None else s.alloc0
        return k(s, SBool(z3.And(v.t > 0, v.t < base)))
    return eng.ev(e.args[0], st, fr, got)


def _allocated(eng, e, st, fr, k):
    return eng.ev(e.args[0], st, fr, lambda s, v: k(s, SBool(z3.And(v.t > 0, v.t < s.alloc))))


def _unchanged(eng, e, st, fr, k):
    """unchanged('Class.attr') : the whole heap component equals its entry value;
    unchanged(obj.attr) : that location equals its entry value."""
    from .symex import EngineError
    a = e.args[0]
    if isinstance(a, ast.Constant):
        keys = eng.heap_keys_of(a.value)
        oheap, _oenv, oalloc = st.old
        parts = []
        r = fresh("r_unch", IntS)
        for kk in keys:
            cur, old = st.heap.get(kk), oheap.get(kk)
            if cur.eq(old):
                continue
            # the component is unchanged on every object that existed at entry (fresh objects do not count)
            parts.append(z3.ForAll([r], z3.Implies(z3.And(r > 0, r < oalloc), z3.Select(cur, r) == z3.Select(old, r))))
        return k(st, SBool(z3.And(parts) if parts else z3.BoolVal(True)))
    new = ast.Compare(left=a, ops=[ast.Eq()], comparators=[ast.Call(func=ast.Name(id="old", ctx=ast.Load()), args=[a], keywords=[])])
    return eng.ev(new, st, fr, k)


def _content_unchanged(eng, e, st, fr, k):
    """content_unchanged(x): the list / dict / set x holds exactly what it held at entry (same order)"""
    def got(s, v):
        kind = v.kind if isinstance(v, SRef) else v.inner
        oheap = s.old[0]
        return k(s, SBool(z3.And([z3.Select(s.heap.get(kk), v.t) == z3.Select(oheap.get(kk), v.t) for kk in eng.heap_keys_of(kind)])))
    return eng.ev(e.args[0], st, fr, got)


def _isstr(eng, e, st, fr, k):
    return eng.ev(e.args[0], st, fr, lambda s, v: k(s, SBool(PyVal.is_StrV(v.t) if isinstance(v, SDyn) else z3.BoolVal(isinstance(v, SStr)))))


def _isref(eng, e, st, fr, k):
    """isref(x): the dynamic value x is an object reference"""
    return eng.ev(e.args[0], st, fr, lambda s, v: k(s, SBool(PyVal.is_RefV(v.t) if isinstance(v, SDyn) else z3.BoolVal(isinstance(v, (SRef,))))))


def _sval(eng, e, st, fr, k):
    return eng.ev(e.args[0], st, fr, lambda s, v: k(s, SStr(PyVal.sval(v.t)) if isinstance(v, SDyn) else v))


def _ival(eng, e, st, fr, k):
    return eng.ev(e.args[0], st, fr, lambda s, v: k(s, SInt(PyVal.ival(v.t)) if isinstance(v, SDyn) else v))


def _cls_is(eng, e, st, fr, k):
    """cls_is(x, 'Name'): exact dynamic class"""
    name = e.args[1].value
    def got(s, v):
        t = PyVal.rval(v.t) if isinstance(v, SDyn) else v.t
        c = eng.cls_term(s, t) == eng.class_ids[name]
        if isinstance(v, SDyn):
            c = z3.And(PyVal.is_RefV(v.t), c)
        return k(s, SBool(c))
    return eng.ev(e.args[0], st, fr, got)


def _ghost(eng, e, st, fr, k):
    """ghost('name') -> ghost int;  ghost('name', i) -> i-th element of a ghost int array"""
    name = e.args[0].value
    if len(e.args) == 1:
        return k(st, SInt(st.heap.get(("g", name, "int"))))
    return eng.ev(e.args[1], st, fr, lambda s, i: k(s, SInt(z3.Select(s.heap.get(("g", name, "arr")), i.t))))


_GHOST_FNS = {}


def _dict_wf(eng, e, st, fr, k):
    """dict_wf(d): the order array lists exactly the present keys, each once (pos is its inverse)"""
    def got(s, d):
        kf, vf, has, val, n, keys = dict_parts(eng, s, d)
        pos = z3.Select(s.heap.get(("dpos", kf)), d.t)
        t = fresh("t_dwf", IntS)
        kx = fresh("k_dwf", FAM_SORT[kf])
        return k(s, SBool(z3.And(n >= 0,
                                 z3.ForAll([t], z3.Implies(z3.And(0 <= t, t < n), z3.And(z3.Select(has, z3.Select(keys, t)), z3.Select(pos, z3.Select(keys, t)) == t))),
                                 z3.ForAll([kx], z3.Implies(z3.Select(has, kx), z3.And(0 <= z3.Select(pos, kx), z3.Select(pos, kx) < n, z3.Select(keys, z3.Select(pos, kx)) == kx))))))
    return eng.ev(e.args[0], st, fr, got)


def _dict_pos(eng, e, st, fr, k):
    """dict_pos(d, key): position of key in d's insertion order"""
    def got(s, d):
        def got_k(s2, kv):
            kf = dict_parts(eng, s2, d)[0]
            kk, vk = dict_kinds(d.kind)
            return k(s2, SInt(z3.Select(z3.Select(s2.heap.get(("dpos", kf)), d.t), eng.coerce(s2, kv, kk))))
        return eng.ev(e.args[1], s, fr, got_k)
    return eng.ev(e.args[0], st, fr, got)


def _ghostfn(eng, e, st, fr, k):
    """ghostfn('name', x): an uninterpreted int -> int function.  Used in a `requires` it states that SOME such
    function exists (e.g. an owner map witnessing that objects are pairwise distinct); the symbol is otherwise free."""
    name = e.args[0].value
    f = _GHOST_FNS.get(name)
    if f is None:
        f = _GHOST_FNS[name] = z3.Function("ghostfn_" + name, IntS, IntS)
    return eng.ev(e.args[1], st, fr, lambda s, v: k(s, SInt(f(v.t))))


_UFSTR = {}


def _ufstr(eng, e, st, fr, k):
    """ufstr('name', obj, s): an uninterpreted function (object identity, str) -> str.  Used in the ASSUMED contract of a
    hook it states that the hook's result is a function of the receiver and the argument (the hook is pure)."""
    name = e.args[0].value
    f = _UFSTR.get(name)
    if f is None:
        f = _UFSTR[name] = z3.Function("ufstr_" + name, IntS, StrS, StrS)
    def got(s1, o):
        oid = PyVal.rval(o.t) if isinstance(o, SDyn) else o.t
        return eng.ev(e.args[2], s1, fr, lambda s2, v: k(s2, SStr(f(oid, PyVal.sval(v.t) if isinstance(v, SDyn) else v.t))))
    return eng.ev(e.args[1], st, fr, got)


def _ghost_str(eng, e, st, fr, k):
    return k(st, SStr(st.heap.get(("g", e.args[0].value, "str"))))


def _ref_id(eng, e, st, fr, k):
    """ref_id(x): the identity of object x as an int (for comparison with ghost arrays)"""
    return eng.ev(e.args[0], st, fr, lambda s, v: k(s, SInt(0) if isinstance(v, SNone) else SInt(PyVal.rval(v.t) if isinstance(v, SDyn) else v.t)))


def _same_class(eng, e, st, fr, k):
    """same_class(a, b): a and b have the same dynamic class"""
    def got(s, a):
        def got_b(s2, b):
            ta = PyVal.rval(a.t) if isinstance(a, SDyn) else a.t
            tb = PyVal.rval(b.t) if isinstance(b, SDyn) else b.t
            c = eng.cls_term(s2, ta) == eng.cls_term(s2, tb)
            for v in (a, b):
                if isinstance(v, SDyn):
                    c = z3.And(PyVal.is_RefV(v.t), c)
            return k(s2, SBool(c))
        return eng.ev(e.args[1], s, fr, got_b)
    return eng.ev(e.args[0], st, fr, got)


def _same_obj(eng, e, st, fr, k):
    return eng.ev(e.args[0], st, fr, lambda s, a: eng.ev(e.args[1], s, fr, lambda s2, b: k(s2, SBool(eng.identical(s2, a, b)))))


def _as_ref(eng, e, st, fr, k):
    """as_ref(x, 'ref:C'): view a dynamic / optional value as a reference of the given kind (spec only)."""
    kind = e.args[1].value
    def got(s, v):
        if isinstance(v, SDyn):
            return k(s, SRef(PyVal.rval(v.t), kind))
        return k(s, SRef(v.t, kind))
    return eng.ev(e.args[0], st, fr, got)


def _joined(eng, e, st, fr, k):
    """joined(xs): the ghost value "".join(xs) of a list of str"""
    return eng.ev(e.args[0], st, fr, lambda s, v: k(s, SStr(eng.list_joined(s, v))))


def _truthy(eng, e, st, fr, k):
    return eng.ev(e.args[0], st, fr, lambda s, v: k(s, SBool(eng.truth(s, v))))


def _isint(eng, e, st, fr, k):
    """isint(x): x is an int and not a bool"""
    return eng.ev(e.args[0], st, fr, lambda s, v: k(s, SBool(PyVal.is_IntV(v.t) if isinstance(v, SDyn) else z3.BoolVal(isinstance(v, SInt)))))


def _isnone(eng, e, st, fr, k):
    return eng.ev(e.args[0], st, fr, lambda s, v: k(s, SBool(eng.identical(s, v, SNone()))))


def _dict_key_at(eng, e, st, fr, k):
    def got(s, d):
        def got_j(s2, j):
            kk, vk = dict_kinds(d.kind)
            return k(s2, from_sort(kk, z3.Select(dict_parts(eng, s2, d)[5], j.t)))
        return eng.ev(e.args[1], s, fr, got_j)
    return eng.ev(e.args[0], st, fr, got)


def _str_of(eng, e, st, fr, k):
    return eng.ev(e.args[0], st, fr, lambda s, v: k(s, SStr(format_value(eng, s, v))))


def _nlines(eng, e, st, fr, k):
    """nlines(s) == len(s.splitlines())"""
    return eng.ev(e.args[0], st, fr, lambda s, v: k(s, SInt(U["nlines"](v.t))))


def _modconst(eng, e, st, fr, k):
    """modconst('module', 'NAME'): the module-level constant of the repository (re-read every run)"""
    mod, name = e.args[0].value, e.args[1].value
    node = eng.repo.consts.get((mod, name))
    if node is None:
        from .symex import EngineError
        raise EngineError(f"module constant {mod}.{name} not found")
    return k(st, eng.const_value(node, mod, st, fr))


SPECIAL_FORMS = {"dict_wf": _dict_wf, "dict_pos": _dict_pos, "was": _was, "ghostfn": _ghostfn, "ghost_str": _ghost_str, "ghost": _ghost, "ref_id": _ref_id, "same_class": _same_class, "existed": _existed, "content_unchanged": _content_unchanged, "modconst": _modconst, "nlines": _nlines, "joined": _joined, "truthy": _truthy, "isint": _isint, "isnone": _isnone,
                 "dict_key_at": _dict_key_at, "str_of": _str_of, "forall": _quant("forall"), "exists": _quant("exists"), "implies": _implies, "old": _old,
                 "fresh": _fresh, "allocated": _allocated, "unchanged": _unchanged, "isstr": _isstr, "isref": _isref, "ufstr": _ufstr, "ALLOC0": _alloc0, "cut": _cut,
                 "sval": _sval, "ival": _ival, "cls_is": _cls_is, "same": _same_obj, "as_ref": _as_ref}
SPECIAL_ALWAYS = set()
SPEC_FUNCS = set()
from . import marks as _marks  # noqa: E402
SPECIAL_FORMS.update(_marks.FORMS)

from .builtins_calls import *  # noqa: E402,F401
