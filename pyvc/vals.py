"""Symbolic values: each value has a *static kind* known at symbolic-execution time.

Kinds (string descriptors used in contracts and in the class-attribute schema):
  int | bool | str | none | any            scalars; `any` is the PyVal datatype (dynamic value)
  ref:<Class>                              non-null reference to an instance of a repo class (or subclass)
  list:<elemkind>                          reference to a list; elemkind in int|str|any|ref:<C>|list:<...>
  dict:<keykind>:<valkind>                 reference to an insertion-ordered dict (keykind str|int)
  set:<elemkind>                           reference to a set (elemkind str|int)
  tuple:<k1>,<k2>,...                      immutable static-length tuple (held by value)
  match                                    a regex match of the splitter's mark iterator = index into the mark arrays
  iter:<...>                               iterator object (reference) with a ghost cursor
References are z3 Ints.  Strings are z3 Strings.  `any` is the datatype below.
"""
import z3

IntS = z3.IntSort()
BoolS = z3.BoolSort()
StrS = z3.StringSort()

PyVal = z3.Datatype("PyVal")
PyVal.declare("IntV", ("ival", IntS))
PyVal.declare("BoolV", ("bval", BoolS))
PyVal.declare("StrV", ("sval", StrS))
PyVal.declare("NoneV")
PyVal.declare("RefV", ("rval", IntS))
PyVal = PyVal.create()


def kind_sort(kind):
    if kind in ("int", "match"):
        return IntS
    if kind == "bool":
        return BoolS
    if kind == "str":
        return StrS
    if kind == "any":
        return PyVal
    if kind == "none":
        return BoolS  # placeholder, never stored
    if kind.startswith(("ref:", "list:", "dict:", "set:", "iter:", "optref:")) or kind == "ext":
        return IntS
    raise ValueError(f"no z3 sort for kind {kind!r}")


class Value:
    kind = None

    def __repr__(self):
        return f"<{self.__class__.__name__} {getattr(self, 'kind', '')} {getattr(self, 't', '')}>"


class SInt(Value):
    kind = "int"

    def __init__(self, t):
        self.t = z3.IntVal(t) if isinstance(t, int) and not isinstance(t, bool) else t


class SBool(Value):
    kind = "bool"

    def __init__(self, t):
        self.t = z3.BoolVal(t) if isinstance(t, bool) else t


class SStr(Value):
    kind = "str"

    def __init__(self, t):
        self.t = z3.StringVal(t) if isinstance(t, str) else t


class SNone(Value):
    kind = "none"
    t = None


class SRef(Value):
    """Reference (non-null) with a static kind 'ref:C' / 'list:..' / 'dict:..' / 'set:..' / 'iter:..'."""

    def __init__(self, t, kind):
        self.t = t
        self.kind = kind

    @property
    def cls(self):
        return self.kind[4:] if self.kind.startswith("ref:") else None


class SOptRef(Value):
    """Reference or None: t is an Int, 0 encodes None (no object has id 0).  kind 'optref:<inner kind>'."""

    def __init__(self, t, inner):
        self.t = t
        self.inner = inner
        self.kind = "optref:" + inner


class SDyn(Value):
    kind = "any"

    def __init__(self, t):
        self.t = t


class STuple(Value):
    def __init__(self, items):
        self.items = list(items)
        self.kind = "tuple:" + ",".join(i.kind for i in self.items)


class SSnap(Value):
    """immutable snapshot of a list (length term, element array term): what a loop iterates over when its
    iterable is a fresh temporary list"""
    kind = "snapshot"

    def __init__(self, n, elems, elemkind):
        self.n = n
        self.elems = elems
        self.elemkind = elemkind
        self.t = None


class SMatch(Value):
    """A match object of the mark iterator: index into the ghost mark arrays."""
    kind = "match"

    def __init__(self, t):
        self.t = t


class SClass(Value):
    """A class object (repo class or builtin type) used as a value (isinstance argument, constructor)."""
    kind = "class"

    def __init__(self, name):
        self.name = name
        self.t = None


class SFunc(Value):
    """A function value: repo FuncInfo, closure (node + defining env) or builtin name."""
    kind = "func"

    def __init__(self, what, payload=None, bound_self=None):
        self.what = what          # 'repo' | 'closure' | 'builtin' | 'lambda'
        self.payload = payload
        self.bound_self = bound_self
        self.t = None


class SModule(Value):
    kind = "module"

    def __init__(self, name):
        self.name = name
        self.t = None


class SConstSeq(Value):
    """A Python-level constant sequence of Values (module-level tuple/list constant, literal tuple used
    in `x in ("a", "A")`).  Held by value, immutable."""

    def __init__(self, items, pykind="tuple"):
        self.items = list(items)
        self.pykind = pykind
        self.kind = "constseq"
        self.t = None


# ---- conversions between static kinds and PyVal ---------------------------------------------------

def to_dyn(v):
    """Value -> z3 PyVal term (boxing).  Containers / objects box as RefV."""
    if isinstance(v, SDyn):
        return v.t
    if isinstance(v, SInt):
        return PyVal.IntV(v.t)
    if isinstance(v, SBool):
        return PyVal.BoolV(v.t)
    if isinstance(v, SStr):
        return PyVal.StrV(v.t)
    if isinstance(v, SNone):
        return PyVal.NoneV
    if isinstance(v, SRef):
        return PyVal.RefV(v.t)
    if isinstance(v, SOptRef):
        return z3.If(v.t == 0, PyVal.NoneV, PyVal.RefV(v.t))
    raise TypeError(f"cannot box {v!r} into PyVal")


def from_sort(kind, term):
    """Wrap a z3 term read from a heap slot of the given kind."""
    if kind == "int":
        return SInt(term)
    if kind == "bool":
        return SBool(term)
    if kind == "str":
        return SStr(term)
    if kind == "any":
        return SDyn(term)
    if kind == "match":
        return SMatch(term)
    if kind.startswith("optref:"):
        return SOptRef(term, kind[7:])
    if kind.startswith(("ref:", "list:", "dict:", "set:", "iter:")) or kind == "ext":
        return SRef(term, kind)     # 'ext': an opaque third-party object
    raise ValueError(kind)


def elem_heapkey(elemkind):
    """Heap component family that holds list contents of this element kind."""
    if elemkind == "str":
        return "str"
    if elemkind == "any":
        return "any"
    if elemkind in ("int", "match"):
        return "int"
    return "ref"      # refs to objects / nested containers
