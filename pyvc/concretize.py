"""From a counter-model of a verification condition to concrete Python inputs (JSON spec understood by
native/contract_replay.py).  Models are shrunk first (small strings / short lists), because raw z3 models
have sizes like 13 511.  Anything that cannot be reconstructed faithfully returns None (the violation is
then reported with `no-failing-input-found`)."""
import z3

from .vals import *
from .vals import PyVal
from . import builtins_model as bm
from .contracts_rt import unfold_rec_apps

MAX_ITEMS = 6
MAX_DEPTH = 7


class GiveUp(Exception):
    pass


class Walker:
    def __init__(self, eng, model, heap):
        self.eng = eng
        self.m = model
        self.heap = heap
        self.objs = set()
        self.sizes = []     # symbolic size terms met on the way (for shrinking)
        self.id2cls = {v: k for k, v in eng.class_ids.items()}

    def ev(self, t):
        return self.m.eval(t, model_completion=True)

    def pystr(self, t):
        v = self.ev(t)
        s = bm.literal_str(v)
        if s is None:
            raise GiveUp("string value not a literal")
        return s

    def val(self, v, depth=0):
        if depth > MAX_DEPTH:
            raise GiveUp("object graph too deep")
        if isinstance(v, SStr):
            self.sizes.append(z3.Length(v.t))
            return {"k": "str", "v": self.pystr(v.t)}
        if isinstance(v, SInt):
            return {"k": "int", "v": self.ev(v.t).as_long()}
        if isinstance(v, SBool):
            return {"k": "bool", "v": z3.is_true(self.ev(v.t))}
        if isinstance(v, SNone):
            return {"k": "none"}
        if isinstance(v, SClass):
            return {"k": "class", "name": v.name}
        if isinstance(v, STuple):
            return {"k": "tuple", "items": [self.val(x, depth + 1) for x in v.items]}
        if isinstance(v, SMatch):
            raise GiveUp("regex match objects are ghost values")
        if isinstance(v, SOptRef):
            if self.ev(v.t).as_long() == 0:
                return {"k": "none"}
            return self.val(SRef(v.t, v.inner), depth)
        if isinstance(v, SDyn):
            t = v.t
            if z3.is_true(self.ev(PyVal.is_StrV(t))):
                return self.val(SStr(PyVal.sval(t)), depth)
            if z3.is_true(self.ev(PyVal.is_IntV(t))):
                return self.val(SInt(PyVal.ival(t)), depth)
            if z3.is_true(self.ev(PyVal.is_BoolV(t))):
                return self.val(SBool(PyVal.bval(t)), depth)
            if z3.is_true(self.ev(PyVal.is_NoneV(t))):
                return {"k": "none"}
            r = PyVal.rval(t)
            cname = self.id2cls.get(self.ev(self.eng.cls_term_heap(self.heap, r)).as_long())
            if cname in self.eng.repo.classes:
                return self.val(SRef(r, "ref:" + cname), depth)
            if cname == "list":
                return self.val(SRef(r, "list:any"), depth)
            raise GiveUp(f"dynamic value refers to an object of class {cname}")
        if isinstance(v, SRef):
            r = self.ev(v.t).as_long()
            if r in self.objs:
                return {"k": "ref", "id": r}
            self.objs.add(r)
            kind = v.kind
            if kind.startswith("ref:"):
                cid = self.ev(z3.Select(self.heap.get(("cls",)), v.t)).as_long()
                cname = self.id2cls.get(cid)
                if cname is None or not self.eng.is_subclass(cname, kind[4:]):
                    raise GiveUp("object class outside the static kind")
                attrs = {}
                chain = self.eng.repo.mro(cname) if cname in self.eng.repo.classes else [cname]
                extra = []
                c = cname
                while c is not None and c not in self.eng.repo.classes:
                    extra.append(c)
                    c = self.eng.exc_parent(c)
                for cc in list(chain) + extra:
                    for attr, ak in self.eng.schema.get(cc, {}).items():
                        if attr in attrs or attr.startswith("g_"):
                            continue
                        term = z3.Select(self.heap.get(("attr", cc, attr, ak)), v.t)
                        attrs[attr] = self.val(from_sort(ak, term), depth + 1)
                return {"k": "obj", "cls": cname, "id": r, "attrs": attrs}
            if kind.startswith("list:"):
                fam = elem_heapkey(kind[5:])
                ln_t = z3.Select(self.heap.get(("len", fam)), v.t)
                self.sizes.append(ln_t)
                ln = self.ev(ln_t).as_long()
                if ln < 0 or ln > MAX_ITEMS:
                    raise GiveUp(f"list of length {ln}")
                el = z3.Select(self.heap.get(("elems", fam)), v.t)
                return {"k": "list", "id": r, "items": [self.val(from_sort(kind[5:], z3.Select(el, i)), depth + 1) for i in range(ln)]}
            if kind.startswith("dict:"):
                kk, vk = bm.dict_kinds(kind)
                kf, vf = elem_heapkey(kk), elem_heapkey(vk)
                n_t = z3.Select(self.heap.get(("dn", kf)), v.t)
                self.sizes.append(n_t)
                n = self.ev(n_t).as_long()
                if n < 0 or n > MAX_ITEMS:
                    raise GiveUp(f"dict of size {n}")
                keys = z3.Select(self.heap.get(("dkeys", kf)), v.t)
                val = z3.Select(self.heap.get(("dval", kf, vf)), v.t)
                has = z3.Select(self.heap.get(("dhas", kf)), v.t)
                items = []
                seen = set()
                for i in range(n):
                    kt = z3.Select(keys, i)
                    ks = self.val(from_sort(kk, kt), depth + 1)
                    if not z3.is_true(self.ev(z3.Select(has, kt))) or repr(ks) in seen:
                        raise GiveUp("dict order array inconsistent with membership in this model")
                    seen.add(repr(ks))
                    items.append([ks, self.val(from_sort(vk, z3.Select(val, kt)), depth + 1)])
                return {"k": "dict", "id": r, "items": items}
            raise GiveUp(f"value of kind {kind}")
        raise GiveUp(f"value {v!r}")


def _ranges(pred):
    out, start, prev = [], None, None
    for cp in range(0x110000):
        if pred(chr(cp)):
            if start is None:
                start = cp
            prev = cp
        elif start is not None:
            out.append((start, prev))
            start = None
    if start is not None:
        out.append((start, prev))
    return out


_REALISM = {}


def _char_class(name):
    if name not in _REALISM:
        pred = {"isdigit": str.isdigit, "isdecimal": str.isdecimal, "isalpha": str.isalpha, "isupper": str.isupper}[name]
        rs = [(a, b) for a, b in _ranges(pred) if b < 0x30000]     # z3's character range
        _REALISM[name] = z3.Union([z3.Range(chr(a), chr(b)) if a != b else z3.Re(chr(a)) for a, b in rs])
    return _REALISM[name]


def realism_constraints(terms):
    """Counter-models interpret the uninterpreted character predicates freely; for *concretisation* (never
    for proofs) they are tied to CPython's meaning so that the reconstructed input behaves natively the
    way the model says (e.g. isdigit(s) and int(s) failing gives a superscript digit)."""
    out, seen = [], set()
    todo = list(terms)
    while todo:
        t = todo.pop()
        if t.get_id() in seen:
            continue
        seen.add(t.get_id())
        if z3.is_quantifier(t):
            continue
        if z3.is_app(t) and t.num_args() == 1 and t.decl().name() in ("py_isdigit", "py_isascii", "py_int_ok", "py_isalpha", "py_isupper"):
            a = t.arg(0)
            nm = t.decl().name()
            if nm == "py_isdigit":
                out.append(t == z3.InRe(a, z3.Plus(_char_class("isdigit"))))
            elif nm == "py_isascii":
                out.append(t == z3.InRe(a, z3.Star(z3.Range(chr(0), chr(127)))))
            elif nm == "py_int_ok":
                out.append(z3.Implies(z3.InRe(a, z3.Plus(_char_class("isdigit"))), t == z3.InRe(a, z3.Plus(_char_class("isdecimal")))))
            elif nm == "py_isalpha":
                out.append(t == z3.InRe(a, z3.Plus(_char_class("isalpha"))))
        todo.extend(t.children())
    return out


def _quantified(t):
    todo, seen = [t], set()
    while todo:
        x = todo.pop()
        if x.get_id() in seen:
            continue
        seen.add(x.get_id())
        if z3.is_quantifier(x):
            return True
        todo.extend(x.children())
    return False


def concretize(eng, ob, fi, contract, timeout_ms=8000, drop_quantified=False):
    """-> {"order": [...], "params": {...}} or (None, reason).
    drop_quantified: candidate search for an UNDECIDED obligation -- quantified hypotheses are left out, so the
    model is only a candidate; it counts only if the native replay shows it is a legal input that violates the contract."""
    entry_env, entry_heap = ob.entry
    s = z3.Solver()
    s.set("timeout", timeout_ms)
    hyps = [h for h in ob.hyps if not (drop_quantified and _quantified(h))]
    terms = list(hyps) + [z3.Not(ob.goal)]
    unf = unfold_rec_apps(terms)
    for t in terms + unf + bm.instantiate_axioms(terms + unf):
        s.add(t)
    from .state import guarded_check
    if guarded_check(s, timeout_ms) != z3.sat:
        return None, "in-process re-solve did not return sat"
    s.push()
    for t in realism_constraints(terms + unf):
        s.add(t)
    if guarded_check(s, timeout_ms) != z3.sat:
        s.pop()     # keep the abstract model
    order = fi.params

    def attempt(model):
        w = Walker(eng, model, entry_heap)
        params = {p: w.val(entry_env[p]) for p in order}
        return {"order": order, "params": params}, w.sizes

    try:
        spec, sizes = attempt(s.model())
    except GiveUp as e:
        spec, sizes, first_err = None, None, str(e)
        # one blind pass to collect size terms from whatever could be walked
        w = Walker(eng, s.model(), entry_heap)
        for p in order:
            try:
                w.val(entry_env[p])
            except GiveUp:
                pass
        sizes = w.sizes
    best = spec
    for bound in (0, 1, 2, 3, 5):
        s.push()
        for t in sizes:
            s.add(t <= bound)
        r = guarded_check(s, timeout_ms)
        if r == z3.sat:
            try:
                cand, sizes2 = attempt(s.model())
                s.pop()
                return cand, f"shrunk to sizes <= {bound}"
            except GiveUp:
                pass
        s.pop()
    if best is not None:
        return best, "unshrunk model"
    return None, "model could not be turned into concrete objects"
