"""Symbolic state: environment, component heap, path condition, allocation pointer."""
import itertools
import z3

from .vals import IntS, BoolS, StrS, PyVal, kind_sort, from_sort, elem_heapkey

_counter = [0]


def guarded_check(solver, limit_ms):
    """solver.check() with a hard wall-clock guard: z3's own `timeout` is not honoured by every theory (the sequence
    solver in particular), so a watchdog interrupts the context when the limit is exceeded by half.  An interrupted check
    answers `unknown`, which every caller treats conservatively."""
    import threading
    solver.set("timeout", int(limit_ms))
    t = threading.Timer(limit_ms * 1.5 / 1000.0 + 0.2, solver.ctx.interrupt)
    t.daemon = True
    t.start()
    try:
        return solver.check()
    except z3.Z3Exception:
        return z3.unknown
    finally:
        t.cancel()


def fresh(name, sort):
    _counter[0] += 1
    return z3.Const(f"{name}!{_counter[0]}", sort)


def counter_value():
    return _counter[0]


def reset_counter():
    _counter[0] = 0


FAM_SORT = {"int": IntS, "str": StrS, "any": PyVal, "ref": IntS}


def heap_sort(key):
    """z3 sort of the heap component `key`."""
    k = key[0]
    if k == "attr":
        return z3.ArraySort(IntS, kind_sort(key[3]))
    if k == "cls":
        return z3.ArraySort(IntS, IntS)
    if k == "len":
        return z3.ArraySort(IntS, IntS)
    if k == "elems":
        return z3.ArraySort(IntS, z3.ArraySort(IntS, FAM_SORT[key[1]]))
    if k == "dhas":
        return z3.ArraySort(IntS, z3.ArraySort(FAM_SORT[key[1]], BoolS))
    if k == "dval":
        return z3.ArraySort(IntS, z3.ArraySort(FAM_SORT[key[1]], FAM_SORT[key[2]]))
    if k == "dn":
        return z3.ArraySort(IntS, IntS)
    if k == "dkeys":
        return z3.ArraySort(IntS, z3.ArraySort(IntS, FAM_SORT[key[1]]))
    if k == "dpos":        # ghost inverse of the order array: key -> position
        return z3.ArraySort(IntS, z3.ArraySort(FAM_SORT[key[1]], IntS))
    if k == "shas":
        return z3.ArraySort(IntS, z3.ArraySort(FAM_SORT[key[1]], BoolS))
    if k in ("ipos", "sn"):
        return z3.ArraySort(IntS, IntS)
    if k == "joined":
        return z3.ArraySort(IntS, StrS)
    if k == "g":           # ghost scalar / array: ('g', name, kind)
        if key[2] == "arr":
            return z3.ArraySort(IntS, IntS)
        return kind_sort(key[2])
    raise KeyError(key)


class Heap:
    """Component heap: key -> z3 term.  Components are created lazily (as unconstrained pre-state
    symbols) the first time they are touched; `initial` remembers those symbols so that `old(..)` and
    frame conditions can refer to the entry heap."""

    def __init__(self, initial=None, comps=None, tag="h0", epoch=0):
        self.initial = initial if initial is not None else {}
        self.comps = comps if comps is not None else {}
        self.tag = tag
        self.epoch = epoch

    def copy(self):
        h = Heap(self.initial, dict(self.comps), self.tag, self.epoch)
        return h

    def get(self, key):
        if key not in self.comps:
            if self.epoch and key[0] not in ("cls", "g"):
                # an opaque call happened before this component was first touched: its value is unknown
                self.get_initial(key)
                self.comps[key] = fresh(f"E{self.epoch}_" + "_".join(str(x) for x in key).replace(":", "."), heap_sort(key))
            else:
                self.comps[key] = self.get_initial(key)
        return self.comps[key]

    def get_initial(self, key):
        if key not in self.initial:
            self.initial[key] = z3.Const("H0_" + "_".join(str(x) for x in key).replace(":", "."), heap_sort(key))
        return self.initial[key]

    def havoc_all(self, keep=()):
        """an opaque call may have written anything: forget every component (ghost keys in `keep` survive)"""
        for key in list(self.comps):
            if key[0] == "cls" or key in keep:
                continue
            del self.comps[key]
        self.epoch += 1

    def havoc_above(self, base, all_keys, keep=()):
        """an opaque call that may write anything in objects with id >= base (and nothing below): every component gets a
        fresh symbol that agrees with the old one below `base`.  Returns the frame facts.  Components that are not in
        `all_keys` and were never touched fall under the epoch rule (unknown after the call)."""
        facts = []
        r = z3.Int("r!above")
        for key in list(all_keys) + [kx for kx in self.comps if kx not in all_keys]:
            if key[0] in ("cls", "g") or key in keep:
                continue
            old = self.get(key)
            new = fresh("hva_" + "_".join(str(x) for x in key).replace(":", "."), heap_sort(key))
            self.comps[key] = new
            facts.append(z3.ForAll([r], z3.Implies(z3.And(r > 0, r < base), z3.Select(new, r) == z3.Select(old, r))))
        self.epoch += 1
        return facts

    def set(self, key, term):
        self.get(key)  # make sure the initial symbol exists
        self.comps[key] = term

    def havoc(self, key):
        self.get(key)
        self.comps[key] = fresh("hv_" + "_".join(str(x) for x in key).replace(":", "."), heap_sort(key))

    def snapshot(self):
        """A frozen copy usable as `old` heap."""
        return Heap(self.initial, dict(self.comps), self.tag, self.epoch)

    def changed_keys(self, other):
        keys = set(self.comps) | set(other.comps)
        out = set()
        for k in keys:
            a = self.comps.get(k, self.initial.get(k))
            b = other.comps.get(k, other.initial.get(k))
            if a is None or b is None or not a.eq(b):
                out.add(k)
        return out


class State:
    @property
    def env(self):
        return self.frames[-1]

    def __init__(self):
        self.frames = [{}]      # environments; closures link to their parent by index ('__parent__')
        self.spec = False       # True while evaluating a specification expression (pure, total semantics)
        self.specnames = {}     # result / exc / bound quantifier variables
        self.heap = Heap()
        self.pc = []            # list of z3 Bool: assumptions + path condition
        self.alloc0 = z3.Int("ALLOC0")
        self.alloc = self.alloc0
        self.pc.append(self.alloc0 > 0)
        self.trace = []         # human-readable branch decisions (for reports)
        self.depth = 0
        self.old = None         # entry snapshot (Heap, env) for old()
        self.ghost = {}         # per-state ghost python data

    def copy(self):
        s = State.__new__(State)
        s.frames = [dict(f) for f in self.frames]
        s.spec = self.spec
        s.specnames = dict(self.specnames)
        s.heap = self.heap.copy()
        s.pc = list(self.pc)
        s.alloc0 = self.alloc0
        s.alloc = self.alloc
        s.trace = list(self.trace)
        s.depth = self.depth
        s.old = self.old
        s.ghost = dict(self.ghost)
        return s

    def assume(self, cond):
        if z3.is_true(cond):
            return
        if z3.is_and(cond):
            # conjuncts are kept apart so that quantifier-free ones survive the filters of the feasibility checks
            for ch in cond.children():
                self.assume(ch)
            return
        self.pc.append(cond)

    def new_ref(self):
        r = self.alloc
        self.alloc = self.alloc + 1
        return z3.simplify(r)

    def bump_alloc_unknown(self):
        """A callee may have allocated: the pointer moves forward by an unknown non-negative amount."""
        a = fresh("alloc", IntS)
        self.pc.append(a >= self.alloc)
        lo = self.alloc
        self.alloc = a
        return lo, a
