"""What contract files import: @contract, @pred, @rec, SCHEMA registration."""
import ast
import inspect
import textwrap

REGISTRY = {"contracts": {}, "preds": {}, "recs": {}, "schema": {}, "lemmas": {}, "ext_methods": {}}


def reset():
    for v in REGISTRY.values():
        v.clear()


def contract(qualname):
    def deco(cls):
        d = {k: v for k, v in vars(cls).items() if not k.startswith("__")}
        d["doc"] = (cls.__doc__ or "").strip()
        REGISTRY["contracts"][qualname] = d
        return cls
    return deco


def _fn_node(fn):
    src = textwrap.dedent(inspect.getsource(fn))
    mod = ast.parse(src)
    node = mod.body[0]
    node.decorator_list = []
    return node


def pred(fn):
    """Macro predicate: expanded at every use with the heap of the state it is used in."""
    REGISTRY["preds"][fn.__name__] = _fn_node(fn)
    return fn


def rec(args, ret, opaque=False):
    """Recursive specification function (single return expression).  Heap reads become parameters.
    opaque: its definition is only unfolded inside the contracts / lemmas that list it under `reveals`."""
    def deco(fn):
        REGISTRY["recs"][fn.__name__] = (_fn_node(fn), args, ret, opaque)
        return fn
    return deco


def schema(d):
    for cname, attrs in d.items():
        REGISTRY["schema"].setdefault(cname, {}).update(attrs)


def lemma(name, **kw):
    REGISTRY["lemmas"][name] = kw


def external_method(name, returns):
    """ASSUMED contract (A-EXT) of a method of a third-party object held in an attribute of kind 'ext': it returns a
    value of the given kind or raises some Exception, and writes nothing the repository's objects can see."""
    REGISTRY["ext_methods"][name] = returns
