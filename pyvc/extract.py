"""Extraction of the real source: every run re-reads /repo's working tree.

Nothing is imported from the repository here; the text on disk is parsed with `ast`.
What extraction drops is stated in DROPPED and is reported in every evidence file.
"""
import ast
import hashlib
import os

REPO = os.environ.get("VERIF_REPO", "/repo")
PKG = "bibtexparser"

DROPPED = [
    "docstrings (expression statements that are string constants)",
    "type annotations (parameter, return and variable annotations; an annotated assignment keeps its value)",
    "logger.* / logging.* call statements: treated as no-ops, their arguments are NOT evaluated",
    "warnings.warn(...) call statements: no-op that cannot raise (assumes no -W error)",
    "__str__ / __repr__ bodies (never called by code under contract)",
    "f-string pieces inside exception messages: exception messages are not modelled",
]


class FuncInfo:
    def __init__(self, qualname, node, module, cls=None, kind="function"):
        self.qualname = qualname      # e.g. bibtexparser.writer._treat_entry / bibtexparser.library.Library.add
        self.node = node
        self.module = module
        self.cls = cls                # ClassInfo or None
        self.kind = kind              # function | method | staticmethod | classmethod | property | setter
        self.sha = hashlib.sha256(ast.unparse(node).encode()).hexdigest()[:16]

    @property
    def params(self):
        a = self.node.args
        return [x.arg for x in a.posonlyargs + a.args]


class ClassInfo:
    def __init__(self, name, module, node):
        self.name = name
        self.module = module
        self.node = node
        self.bases = []          # names
        self.methods = {}        # name -> FuncInfo
        self.properties = {}     # name -> FuncInfo (getter)
        self.setters = {}        # name -> FuncInfo
        self.dataclass_fields = []   # (name, default ast or None)
        self.is_dataclass = False

    def __repr__(self):
        return f"<class {self.name}>"


class Repo:
    def __init__(self, root=REPO):
        self.root = root
        self.modules = {}    # modname -> ast.Module
        self.funcs = {}      # qualname -> FuncInfo
        self.classes = {}    # simple class name -> ClassInfo
        self.consts = {}     # (modname, NAME) -> ast node of value
        self.imports = {}    # modname -> {local name: (module, name)}
        self._load()

    def _load(self):
        pkgdir = os.path.join(self.root, PKG)
        for dirpath, _dirs, files in os.walk(pkgdir):
            for fn in sorted(files):
                if not fn.endswith(".py"):
                    continue
                path = os.path.join(dirpath, fn)
                rel = os.path.relpath(path, self.root)[:-3].replace(os.sep, ".")
                if rel.endswith(".__init__"):
                    rel = rel[: -len(".__init__")]
                with open(path, encoding="utf-8") as f:
                    src = f.read()
                tree = ast.parse(src, filename=path)
                self.modules[rel] = tree
                self._scan_module(rel, tree)

    def _decorators(self, node):
        out = []
        for d in node.decorator_list:
            if isinstance(d, ast.Name):
                out.append(d.id)
            elif isinstance(d, ast.Attribute):
                out.append(ast.unparse(d))
            elif isinstance(d, ast.Call):
                out.append(ast.unparse(d.func))
        return out

    def _scan_module(self, mod, tree):
        imps = self.imports.setdefault(mod, {})
        for node in tree.body:
            if isinstance(node, ast.ImportFrom):
                m = node.module or ""
                if node.level:
                    base = mod.split(".")
                    # module path of a file: package is mod minus last component
                    base = base[: len(base) - node.level]
                    m = ".".join(base + ([m] if m else []))
                for a in node.names:
                    imps[a.asname or a.name] = (m, a.name)
            elif isinstance(node, ast.Import):
                for a in node.names:
                    imps[a.asname or a.name] = (a.name, None)
            elif isinstance(node, ast.FunctionDef):
                self.funcs[f"{mod}.{node.name}"] = FuncInfo(f"{mod}.{node.name}", node, mod)
            elif isinstance(node, ast.ClassDef):
                self._scan_class(mod, node)
            elif isinstance(node, ast.Assign) and len(node.targets) == 1 and isinstance(node.targets[0], ast.Name):
                self.consts[(mod, node.targets[0].id)] = node.value
            elif isinstance(node, ast.AnnAssign) and isinstance(node.target, ast.Name) and node.value is not None:
                self.consts[(mod, node.target.id)] = node.value

    def _scan_class(self, mod, node):
        ci = ClassInfo(node.name, mod, node)
        for b in node.bases:
            ci.bases.append(ast.unparse(b).split(".")[-1])
        decs = self._decorators(node)
        ci.is_dataclass = any(d.endswith("dataclass") for d in decs)
        for item in node.body:
            if isinstance(item, ast.FunctionDef):
                decs = self._decorators(item)
                q = f"{mod}.{node.name}.{item.name}"
                if "property" in decs:
                    fi = FuncInfo(q, item, mod, ci, "property")
                    ci.properties[item.name] = fi
                elif any(d.endswith(".setter") for d in decs):
                    q = q + ".setter"
                    fi = FuncInfo(q, item, mod, ci, "setter")
                    ci.setters[item.name] = fi
                elif "staticmethod" in decs:
                    fi = FuncInfo(q, item, mod, ci, "staticmethod")
                    ci.methods[item.name] = fi
                elif "classmethod" in decs:
                    fi = FuncInfo(q, item, mod, ci, "classmethod")
                    ci.methods[item.name] = fi
                else:
                    fi = FuncInfo(q, item, mod, ci, "method")
                    ci.methods[item.name] = fi
                self.funcs[q] = fi
            elif isinstance(item, ast.AnnAssign) and isinstance(item.target, ast.Name):
                ci.dataclass_fields.append((item.target.id, item.value))
        self.classes[node.name] = ci

    # ---- class table helpers -------------------------------------------------------------
    def mro(self, cname):
        """Linearisation good enough for the repo (single inheritance + abc/mixins)."""
        out, todo = [], [cname]
        while todo:
            c = todo.pop(0)
            if c in out or c not in self.classes:
                continue
            out.append(c)
            todo = self.classes[c].bases + todo if False else todo + self.classes[c].bases
        # depth-first, left-to-right is what the repo needs (no diamonds except abc.ABC)
        res = []

        def dfs(c):
            if c in res or c not in self.classes:
                return
            res.append(c)
            for b in self.classes[c].bases:
                dfs(b)
        dfs(cname)
        return res

    def is_subclass(self, c, base):
        return base in self.mro(c) or c == base

    def subclasses(self, base):
        return [c for c in self.classes if self.is_subclass(c, base)]

    def lookup_method(self, cname, name):
        for c in self.mro(cname):
            ci = self.classes[c]
            if name in ci.methods:
                return ci.methods[name]
        return None

    def lookup_property(self, cname, name):
        for c in self.mro(cname):
            ci = self.classes[c]
            if name in ci.properties:
                return ci.properties[name]
        return None

    def lookup_setter(self, cname, name):
        for c in self.mro(cname):
            ci = self.classes[c]
            if name in ci.setters:
                return ci.setters[name]
        return None

    def resolve_name(self, mod, name):
        """What does global `name` in module `mod` denote? -> ('class', ClassInfo) | ('func', FuncInfo) |
        ('const', ast) | ('module', str) | None"""
        if (mod, name) in self.consts:
            return ("const", self.consts[(mod, name)], mod)
        if f"{mod}.{name}" in self.funcs and self.funcs[f"{mod}.{name}"].cls is None:
            return ("func", self.funcs[f"{mod}.{name}"], mod)
        if name in self.classes and self.classes[name].module == mod:
            return ("class", self.classes[name], mod)
        imp = self.imports.get(mod, {}).get(name)
        if imp:
            m, n = imp
            if n is None:
                return ("module", m, mod)
            if m in self.modules or m.startswith(PKG):
                # package __init__ re-exports
                r = self.resolve_name(m, n) if m in self.modules else None
                if r:
                    return r
                if n in self.classes:
                    return ("class", self.classes[n], self.classes[n].module)
                if f"{m}.{n}" in self.modules:
                    return ("module", f"{m}.{n}", mod)
            return ("external", f"{m}.{n}", mod)
        return None
