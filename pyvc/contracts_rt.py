"""Contracts: binding to functions, modular application at call sites, verification of a function
against its own contract, specification-expression evaluation, recursive spec functions."""
import ast
import z3

from .vals import *
from .vals import PyVal
from .state import State, Heap, fresh, FAM_SORT

IntS, BoolS, StrS = z3.IntSort(), z3.BoolSort(), z3.StringSort()


class Contract:
    """Sidecar contract of one repository function (see contracts/*.py)."""

    def __init__(self, qualname, d):
        self.qualname = qualname
        self.base = qualname.split("#")[0]         # 'pkg.mod.f#variant' -> several contracts of one function
        self.sorts = d.get("sorts", {})                 # param -> kind ; 'result' -> kind
        self.requires = d.get("requires", {})           # name -> expr text
        self.assumes = d.get("assumes", {})             # name -> expr text: assumed contracts of OTHER code (listed in evidence), not checked at call sites
        self.ensures = d.get("ensures", {})             # name -> expr text ; name prefix 'Cxx.' tags a property
        self.raises = d.get("raises", {})               # class -> {"when": expr|None, "ensures": {name: expr}}
        self.modifies = d.get("modifies", [])           # heap footprints (see heap_keys_of / location syntax)
        self.loops = d.get("loops", {})                 # ordinal -> {"invariant": {...}, "decreases": expr, "cursor": name}
        self.local_kinds = d.get("locals", {})          # local name -> kind (for empty literals)
        self.inline = d.get("inline", False)
        self.trusted = d.get("trusted", False)          # assumed, body not verified (listed in evidence)
        self.props = tuple(d.get("props", ()))
        self.decreases = d.get("decreases")             # for recursion
        self.depth_bound = d.get("depth_bound")
        self.pure = d.get("pure", False)
        self.fresh_result = d.get("fresh_result", False)
        self.doc = d.get("doc", "")
        self.allocates = d.get("allocates", True)
        self.ghost_pre = d.get("ghost_pre", {})        # name -> expr, evaluated in the pre-state, usable in ensures
        self.param_assume = d.get("assume_params", True)
        self.ghost_code = list(d.get("ghost_code", []))     # [(statement prefix, [(ghost name, index text | None, value text)])]
        self.closures = dict(d.get("closures", {}))          # contracts of nested functions: name -> {sorts, requires, ensures}
        self.comp_loops = dict(d.get("comp_loops", {}))       # loop contracts for comprehensions with effects, by ordinal
        self.path_ensures = dict(d.get("path_ensures", {}))   # name -> (trace marker, clause): obligations of marked paths only
        self.reveals = list(d.get("reveals", []))           # opaque spec functions whose definition this proof may open
        self.uses_lemmas = list(d.get("uses_lemmas", []))   # proved lemmas available as quantified facts inside this function
        self.uses_marks = d.get("uses_marks", False)     # the function works on the splitter's ghost mark model (A-RE axioms apply)
        self.for_callers = d.get("for_callers")          # variant used only when called from these functions (interface view)
        self.virtual = d.get("virtual", False)          # abstract contract used for every override (behavioural subtyping assumed)

    def clause_props(self, cname):
        """Property ids a clause is tagged with: 'C06.pad' -> ('C06',); 'C02+C03.x' -> both."""
        head = cname.split(".")[0]
        ps = tuple(p for p in head.split("+") if len(p) >= 3 and p[0] == "C" and p[1:].isdigit())
        return ps or self.props


REC_DEFS = {}


def unfold_rec_apps(terms, depth=2, reveals=()):
    """Ground instances of the definitional equations of recursive spec functions occurring in `terms`
    (closed applications only), unfolded `depth` times.  Opaque functions only when revealed."""
    facts, done = [], set()
    cur = list(terms)
    for _ in range(depth):
        new = []
        for top in cur:
            for t in _rec_apps(top):
                nm = t.decl().name()
                if t.get_id() not in done and (not getattr(REC_DEFS[nm], "opaque", False) or REC_DEFS[nm].name in reveals):
                    done.add(t.get_id())
                    rs = REC_DEFS[nm]
                    inst = z3.substitute(rs.def_body, *[(p, a) for p, a in zip(rs.def_params, t.children())])
                    new.append(t == inst)
        if not new:
            break
        facts += new
        cur = new
    return facts


_REC_APPS_CACHE = {}


def _rec_apps(top):
    """closed applications of recursive spec functions inside `top` (cached: hypotheses are shared by many obligations)"""
    key = (top.get_id(), len(REC_DEFS))
    hit = _REC_APPS_CACHE.get(key)
    if hit is not None and hit[0].eq(top):
        return hit[1]
    out, seen, todo = [], set(), [top]
    while todo:
        t = todo.pop()
        if t.get_id() in seen:
            continue
        seen.add(t.get_id())
        if z3.is_quantifier(t):
            todo.append(t.body())
            continue
        if z3.is_app(t):
            if t.decl().name() in REC_DEFS and not _has_bound_var(t):
                out.append(t)
            todo.extend(t.children())
    if len(_REC_APPS_CACHE) > 200000:
        _REC_APPS_CACHE.clear()
    _REC_APPS_CACHE[key] = (top, out)
    return out


def _has_bound_var(t):
    todo, seen = [t], set()
    while todo:
        x = todo.pop()
        if x.get_id() in seen:
            continue
        seen.add(x.get_id())
        if z3.is_var(x):
            return True
        if z3.is_quantifier(x):
            continue
        todo.extend(x.children())
    return False


class RecSpec:
    """Recursive specification function.  Heap components read by the body become extra parameters."""

    def __init__(self, name, fnode, arg_kinds, ret_kind, module_globals=None):
        self.name = name
        self.fnode = fnode
        self.arg_kinds = arg_kinds
        self.ret_kind = ret_kind
        self.heap_keys = None
        self.func = None
        self.defining = False

    def define(self, eng):
        from .symex import Frame, EngineError
        if self.func is not None:
            return
        params = [a.arg for a in self.fnode.args.args]
        # pass 1: discover heap keys with a placeholder for recursive calls
        keys = []
        for attempt in range(3):
            self.heap_keys = list(keys)
            sig = [kind_sort(self.arg_kinds[p]) for p in params] + [Heap().get(k).sort() for k in self.heap_keys]
            f = z3.Function(f"spec_{self.name}" + ("" if attempt == 0 else f"_{attempt}"), *sig, kind_sort(self.ret_kind))
            self.func = f
            st = State()
            st.spec = True
            pvals = {}
            pterms = []
            for p in params:
                c = z3.Const(f"{self.name}_{p}", kind_sort(self.arg_kinds[p]))
                pterms.append(c)
                pvals[p] = from_sort(self.arg_kinds[p], c)
            hvars = {}
            for kx in self.heap_keys:
                hv = z3.Const(f"{self.name}_h_" + "_".join(str(x) for x in kx).replace(":", "."), Heap().get(kx).sort())
                hvars[kx] = hv
                st.heap.comps[kx] = hv
                st.heap.initial[kx] = hv
            st.frames = [dict(pvals)]
            body = [s for s in self.fnode.body if not (isinstance(s, ast.Expr) and isinstance(s.value, ast.Constant))]
            if len(body) != 1 or not isinstance(body[0], ast.Return):
                raise EngineError(f"spec function {self.name} must be a single return expression")
            holder = {}
            self.defining = True
            self._cur_heap = st.heap
            try:
                eng.ev(body[0].value, st, Frame(None, "<spec>"), lambda s, v: holder.update(v=v) or [])
            finally:
                self.defining = False
            touched = [kx for kx in st.heap.comps if kx not in self.heap_keys]
            if not touched:
                val = holder["v"]
                # definitional equation f(params) == body: instantiated at ground applications by the
                # query builder (bounded unfolding, like fuel), never asserted as a quantified axiom
                self.def_params = pterms + [hvars[kx] for kx in self.heap_keys]
                self.def_body = eng.coerce(st, val, self.ret_kind)
                REC_DEFS[f.name()] = self
                return
            keys = self.heap_keys + touched
        raise EngineError(f"spec function {self.name}: heap footprint did not stabilise")

    def apply(self, eng, args, st, fr, k):
        if self.func is None and not self.defining:
            self.define(eng)
        heap = st.heap
        terms = [eng.coerce(st, a, self.arg_kinds[p]) for a, p in zip(args, [x.arg for x in self.fnode.args.args])]
        hterms = [heap.get(kx) for kx in (self.heap_keys or [])]
        return k(st, from_sort(self.ret_kind, self.func(*(terms + hterms))))


class ContractMixin:
    # ---------------------------------------------------------------- misc helpers used by the models
    _join = None

    def all_heap_keys(self):
        """every heap component the schema can give rise to (attributes of all classes, list / dict / set families)"""
        if getattr(self, "_all_keys", None) is None:
            keys = []
            for cname, attrs in self.schema.items():
                for attr, kind in attrs.items():
                    keys.append(("attr", cname, attr, kind))
            fams = ("int", "str", "any", "ref")
            for f in fams:
                keys += [("len", f), ("elems", f)]
            keys.append(("joined",))
            for kf in ("str", "int"):
                keys += [("dhas", kf), ("dn", kf), ("dkeys", kf), ("dpos", kf), ("shas", kf), ("sn", kf)]
                for vf in fams:
                    keys.append(("dval", kf, vf))
            self._all_keys = keys
        return self._all_keys

    def join_term(self, sep_t, elems_t, n_t):
        if ContractMixin._join is None:
            f = z3.RecFunction("py_join", StrS, z3.ArraySort(IntS, StrS), IntS, StrS)
            s, a, n = z3.String("js"), z3.Const("ja", z3.ArraySort(IntS, StrS)), z3.Int("jn")
            z3.RecAddDefinition(f, [s, a, n], z3.If(n <= 0, z3.StringVal(""),
                                z3.If(n == 1, z3.Select(a, 0), z3.Concat(f(s, a, n - 1), s, z3.Select(a, n - 1)))))
            ContractMixin._join = f
        return ContractMixin._join(sep_t, elems_t, n_t)

    def mark_count(self):
        return z3.Int("MARKS_N")

    def heap_keys_of(self, text):
        """'Class.attr' -> [heap key];  'list:str' -> len+elems of that family; 'dict:str:ref' ..."""
        from .symex import EngineError
        if text.startswith("list:"):
            fam = elem_heapkey(text[5:])
            keys = [("len", fam), ("elems", fam)]
            if fam == "str":
                keys.append(("joined",))
            return keys
        if text.startswith("dict:"):
            _, kk, vk = text.split(":", 2)
            kf, vf = elem_heapkey(kk), elem_heapkey(vk)
            return [("dhas", kf), ("dval", kf, vf), ("dn", kf), ("dkeys", kf), ("dpos", kf)]
        if text.startswith("set:"):
            fam = elem_heapkey(text[4:])
            return [("shas", fam), ("sn", fam)]
        if text.startswith("ghost:"):
            _, name, kind = text.split(":", 2)
            return [("g", name, kind)]
        cname, attr = text.split(".")
        own = self.attr_owner(cname, attr)
        if own is None:
            raise EngineError(f"modifies: unknown attribute {text}")
        return [("attr", own[0], attr, own[1])]

    # ---------------------------------------------------------------- spec evaluation
    def parse_spec(self, text):
        cache = self.__dict__.setdefault("_spec_cache", {})
        if text not in cache:
            cache[text] = ast.parse(text.strip(), mode="eval").body
        return cache[text]

    def spec_value(self, text, st, fr, extra=None):
        """Evaluate a specification expression in state `st` (pure, total).  Returns a Value."""
        from .symex import EngineError, Frame
        node = self.parse_spec(text) if isinstance(text, str) else text
        s = st.copy()
        s.spec = True
        if extra:
            s.specnames.update(extra)
        holder = {}
        fr2 = Frame(fr.finfo, fr.module, fr.cls) if fr is not None else Frame(None, "<spec>")
        outs = self.ev(node, s, fr2, lambda s2, v: holder.update(v=v) or [])
        if "v" not in holder:
            raise EngineError(f"specification expression has no value: {text}")
        if not s.alloc.eq(st.alloc) or any(not t.eq(st.heap.comps[kx]) for kx, t in s.heap.comps.items() if kx in st.heap.comps):
            raise EngineError(f"specification expression allocates or writes the heap: {text if isinstance(text, str) else ast.unparse(text)}")
        # lazily created initial heap symbols must be visible to the caller's heap
        for kx, t in s.heap.comps.items():
            if kx not in st.heap.comps:
                st.heap.comps[kx] = t
        return holder["v"]

    def spec_bool(self, text, st, fr, mode="assert", extra=None):
        v = self.spec_value(text, st, fr, extra)
        return self.truth(st, v)

    def oblige_spec(self, st, fr, kind, cname, text, props=(), extra=None, where=None):
        from .symex import EngineError
        if self.dry:
            return
        pf = getattr(self, "prop_filter", None)
        if pf and kind in ("ensures", "raises"):
            # a postcondition tagged with other properties only (e.g. C08.rollback inside a function shared with C09)
            # is not an obligation of this property's check; untagged clauses and loop invariants always are
            tail = cname.split(".", 1)[1] if kind == "raises" and "." in cname else cname
            head = tail.split(".")[0]
            tags = [t for t in head.split("+") if len(t) >= 3 and t[0] == "C" and t[1:].isdigit()]
            if tags and not (set(tags) & set(getattr(self, "prop_tags", None) or [pf])):
                return
        try:
            goal = self.spec_bool(text, st, fr, "assert", extra)
        except EngineError as e:
            self.engine_problem(f"{where or self.cur_fn}/{kind}#{cname}", str(e))
            return
        self.oblige(st, kind, cname, goal, note=text if isinstance(text, str) else ast.unparse(text), props=props, where=where)

    def engine_problem(self, name, msg):
        self.problems.append((name, msg))

    # ---------------------------------------------------------------- parameters
    def make_param(self, st, name, kind):
        from .symex import EngineError
        if kind.startswith("tuple:"):
            return STuple([self.make_param(st, f"{name}_{i}", kx) for i, kx in enumerate(kind[6:].split(","))])
        if kind == "none":
            return SNone()
        if kind.startswith("class:"):
            return SClass(kind[6:])
        c = z3.Const("p_" + name, kind_sort(kind))
        v = from_sort(kind, c)
        if isinstance(v, SRef):
            st.assume(z3.And(c > 0, c < st.alloc0))
            if kind.startswith("ref:"):
                st.assume(self.isinstance_term(st, c, kind[4:]))
            elif kind.startswith("list:"):
                st.assume(self.list_len(st, v) >= 0)
            elif kind.startswith("dict:"):
                from . import builtins_model as bm
                st.assume(bm.dict_parts(self, st, v)[4] >= 0)
        elif isinstance(v, SOptRef):
            st.assume(z3.And(c >= 0, c < st.alloc0))
            if v.inner.startswith("ref:"):
                st.assume(z3.Or(c == 0, self.isinstance_term(st, c, v.inner[4:])))
        elif isinstance(v, SDyn):
            st.assume(z3.Implies(PyVal.is_RefV(c), z3.And(PyVal.rval(c) > 0, PyVal.rval(c) < st.alloc0)))
        return v

    # ---------------------------------------------------------------- lemmas (statements about spec functions)
    def verify_lemma(self, name, d):
        """A statement about specification functions.  With `induction = (var, lower)` it is proved by induction on
        the integer `var` downwards to `lower`: the induction hypothesis is the lemma at var - 1."""
        from .symex import Frame
        self.cur_fn = "lemma:" + name
        from .state import reset_counter
        reset_counter()
        self.cur_reveals = tuple(d.get("reveals", ()))
        fr = Frame(None, "<spec>")
        self.cur_frame = fr
        st = State()
        for v, kind in d.get("vars", {}).items():
            st.env[v] = self.make_param(st, v, kind)
        self._entry_env, self._entry_heap = dict(st.env), st.heap.snapshot()
        st.old = (st.heap.snapshot(), dict(st.env), st.alloc)
        for ln in d.get("uses_lemmas", []):
            st.assume(self.lemma_axiom(ln, self.lemmas[ln]))
        for text in d.get("requires", []):
            st.assume(self.spec_bool(text, st, fr, "assume"))
        if d.get("induction"):
            var, lower = d["induction"]
            s2 = st.copy()
            s2.frames = [dict(st.env)]
            s2.env[var] = SInt(st.env[var].t - 1)
            req = [self.spec_bool(t, s2, fr, "assume") for t in d.get("requires", [])]
            lo = self.spec_value(lower, st, fr).t
            ih = z3.Implies(z3.And(st.env[var].t - 1 >= lo, *req), self.spec_bool(d["ensures"], s2, fr, "assume"))
            st.assume(ih)
        self.oblige_spec(st, fr, "lemma", name, d["ensures"], props=tuple(d.get("props", ())))

    def lemma_axiom(self, name, d):
        """the proved lemma as a quantified fact (for the functions that cite it)"""
        from .symex import Frame
        fr = Frame(None, "<spec>")
        st = State()
        st.spec = True
        consts = []
        for v, kind in d.get("vars", {}).items():
            c = z3.Const(f"lem_{name}_{v}".replace(".", "_").replace("-", "_"), kind_sort(kind))
            consts.append(c)
            st.env[v] = from_sort(kind, c)
        st.old = (st.heap.snapshot(), dict(st.env), st.alloc)
        req = [self.spec_bool(t, st, fr, "assume") for t in d.get("requires", [])]
        ens = self.spec_bool(d["ensures"], st, fr, "assume")
        body = z3.Implies(z3.And(req) if req else z3.BoolVal(True), ens)
        return z3.ForAll(consts, body) if consts else body

    # ---------------------------------------------------------------- verification of one function
    def verify_function(self, fi, c):
        """Generate all obligations of `fi` against its contract `c`."""
        from .symex import Frame, EngineError, Raised
        self.cur_fn = c.qualname
        from .state import reset_counter
        reset_counter()      # fresh names are per function: query texts do not depend on what was verified before
        self.cur_reveals = tuple(c.reveals)
        fr = Frame(fi, fi.module, fi.cls)
        fr.contract = c
        self.cur_frame = fr
        st = State()
        params = fi.params
        for p in params:
            if p not in c.sorts:
                if p == "self" and fi.cls is not None:
                    kind = "ref:" + fi.cls.name
                elif p == "cls":
                    kind = "class:" + fi.cls.name
                else:
                    raise EngineError(f"contract of {fi.qualname} lacks a sort for parameter {p}")
            else:
                kind = c.sorts[p]
            st.env[p] = self.make_param(st, p, kind)
        a = fi.node.args
        if a.vararg:
            st.env[a.vararg.arg] = STuple([])
        if a.kwarg:
            st.env[a.kwarg.arg] = SConstSeq([], "dict")
        # ghost pre-state values
        for ln in c.uses_lemmas:
            st.assume(self.lemma_axiom(ln, self.lemmas[ln]))
        for rname, text in list(c.requires.items()) + list(c.assumes.items()):
            st.assume(self.spec_bool(text, st, fr, "assume"))
        for rname in c.assumes:
            self.trusted_used.add(f"assumed in {c.qualname}: {rname}: {c.assumes[rname][:160]}")
        st.old = (st.heap.snapshot(), dict(st.env), st.alloc)
        self._entry_env, self._entry_heap = dict(st.env), st.heap.snapshot()
        entry_pc_len = len(st.pc)
        # cover: the precondition is satisfiable
        self.obligations.append(self.mk_cover(f"{c.qualname}/cover#requires", list(st.pc), c.props))
        n_ob_before = len(self.obligations)
        outs = self.ex(fi.node.body, st, fr, lambda s: [(s, "return", SNone())])
        self.stats["paths"] += len(outs)
        self._closedness_pending = (n_ob_before, st.heap, st.alloc0)
        n_norm = 0
        raised_classes = {}
        for (s, kind, payload) in outs:
            if kind == "return":
                n_norm += 1
                self.check_normal_exit(fi, c, fr, s, payload)
            elif kind == "raise":
                raised_classes.setdefault(payload.cls, 0)
                raised_classes[payload.cls] += 1
                self.check_exceptional_exit(fi, c, fr, s, payload)
            elif kind == "abandon":
                self.engine_problem(f"{fi.qualname}/path", str(payload))
            else:
                raise EngineError(f"{kind} escaped {fi.qualname}")
        self.add_closedness(*self._closedness_pending)
        return {"paths": len(outs), "normal": n_norm, "raised": raised_classes}

    def add_closedness(self, first, heap, alloc0):
        """Entry-heap closedness: every reference stored in an object that existed at entry points to an
        object that existed at entry (true of every real heap; needed under quantifiers, where the
        per-read well-formedness facts are not available)."""
        axioms = []
        r, j = z3.Int("r!wf"), z3.Int("j!wf")
        live = z3.And(r > 0, r < alloc0)
        for key, H in list(heap.initial.items()):
            k0 = key[0]
            if k0 == "attr":
                kind = key[3]
                if kind == "any":
                    axioms.append(z3.ForAll([r], z3.Implies(z3.And(live, PyVal.is_RefV(z3.Select(H, r))),
                                                         z3.And(PyVal.rval(z3.Select(H, r)) > 0, PyVal.rval(z3.Select(H, r)) < alloc0))))
                elif kind.startswith(("ref:", "list:", "dict:", "set:")):
                    axioms.append(z3.ForAll([r], z3.Implies(live, z3.And(z3.Select(H, r) > 0, z3.Select(H, r) < alloc0))))
                elif kind.startswith("optref:"):
                    axioms.append(z3.ForAll([r], z3.Implies(live, z3.And(z3.Select(H, r) >= 0, z3.Select(H, r) < alloc0))))
            elif k0 == "len":
                # the length of a list that existed at entry is not negative
                axioms.append(z3.ForAll([r], z3.Implies(live, z3.Select(H, r) >= 0)))
            elif k0 == "elems" and key[1] in ("ref", "any"):
                ln = heap.initial.get(("len", key[1]))
                if ln is None:
                    continue
                e = z3.Select(z3.Select(H, r), j)
                rng = z3.And(live, 0 <= j, j < z3.Select(ln, r))
                if key[1] == "ref":
                    axioms.append(z3.ForAll([r, j], z3.Implies(rng, z3.And(e > 0, e < alloc0))))
                else:
                    axioms.append(z3.ForAll([r, j], z3.Implies(z3.And(rng, PyVal.is_RefV(e)), z3.And(PyVal.rval(e) > 0, PyVal.rval(e) < alloc0))))
            elif k0 == "dval" and key[2] in ("ref", "any"):
                has = heap.initial.get(("dhas", key[1]))
                if has is None:
                    continue
                kx = z3.Const("k!wf", FAM_SORT[key[1]])
                e = z3.Select(z3.Select(H, r), kx)
                rng = z3.And(live, z3.Select(z3.Select(has, r), kx))
                if key[2] == "ref":
                    axioms.append(z3.ForAll([r, kx], z3.Implies(rng, z3.And(e > 0, e < alloc0))))
                else:
                    axioms.append(z3.ForAll([r, kx], z3.Implies(z3.And(rng, PyVal.is_RefV(e)), z3.And(PyVal.rval(e) > 0, PyVal.rval(e) < alloc0))))
        for ob in self.obligations[first:]:
            ob.hyps = list(ob.hyps) + axioms

    def mk_cover(self, name, hyps, props):
        from .symex import Obligation
        return Obligation(name, "cover", hyps + self.global_axioms, z3.BoolVal(False), "precondition satisfiable", props, expect_sat=True)

    def result_extra(self, c, payload):
        extra = {"result": payload}
        return extra

    def check_normal_exit(self, fi, c, fr, s, payload):
        from .symex import EngineError
        # in postconditions parameter names denote the values passed in (the heap is the exit heap)
        s.frames = [dict(self._entry_env)]
        extra = {"result": payload}
        if "result" in c.sorts and c.sorts["result"].startswith("tuple:") and isinstance(payload, STuple):
            wants = c.sorts["result"][6:].split(",")
            if len(wants) == len(payload.items):
                try:
                    payload = STuple([x if x.kind == w else self.view_as(s, x, w) for x, w in zip(payload.items, wants)])
                    extra["result"] = payload
                except EngineError:
                    pass
        if "result" in c.sorts:
            want = c.sorts["result"]
            upcast = (want.startswith("ref:") and payload.kind.startswith("ref:") and self.is_subclass(payload.kind[4:], want[4:]))
            if (want.startswith("list:ref:") and payload.kind.startswith("list:ref:") and self.is_subclass(payload.kind[9:], want[9:])):
                upcast = True     # a fresh list of a subclass is a list of the base class for every reader
            if upcast:
                extra["result"] = SRef(payload.t, want)
                payload = extra["result"]
            if isinstance(payload, SOptRef) and want == payload.inner:
                # an Optional local returned where the contract promises an object: it must not be None here
                self.oblige(s, "type", "result-not-none", payload.t != 0, f"returns {payload.kind}, contract says {want}", props=c.props)
                s.assume(payload.t != 0)
                extra["result"] = SRef(payload.t, want)
                payload = extra["result"]
            if want != "any" and payload.kind != want and not upcast and not (want.startswith("optref:") and (isinstance(payload, SNone) or payload.kind == want[7:])):
                # a result of another static kind than the contract declares
                if not (want == "any"):
                    self.oblige(s, "type", "result-kind", z3.BoolVal(False), f"returns {payload.kind}, contract says {want}", props=c.props)
                    return
            if want == "any" and not isinstance(payload, SDyn) and not isinstance(payload, STuple):
                extra["result"] = SDyn(to_dyn(payload))
        # a declared exception with an exact `when` must have been raised
        for ecls, spec in c.raises.items():
            if spec.get("when") is not None and spec.get("exact", True):
                s_old = s
                try:
                    w = self.spec_bool(f"old({spec['when']})", s, fr, "assert", extra)
                except EngineError as e:
                    self.engine_problem(f"{fi.qualname}/raises#{ecls}.when", str(e))
                    continue
                self.oblige(s, "raises", f"{ecls}.must-raise", z3.Not(w), f"returns normally although `{spec['when']}` held at entry",
                            props=c.clause_props(spec.get("tag", "")))
        for cname, text in c.ensures.items():
            self.oblige_spec(s, fr, "ensures", cname, text, props=c.clause_props(cname), extra=extra)
        # postconditions of the paths on which a marked event happened (e.g. a third-party call raised)
        for cname, (marker, text) in c.path_ensures.items():
            if any(marker in t for t in s.trace):
                self.oblige_spec(s, fr, "ensures", cname, text, props=c.clause_props(cname), extra=extra)
        self.check_frame(fi, c, fr, s)

    def check_exceptional_exit(self, fi, c, fr, s, exc):
        from .symex import EngineError
        s.frames = [dict(self._entry_env)]
        allowed = [e for e in c.raises if self.is_subclass(exc.cls, e)]
        if exc.cls in allowed:
            allowed = [exc.cls]        # the clause written for exactly this class speaks for it (InvalidNameError is a ValueError)
        if not allowed:
            self.oblige(s, "raises", f"no-{exc.cls}", z3.BoolVal(False), f"{exc.cls} escapes; the contract allows {sorted(c.raises) or 'no exception'}",
                        props=c.props)
            return
        spec = c.raises[allowed[0]]
        extra = {"exc": exc.ref}
        if spec.get("when") is not None:
            self.oblige_spec(s, fr, "raises", f"{allowed[0]}.when", f"old({spec['when']})", props=c.clause_props(spec.get("tag", "")), extra=extra)
        for cname, text in spec.get("ensures", {}).items():
            self.oblige_spec(s, fr, "raises", f"{allowed[0]}.{cname}", text, props=c.clause_props(cname), extra=extra)
        if spec.get("frame", True):
            self.check_frame(fi, c, fr, s)

    # ---------------------------------------------------------------- frames
    def parse_footprint(self, c, st, fr):
        """modifies entries -> (whole-component keys, {key: [ref terms]} single locations)"""
        whole, locs = set(), {}
        for m in c.modifies:
            if m == "*":
                whole.add("*")
                continue
            if m.startswith("*above:"):
                continue        # handled by apply_contract (bounded havoc)
            if m.startswith("@"):       # location: '@self._blocks' (attribute of an object) or '@list(self._blocks)'
                expr = m[1:]
                node = self.parse_spec(expr)
                if isinstance(node, ast.Call) and isinstance(node.func, ast.Name) and node.func.id in ("content",):
                    v = self.spec_value(f"old({ast.unparse(node.args[0])})", st, fr) if st.old else self.spec_value(ast.unparse(node.args[0]), st, fr)
                    for kx in self.heap_keys_of(v.kind if not isinstance(v, SOptRef) else v.inner):
                        locs.setdefault(kx, []).append(v.t)
                    continue
                assert isinstance(node, ast.Attribute), m
                o = self.spec_value(f"old({ast.unparse(node.value)})" if st.old else ast.unparse(node.value), st, fr)
                cname = o.kind[4:] if isinstance(o, SRef) else o.inner[4:]
                own = self.attr_owner(cname, node.attr)
                locs.setdefault(("attr", own[0], node.attr, own[1]), []).append(o.t)
            else:
                for kx in self.heap_keys_of(m):
                    whole.add(kx)
        return whole, locs

    def check_frame(self, fi, c, fr, s):
        if self.dry:
            return
        oheap, oenv, oalloc = s.old
        changed = s.heap.changed_keys(oheap)
        whole, locs = self.parse_footprint(c, s, fr)
        if "*" in whole:
            return
        for kx in sorted(changed, key=str):
            if kx in whole or kx[0] in ("cls",) or kx[0] == "g" and kx[1].startswith("cursor"):
                continue
            if kx[0] == "g":
                if kx in whole:
                    continue
                self.oblige(s, "frame", "_".join(str(x) for x in kx), s.heap.get(kx) == oheap.get(kx), "ghost scalar outside modifies", props=c.props)
                continue
            r = z3.Int("r!frame")
            allowed = locs.get(kx, [])
            cond = z3.And(r > 0, r < oalloc, *[r != a for a in allowed])
            goal = z3.ForAll([r], z3.Implies(cond, z3.Select(s.heap.get(kx), r) == z3.Select(oheap.get(kx), r)))
            self.oblige(s, "frame", "_".join(str(x) for x in kx).replace(":", "."), goal,
                        "objects that existed at entry and are outside `modifies` keep this component", props=c.props)

    # ---------------------------------------------------------------- modular call
    def apply_contract(self, fi, c, args, kwargs, st, fr, k):
        from .symex import Frame, EngineError, Raised
        fr_c = Frame(fi, fi.module, fi.cls)
        if c.trusted:
            self.trusted_used.add(f"assumed contract (interface, not verified here): {c.qualname}: {c.doc.splitlines()[0] if c.doc else ''}")

        def bound(s, env):
            # typed views of the arguments as the callee's contract declares them
            for p, v in list(env.items()):
                want = c.sorts.get(p)
                if want and want != v.kind:
                    env[p] = self.view_as(s, v, want)
            caller_frames = s.frames
            s.frames = s.frames + [env]
            pre_heap = s.heap.snapshot()
            pre_alloc = s.alloc
            saved_old = s.old
            # 1. preconditions
            for rname, text in c.requires.items():
                self.oblige_spec(s, fr_c, "call-pre", f"{fi.qualname.split('.')[-1]}.{rname}", text, props=c.clause_props(rname))
            if fi.qualname == self.cur_fn.split("#")[0] and not self.dry:
                self.recursion_obligations(fi, c, fr_c, s)
            # 2. havoc the footprint
            s.old = (pre_heap, dict(env), pre_alloc)
            whole, locs = self.parse_footprint(c, s, fr_c)
            above = [m for m in c.modifies if isinstance(m, str) and m.startswith("*above:")]
            if above:
                # "*above:NAME": anything in objects allocated at or after the ghost mark NAME (an allocation pointer recorded
                # by the caller's ghost code), nothing below it
                base = s.heap.get(("g", above[0].split(":", 1)[1], "int"))
                for f_ in s.heap.havoc_above(base, self.all_heap_keys()):
                    s.assume(f_)
            if "*" in whole:
                keep = {kx for kx in s.heap.comps if kx[0] == "g"}     # ghost state changes only when listed explicitly
                s.heap.havoc_all(keep)
                whole = {kx for kx in whole if kx != "*"}
            for kx in whole:
                s.heap.havoc(kx)
            for kx, refs in locs.items():
                arr = s.heap.get(kx)
                for r in refs:
                    arr = z3.Store(arr, r, fresh("hv", arr.sort().range()))
                s.heap.set(kx, arr)
            if c.allocates:
                s.bump_alloc_unknown()
            outs = []
            # 3. exceptional exits
            for ecls, spec in c.raises.items():
                s_e = s.copy()
                if spec.get("when") is not None:
                    s_e.assume(self.spec_bool(f"old({spec['when']})", s_e, fr_c, "assume"))
                if not self.feasible(s_e, z3.BoolVal(True)):
                    continue
                ex = self.new_object(s_e, ecls)
                for cname, text in spec.get("ensures", {}).items():
                    s_e.assume(self.spec_bool(text, s_e, fr_c, "assume", {"exc": ex}))
                s_e.frames = caller_frames_copy(s_e, len(caller_frames))
                s_e.old = saved_old
                s_e.trace.append(f"{fi.qualname.split('.')[-1]} raises {ecls}")
                outs.append((s_e, "raise", Raised(ex, ecls)))
            # 4. normal exit
            for ecls, spec in c.raises.items():
                if spec.get("when") is not None and spec.get("exact", True):
                    s.assume(z3.Not(self.spec_bool(f"old({spec['when']})", s, fr_c, "assume")))
            rk = c.sorts.get("result", "none")
            res = self.make_result(s, rk, fi.qualname.split(".")[-1])
            extra = {"result": res}
            for cname, text in c.ensures.items():
                s.assume(self.spec_bool(text, s, fr_c, "assume", extra))
            s.frames = caller_frames_copy(s, len(caller_frames))
            s.old = saved_old
            if not self.feasible(s, z3.BoolVal(True)) and not self.dry:
                return outs
            return outs + k(s, res)

        def caller_frames_copy(s, n):
            return s.frames[:n]
        return self.bind_params(fi.node, args, kwargs, st, fr_c, bound)

    def view_as(self, st, v, want):
        """Re-type an argument to the kind the callee's contract declares (checked where it can fail)."""
        from .symex import EngineError
        if want == "any":
            return SDyn(to_dyn(v))
        if isinstance(v, SDyn):
            t = self.coerce(st, v, want)
            return from_sort(want, t)
        if isinstance(v, SRef) and want.startswith("ref:") and v.kind.startswith("ref:"):
            if not self.is_subclass(v.kind[4:], want[4:]):
                self.oblige(st, "type", "arg-class", self.isinstance_term(st, v.t, want[4:]), f"argument must be a {want[4:]}")
            return SRef(v.t, want)
        if isinstance(v, SRef) and want.startswith("optref:"):
            return SOptRef(v.t, want[7:])
        if isinstance(v, SOptRef) and want.startswith(("ref:", "list:", "dict:")):
            return from_sort(want, self.coerce(st, v, want))
        if isinstance(v, SNone) and want.startswith("optref:"):
            return SOptRef(z3.IntVal(0), want[7:])
        if isinstance(v, SNone) and want == "match":
            return SMatch(z3.IntVal(-1))
        if isinstance(v, SBool) and want == "int":
            from . import builtins_model as bm
            return SInt(bm.as_int(v))
        if isinstance(v, SRef) and want.startswith("list:") and v.kind.startswith("list:") and elem_heapkey(v.kind[5:]) == elem_heapkey(want[5:]):
            return SRef(v.t, want)
        raise EngineError(f"argument of kind {v.kind} where the contract declares {want}")

    def make_result(self, st, kind, name):
        if kind == "none":
            return SNone()
        if kind.startswith("tuple:"):
            return STuple([self.make_result(st, kx, f"{name}_{i}") for i, kx in enumerate(kind[6:].split(","))])
        c = fresh("ret_" + name, kind_sort(kind))
        v = from_sort(kind, c)
        self.assume_wellformed(st, v)
        return v

    def recursion_obligations(self, fi, c, fr_c, s):
        """A recursive call: the variant decreases, and the stack depth stays below a constant."""
        if c.decreases is None:
            self.oblige(s, "decreases", "recursion", z3.BoolVal(False), "recursive call without a decreases clause", props=c.props)
            return
        new = self.spec_value(c.decreases, s, fr_c).t
        # the caller's own variant at entry
        fr0 = fr_c
        caller = s.copy()
        caller.frames = [dict(self._entry_env)]
        caller.heap = self._entry_heap.copy()
        old = self.spec_value(c.decreases, caller, fr0).t
        self.oblige(s, "decreases", "recursion", z3.And(old >= 0, new < old), "variant of the recursive call", props=c.props)
        if c.depth_bound is None:
            self.oblige(s, "depth", "recursion", z3.BoolVal(False),
                        "recursive call: no constant bounds the stack depth (depth_bound missing)", props=("C01",) + c.props)
        else:
            d = self.spec_value(c.depth_bound, caller, fr0).t
            self.oblige(s, "depth", "recursion", d <= 50, "stack depth of the recursion is bounded by a constant", props=("C01",) + c.props)
