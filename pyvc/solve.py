"""Discharge obligations: z3 (Python API, one query per process-pool task), cvc5 CLI on z3's unknowns.

Verdict per obligation:
  proved     unsat of hyps ∧ ¬goal              (cover obligations: sat of hyps)
  failed     sat, with a model                  (cover: unsat = vacuous precondition)
  undecided  unknown / timeout in every solver
"""
import multiprocessing as mp
import os
import re
import subprocess
import tempfile
import time

import z3

from . import builtins_model as bm


def _has_quant(t):
    todo, seen = [t], set()
    while todo:
        x = todo.pop()
        if x.get_id() in seen:
            continue
        seen.add(x.get_id())
        if z3.is_quantifier(x):
            return True
        todo.extend(x.children())
    return False


def build_query(ob, qf_only=False):
    """SMT-LIB text of hyps ∧ ¬goal (cover: hyps only), with string-UF facts instantiated at ground terms."""
    s = z3.Solver()
    terms = [h for h in ob.hyps if not (qf_only and _has_quant(h))]
    neg = None
    if not ob.expect_sat:
        neg = z3.Not(ob.goal)
        terms.append(neg)
    from .contracts_rt import unfold_rec_apps
    unf = unfold_rec_apps(terms)
    facts = bm.instantiate_axioms(terms + unf)
    for t in terms:
        s.add(t)
    for f in unf + facts:
        s.add(f)
    return s.to_smt2()


def _solve_z3(args):
    text, timeout_ms, want_model = args
    t0 = time.time()
    try:
        # a quantified query that is valid usually closes in well under a second; when the first attempt
        # wanders off (unknown), other instantiation strategies / seeds are tried before giving up
        attempts = [({}, timeout_ms), ({"smt.mbqi": False}, timeout_ms // 2), ({"smt.random_seed": 7, "smt.qi.eager_threshold": 50.0}, timeout_ms // 2)]
        r, s = z3.unknown, None
        for cfg, tmo in attempts:
            ctx = z3.Context()
            s = z3.Solver(ctx=ctx)
            s.set("timeout", max(1000, tmo))
            for kk, vv in cfg.items():
                s.set(kk, vv)
            s.from_string(text)
            r = s.check()
            if r != z3.unknown:
                break
        res = str(r)
        model = None
        if r == z3.sat and want_model:
            m = s.model()
            model = {}
            for d in m.decls():
                if d.arity() == 0:
                    nm = d.name()
                    if nm.startswith(("p_", "l_", "ret_", "ALLOC")) or "!" not in nm:
                        try:
                            model[nm] = str(m[d])[:400]
                        except Exception:
                            pass
        reason = s.reason_unknown() if r == z3.unknown else ""
        return res, model, time.time() - t0, reason
    except Exception as e:  # parser / solver crash is an engine matter, never a verdict
        return "error", None, time.time() - t0, f"{type(e).__name__}: {e}"


def _fix_for_cvc5(text):
    text = re.sub(r"\(_ (\w+) 0\)", r"\1", text)
    return text


def solve_cvc5(text, timeout_s):
    t0 = time.time()
    with tempfile.NamedTemporaryFile("w", suffix=".smt2", delete=False, dir=os.environ.get("VERIF_SCRATCH")) as f:
        f.write("(set-logic ALL)\n" + _fix_for_cvc5(text).replace("(set-info :status unknown)", ""))
        path = f.name
    try:
        p = subprocess.run(["/usr/bin/cvc5", "--strings-exp", f"--tlimit={int(timeout_s * 1000)}", path],
                           capture_output=True, text=True, timeout=timeout_s + 5)
        out = p.stdout.strip().splitlines()
        res = out[0] if out else "error"
        if res not in ("sat", "unsat", "unknown"):
            res = "error"
        return res, time.time() - t0
    except subprocess.TimeoutExpired:
        return "unknown", time.time() - t0
    finally:
        os.unlink(path)


class Verdict:
    def __init__(self, ob, status, solver, seconds, model=None, reason=""):
        self.name = ob.name
        self.kind = ob.kind
        self.props = ob.props
        self.note = ob.note
        self.status = status        # proved | failed | undecided
        self.solver = solver
        self.seconds = seconds
        self.model = model
        self.reason = reason
        self.trace = getattr(ob, "trace", [])
        self.ob = ob


def discharge(obligations, timeout_ms=10000, procs=None, use_cvc5=True, cvc5_timeout=20):
    procs = procs or min(16, os.cpu_count() or 4)
    texts = []
    for ob in obligations:
        try:
            texts.append(build_query(ob))
        except Exception as e:
            texts.append(None)
            ob._build_error = f"{type(e).__name__}: {e}"
    # the un-carved twin of a known finding only has to stay unproved: a short budget is enough
    jobs = [(t, 3000 if ob.name.endswith("@known") else timeout_ms, True) for ob, t in zip(obligations, texts) if t is not None]
    if jobs:
        with mp.get_context("fork").Pool(procs) as pool:
            results = pool.map(_solve_z3, jobs, chunksize=1)
    else:
        results = []
    verdicts = []
    ri = 0
    for ob, text in zip(obligations, texts):
        if text is None:
            verdicts.append(Verdict(ob, "undecided", "-", 0.0, reason="query construction failed: " + ob._build_error))
            continue
        res, model, secs, reason = results[ri]
        ri += 1
        solver = "z3"
        if res in ("unknown", "error") and use_cvc5:
            r2, s2 = solve_cvc5(text, cvc5_timeout)
            secs += s2
            if r2 in ("sat", "unsat"):
                res, solver = r2, "cvc5"
        if ob.expect_sat and res not in ("sat", "unsat"):
            # vacuity cover with quantified preconditions: decide the quantifier-free part (recorded as partial)
            r3 = _solve_z3((build_query(ob, qf_only=True), timeout_ms, False))
            secs += r3[2]
            if r3[0] == "sat":
                res, solver, reason = "sat", "z3(qf-part)", "cover decided on the quantifier-free part of the precondition"
            elif r3[0] == "unsat":
                res = "unsat"
        if ob.expect_sat:
            status = {"sat": "proved", "unsat": "failed"}.get(res, "undecided")
        else:
            status = {"unsat": "proved", "sat": "failed"}.get(res, "undecided")
        verdicts.append(Verdict(ob, status, solver, secs, model, reason))
    return verdicts


def group_by_name(verdicts):
    """One obligation name may have several per-path queries: proved iff all proved; failed if any failed."""
    groups = {}
    for v in verdicts:
        groups.setdefault(v.name, []).append(v)
    out = {}
    for name, vs in groups.items():
        if any(v.status == "failed" for v in vs):
            st = "failed"
        elif all(v.status == "proved" for v in vs):
            st = "proved"
        else:
            st = "undecided"
        out[name] = (st, vs)
    return out
