"""Discharge obligations: z3 (Python API, one query per process-pool task), cvc5 CLI on z3's unknowns.

Verdict per obligation:
  proved     unsat of hyps ∧ ¬goal              (cover obligations: sat of hyps)
  failed     sat, with a model                  (cover: unsat = vacuous precondition)
  undecided  unknown / timeout in every solver
"""
import multiprocessing as mp
import hashlib
import json
import os
import threading
import re
import subprocess
import tempfile
import time

import z3

from . import builtins_model as bm


def _has_quant(t):
    todo, seen = [t], set()
    while todo:
        x = todo.pop()
        if x.get_id() in seen:
            continue
        seen.add(x.get_id())
        if z3.is_quantifier(x):
            return True
        todo.extend(x.children())
    return False


_SK = [0]


def _inst(q):
    vs = []
    for i in range(q.num_vars()):
        _SK[0] += 1
        vs.append(z3.Const(f"sk!{q.var_name(i)}!{_SK[0]}", q.var_sort(i)))
    return z3.substitute_vars(q.body(), *reversed(vs))


def _pos(h):
    """a hypothesis with its outer existentials replaced by fresh constants (satisfiability-preserving)"""
    if z3.is_quantifier(h) and not h.is_forall() and not h.is_lambda():
        return _pos(_inst(h))
    return h


def _neg(g):
    """the negation of a goal with its outer universals replaced by fresh constants, so that the terms under them are
    ground (the string-function facts and spec-function unfoldings are instantiated at ground terms)"""
    if z3.is_quantifier(g) and g.is_forall():
        return _neg(_inst(g))
    if z3.is_implies(g):
        return z3.And(_pos(g.arg(0)), _neg(g.arg(1)))
    if z3.is_and(g) and any(z3.is_quantifier(c) and c.is_forall() for c in g.children()):
        return z3.Or([_neg(c) for c in g.children()])
    return z3.Not(g)


def build_query(ob, qf_only=False, lite=False):
    """SMT-LIB text of hyps ∧ ¬goal (cover: hyps only), with string-UF facts instantiated at ground terms.
    lite: without those facts -- fewer hypotheses, so an `unsat` of the lite text is still a proof (its `sat` is not
    a counterexample and is ignored)."""
    s = z3.Solver()
    _SK[0] = 0          # skolem names only have to be unique within one query; deterministic texts make the result cache effective
    terms = [h for h in ob.hyps if not (qf_only and _has_quant(h))]
    neg = None
    if not ob.expect_sat:
        neg = _neg(ob.goal)
        terms.append(neg)
    from .contracts_rt import unfold_rec_apps
    unf = unfold_rec_apps(terms, reveals=getattr(ob, 'reveals', ()))
    # revealed opaque (non-recursive) spec functions: the definition as a quantified fact, so that applications under
    # binders can be opened too
    from .contracts_rt import REC_DEFS
    for rs in REC_DEFS.values():
        if getattr(rs, "opaque", False) and rs.name in getattr(ob, "reveals", ()) and rs.def_params:
            app = rs.func(*rs.def_params)
            unf.append(z3.ForAll(list(rs.def_params), app == rs.def_body, patterns=[app]))
    facts = [] if lite is True else bm.instantiate_axioms(terms + unf)
    for t in terms:
        s.add(t)
    for f in unf + facts:
        s.add(f)
    text = s.to_smt2()
    if lite == "both":
        # the lite variant in the same pass (None when there are no string-function facts to leave out)
        if not facts:
            return text, None
        s2 = z3.Solver()
        for t in terms + unf:
            s2.add(t)
        return text, s2.to_smt2()
    return text


Z3_CLI = "z3-new"
CACHE_DIR = None if os.environ.get("VERIF_NO_CACHE") else os.path.join(os.path.dirname(os.path.dirname(os.path.abspath(__file__))), ".cache", "smt")
CACHE_STATS = {"hits": 0}


def _run_z3_cli(path, timeout_s, opts=()):
    """z3 as a separate process with a hard wall-clock limit (the in-solver timeout is not honoured by the
    sequence solver on some queries)"""
    try:
        p = subprocess.run([Z3_CLI, f"-T:{max(1, int(timeout_s))}"] + list(opts) + [path], capture_output=True, text=True,
                           timeout=timeout_s + 3)
        out = p.stdout.strip().splitlines()
        r = out[0].strip() if out else "error"
        if r not in ("sat", "unsat", "unknown"):
            r = "unknown" if r == "timeout" else ("error:" + r[:120])
        return r
    except subprocess.TimeoutExpired:
        return "unknown"


def _canonical(text):
    """the query text with z3's let-bound names (?x123 / $x45, numbered by internal AST ids that change from run to
    run) renamed in order of first appearance -- an alpha-renaming of bound names only"""
    names = {}
    return re.sub(r"[?$]x\d+", lambda m: names.setdefault(m.group(0), f"{m.group(0)[0]}v{len(names)}"), text)


def _solve_z3(args):
    """quick z3, then cvc5, then longer z3 attempts with other instantiation strategies / seeds"""
    text, timeout_ms, want_model = args[:3]
    t0 = time.time()
    # solver-result cache: keyed by the full query text (which is regenerated from /repo's source on every run), it
    # only ever answers a query that is byte-identical to one already decided; `unknown` is never cached
    ckey = hashlib.sha256(_canonical(text).encode()).hexdigest()
    cpath = os.path.join(CACHE_DIR, ckey[:2], ckey + ".json") if CACHE_DIR else None
    if cpath and os.path.exists(cpath):
        try:
            d = json.load(open(cpath))
            if d.get("result") in ("sat", "unsat"):
                CACHE_STATS["hits"] += 1
                return d["result"], None, 0.0, d.get("reason", ""), d.get("solver", "z3") + "(cached)"
        except Exception:
            pass
    out = _solve_z3_uncached(args)
    if cpath and out[0] in ("sat", "unsat"):
        try:
            os.makedirs(os.path.dirname(cpath), exist_ok=True)
            tmp = cpath + f".{os.getpid()}.{threading.get_ident()}.tmp"
            json.dump({"result": out[0], "solver": out[4], "reason": out[3], "seconds": round(out[2], 2)}, open(tmp, "w"))
            os.replace(tmp, cpath)
        except OSError:
            pass
    return out


def _solve_z3_uncached(args):
    text, timeout_ms, want_model = args[:3]
    t0 = time.time()
    with tempfile.NamedTemporaryFile("w", suffix=".smt2", delete=False, dir=os.environ.get("VERIF_SCRATCH")) as f:
        f.write(text + "\n(check-sat)\n" if "(check-sat)" not in text else text)
        path = f.name
    try:
        r = _run_z3_cli(path, min(2.0, timeout_ms / 1000.0))
        if r in ("sat", "unsat"):
            return r, None, time.time() - t0, "", "z3"
        # cvc5 decides several quantified obligations of the splitter in 4-10 s that z3 does not decide at all: its budget is
        # sized so that the verdict does not flip when all 16 cores are busy
        r2, _s2 = solve_cvc5(text, min(25.0, 2.5 * timeout_ms / 1000.0))
        if r2 in ("sat", "unsat"):
            return r2, None, time.time() - t0, "", "cvc5"
        reason = r
        for opts, tmo in (((), timeout_ms / 1000.0), (("smt.mbqi=false",), timeout_ms / 2000.0), (("smt.random_seed=7",), timeout_ms / 2000.0)):
            r = _run_z3_cli(path, max(1.0, tmo), opts)
            if r in ("sat", "unsat"):
                return r, None, time.time() - t0, "", "z3"
            reason = r
        if os.environ.get("VERIF_KEEP_SMT"):     # debugging aid: keep the undecided query
            import shutil, hashlib
            kp = os.path.join(os.environ["VERIF_KEEP_SMT"], hashlib.md5(text.encode()).hexdigest()[:10] + ".smt2")
            shutil.copy(path, kp)
            reason = f"{reason} kept={kp}"
        lite = args[3] if len(args) > 3 else None
        if lite is not None:
            with open(path, "w") as f2:
                f2.write(lite + "\n(check-sat)\n" if "(check-sat)" not in lite else lite)
            for opts, tmo in (((), timeout_ms / 2000.0), (("smt.mbqi=false",), timeout_ms / 2000.0)):
                if _run_z3_cli(path, max(1.0, tmo), opts) == "unsat":
                    return "unsat", None, time.time() - t0, "proved without the string-function facts", "z3(lite)"
            if solve_cvc5(lite, min(25.0, 2.5 * timeout_ms / 1000.0))[0] == "unsat":
                return "unsat", None, time.time() - t0, "proved without the string-function facts", "cvc5(lite)"
        return "unknown", None, time.time() - t0, "timeout" if reason == "unknown" else reason, "z3"
    finally:
        try:
            os.unlink(path)
        except OSError:
            pass


def _fix_for_cvc5(text):
    text = re.sub(r"\(_ (\w+) 0\)", r"\1", text)
    return text


def solve_cvc5(text, timeout_s):
    t0 = time.time()
    with tempfile.NamedTemporaryFile("w", suffix=".smt2", delete=False, dir=os.environ.get("VERIF_SCRATCH")) as f:
        f.write("(set-logic ALL)\n" + _fix_for_cvc5(text).replace("(set-info :status unknown)", ""))
        path = f.name
    try:
        p = subprocess.run(["/usr/bin/cvc5", "--strings-exp", f"--tlimit={int(timeout_s * 1000)}", path],
                           capture_output=True, text=True, timeout=timeout_s + 5)
        out = p.stdout.strip().splitlines()
        res = out[0] if out else "error"
        if res not in ("sat", "unsat", "unknown"):
            res = "error"
        return res, time.time() - t0
    except subprocess.TimeoutExpired:
        return "unknown", time.time() - t0
    finally:
        os.unlink(path)


class Verdict:
    def __init__(self, ob, status, solver, seconds, model=None, reason=""):
        self.name = ob.name
        self.kind = ob.kind
        self.props = ob.props
        self.note = ob.note
        self.status = status        # proved | failed | undecided
        self.solver = solver
        self.seconds = seconds
        self.model = model
        self.reason = reason
        self.trace = getattr(ob, "trace", [])
        self.ob = ob


def discharge(obligations, timeout_ms=10000, procs=None, use_cvc5=True, cvc5_timeout=20):
    procs = procs or min(16, os.cpu_count() or 4)
    texts = []
    lites = {}
    for ob in obligations:
        try:
            if not ob.expect_sat and not ob.name.endswith("@known"):
                t, lt = build_query(ob, lite="both")
                lites[id(ob)] = lt
                texts.append(t)
            else:
                texts.append(build_query(ob))
        except Exception as e:
            texts.append(None)
            ob._build_error = f"{type(e).__name__}: {e}"
    # the un-carved twin of a known finding only has to stay unproved: a short budget is enough
    if os.environ.get("VERIF_DUMP_TEXTS"):     # debugging aid
        os.makedirs(os.environ["VERIF_DUMP_TEXTS"], exist_ok=True)
        for k, (ob, t) in enumerate(zip(obligations, texts)):
            if t is not None:
                open(os.path.join(os.environ["VERIF_DUMP_TEXTS"], f"{k:04d}.smt2"), "w").write(";; " + ob.name + "\n" + t)
    jobs = []
    for ob, t in zip(obligations, texts):
        if t is None:
            continue
        lite = lites.get(id(ob))
        # covers (satisfiability of a precondition with quantifiers) get a short full attempt, then the quantifier-free part
        jobs.append((t, 3000 if (ob.name.endswith("@known") or ob.expect_sat) else timeout_ms, True, lite))
    if jobs:
        from concurrent.futures import ThreadPoolExecutor
        with ThreadPoolExecutor(max_workers=procs) as pool:      # threads only wait for solver processes
            results = list(pool.map(_solve_z3, jobs))
    else:
        results = []
    verdicts = []
    ri = 0
    for ob, text in zip(obligations, texts):
        if text is None:
            verdicts.append(Verdict(ob, "undecided", "-", 0.0, reason="query construction failed: " + ob._build_error))
            continue
        res, model, secs, reason, solver = results[ri]
        ri += 1
        if ob.expect_sat and res not in ("sat", "unsat"):
            # vacuity cover with quantified preconditions: decide the quantifier-free part (recorded as partial)
            r3 = _solve_z3((build_query(ob, qf_only=True), timeout_ms, False))
            secs += r3[2]
            if r3[0] == "sat":
                res, solver, reason = "sat", "z3(qf-part)", "cover decided on the quantifier-free part of the precondition"
            elif r3[0] == "unsat":
                res = "unsat"
        if ob.expect_sat:
            status = {"sat": "proved", "unsat": "failed"}.get(res, "undecided")
        else:
            status = {"unsat": "proved", "sat": "failed"}.get(res, "undecided")
        verdicts.append(Verdict(ob, status, solver, secs, model, reason))
    return verdicts


def group_by_name(verdicts):
    """One obligation name may have several per-path queries: proved iff all proved; failed if any failed."""
    groups = {}
    for v in verdicts:
        groups.setdefault(v.name, []).append(v)
    out = {}
    for name, vs in groups.items():
        if any(v.status == "failed" for v in vs):
            st = "failed"
        elif all(v.status == "proved" for v in vs):
            st = "proved"
        else:
            st = "undecided"
        out[name] = (st, vs)
    return out
