"""Assumed contract A-COPY of copy.deepcopy / copy.copy.

deepcopy(x) is modelled as a graph isomorphism `cp` from the objects that exist at the call onto
*fresh* objects (ids >= the allocation pointer at the call), except objects whose class defines
`__deepcopy__` returning self (the repository's ParsingException family), which map to themselves.
Every heap component reachable from the static kind of x gets a post-call version K' with

    for every r that existed:          K'[r]     == K[r]                 (the original is not written)
    for every copied r:                K'[cp[r]] == map(K[r])            (same content, references mapped by cp)

`map` is the identity on str/int/bool, cp on references (None stays None), and on dynamic values maps a
RefV through cp.  Objects reachable only through a dynamic (`any`) slot are given fresh identities but
their contents are copied only when their class's components are in the closure computed below.
copy.copy(x) is the same with `map` the identity (one level).
"""
import z3

from .vals import *
from .vals import PyVal
from .state import fresh, FAM_SORT, heap_sort

IntS, BoolS, StrS = z3.IntSort(), z3.BoolSort(), z3.StringSort()


def selfcopy_classes(eng):
    out = []
    for c, ci in eng.repo.classes.items():
        for m in eng.repo.mro(c):
            if "__deepcopy__" in eng.repo.classes[m].methods:
                out.append(c)
                break
    return out


def closure_keys(eng, kind, seen_kinds=None, keys=None):
    seen_kinds = seen_kinds if seen_kinds is not None else set()
    keys = keys if keys is not None else set()
    if kind in seen_kinds:
        return keys
    seen_kinds.add(kind)
    if kind.startswith("optref:"):
        return closure_keys(eng, kind[7:], seen_kinds, keys)
    if kind.startswith("ref:"):
        cname = kind[4:]
        for c in eng.concrete_subclasses(cname):
            chain = eng.repo.mro(c) if c in eng.repo.classes else [c]
            for cc in chain:
                for attr, ak in eng.schema.get(cc, {}).items():
                    keys.add(("attr", cc, attr, ak))
                    closure_keys(eng, ak, seen_kinds, keys)
    elif kind.startswith("list:"):
        fam = elem_heapkey(kind[5:])
        keys.add(("len", fam))
        keys.add(("elems", fam))
        if fam == "str":
            keys.add(("joined",))
        closure_keys(eng, kind[5:], seen_kinds, keys)
    elif kind.startswith("dict:"):
        _, kk, vk = kind.split(":", 2)
        kf, vf = elem_heapkey(kk), elem_heapkey(vk)
        keys.update({("dhas", kf), ("dval", kf, vf), ("dn", kf), ("dkeys", kf), ("dpos", kf)})
        closure_keys(eng, vk, seen_kinds, keys)
    elif kind.startswith("set:"):
        fam = elem_heapkey(kind[4:])
        keys.update({("shas", fam), ("sn", fam)})
    elif kind == "any" and any(k2.startswith(("ref:Field", "ref:Block", "ref:Entry")) for k2 in seen_kinds):
        # what the repository stores in dynamic slots of blocks and fields: str/int (immutable),
        # lists of str, lists of NameParts, NameParts, exceptions
        for k2 in ("list:str", "list:any", "ref:NameParts"):
            closure_keys(eng, k2, seen_kinds, keys)
    return keys


def deepcopy_model(eng, x, st, fr, k, deep=True):
    from .symex import EngineError
    if isinstance(x, (SStr, SInt, SBool, SNone, STuple)):
        return k(st, x)
    if not isinstance(x, (SRef, SOptRef, SDyn)):
        raise EngineError(f"deepcopy of {x!r}")
    eng.trusted_used.add("A-COPY")
    kind = x.kind
    keys = closure_keys(eng, kind)
    a0 = st.alloc
    _lo, a1 = st.bump_alloc_unknown()
    cp = fresh("cp", z3.ArraySort(IntS, IntS))
    r = z3.Int("r!cp")
    r2 = z3.Int("r2!cp")
    j = z3.Int("j!cp")
    cls = st.heap.get(("cls",))
    sc = selfcopy_classes(eng) if deep else []
    selfcopy = lambda t: z3.Or([z3.Select(cls, t) == eng.class_ids[c] for c in sc] + [z3.BoolVal(False)])
    live = lambda t: z3.And(t > 0, t < a0)
    st.assume(z3.Select(cp, 0) == 0)
    st.assume(z3.ForAll([r], z3.Implies(live(r), z3.If(selfcopy(r), z3.Select(cp, r) == r,
                                                        z3.And(z3.Select(cp, r) >= a0, z3.Select(cp, r) < a1)))))
    st.assume(z3.ForAll([r, r2], z3.Implies(z3.And(live(r), live(r2), z3.Select(cp, r) == z3.Select(cp, r2)), r == r2)))
    # The copies live at ids >= a0, where no component has been constrained yet (allocation discipline:
    # facts in the path condition speak about allocated objects only).  Their contents are therefore
    # *assumed* on the current components; objects that existed keep their values by construction, which
    # is the "deepcopy does not write to the original" half of A-COPY.
    st.assume(z3.ForAll([r], z3.Implies(live(r), z3.Select(cls, z3.Select(cp, r)) == z3.Select(cls, r))))

    def map_ref(t):
        return z3.Select(cp, t) if deep else t

    def map_dyn(t):
        return z3.If(PyVal.is_RefV(t), PyVal.RefV(z3.Select(cp, PyVal.rval(t))), t) if deep else t

    def map_by_kind(kd, t):
        if kd in ("str", "int", "bool", "match"):
            return t
        if kd == "any":
            return map_dyn(t)
        return map_ref(t)

    copied = lambda t: z3.And(live(t), z3.Not(selfcopy(t)))
    tgt = z3.Select(cp, r)
    for key in sorted(keys, key=str):
        K = st.heap.get(key)
        kk = key[0]
        if kk == "attr":
            st.assume(z3.ForAll([r], z3.Implies(copied(r), z3.Select(K, tgt) == map_by_kind(key[3], z3.Select(K, r)))))
        elif kk in ("len", "dn", "sn", "joined", "dhas", "shas", "dkeys", "dpos"):
            st.assume(z3.ForAll([r], z3.Implies(copied(r), z3.Select(K, tgt) == z3.Select(K, r))))
        elif kk == "elems":
            fam = key[1]
            m = (lambda t: t) if fam in ("str", "int") or not deep else (map_dyn if fam == "any" else map_ref)
            st.assume(z3.ForAll([r, j], z3.Implies(copied(r), z3.Select(z3.Select(K, tgt), j) == m(z3.Select(z3.Select(K, r), j)))))
        elif kk == "dval":
            vf = key[2]
            m = (lambda t: t) if vf in ("str", "int") or not deep else (map_dyn if vf == "any" else map_ref)
            kx = z3.Const("k!cp", FAM_SORT[key[1]])
            st.assume(z3.ForAll([r, kx], z3.Implies(copied(r), z3.Select(z3.Select(K, tgt), kx) == m(z3.Select(z3.Select(K, r), kx)))))
    st.ghost["last_cp"] = (cp, a0, a1)
    if isinstance(x, SRef):
        res = SRef(z3.Select(cp, x.t), x.kind)
    elif isinstance(x, SOptRef):
        res = SOptRef(z3.Select(cp, x.t), x.inner)
    else:
        res = SDyn(z3.If(PyVal.is_RefV(x.t), PyVal.RefV(z3.Select(cp, PyVal.rval(x.t))), x.t))
    if not deep:
        # copy.copy: only the top object is new; its attribute values are shared
        pass
    return k(st, res)
