"""Load contracts, run the VC generator on selected functions, discharge."""
import importlib
import json
import os
import subprocess
import sys
import time

from . import api
from .extract import Repo
from .symex import FullEngine, EngineError, Frame
from .contracts_rt import Contract, RecSpec
from . import solve

VERIF = os.path.dirname(os.path.dirname(os.path.abspath(__file__)))
CONTRACT_MODULES = ["schema", "writer", "enclosing", "month", "library", "model", "entrypoint", "interpolate", "fieldorder", "splitter", "names", "latex", "sortblocks", "middleware", "defaultparse"]


def load_contracts(modules=None):
    api.reset()
    sys.path.insert(0, VERIF)
    for m in (modules or CONTRACT_MODULES):
        name = f"contracts.{m}"
        if name in sys.modules:
            importlib.reload(sys.modules[name])
        else:
            importlib.import_module(name)
    return api.REGISTRY


def dump_constants(repo):
    """Non-literal module constants, computed by importing the real package under /venv (checked
    against the AST where the AST is a literal)."""
    code = r'''
import json, importlib
out = {}
for mod, names in %r.items():
    m = importlib.import_module(mod)
    for n in names:
        v = getattr(m, n)
        try:
            json.dumps(v)
            out[mod + ":" + n] = v
        except TypeError:
            if isinstance(v, (tuple, list)) and all(isinstance(x, type) for x in v):
                out[mod + ":" + n] = {"__types__": [x.__name__ for x in v]}
print(json.dumps(out))
'''
    want = {}
    import ast
    for (mod, name), node in repo.consts.items():
        try:
            ast.literal_eval(node)
        except Exception:
            want.setdefault(mod, []).append(name)
    p = subprocess.run(["/venv/bin/python", "-c", code % want], capture_output=True, text=True, cwd="/",
                       env={**os.environ, "PYTHONPATH": repo.root})
    if p.returncode != 0:
        raise RuntimeError("constants dump failed: " + p.stderr[-400:])
    raw = json.loads(p.stdout)
    out = {}
    for k, v in raw.items():
        mod, name = k.split(":")
        if isinstance(v, dict) and "__types__" in v:
            v = tuple(type(n, (), {}) for n in v["__types__"])
        out[(mod, name)] = v
    return out


def make_engine(modules=None, repo=None):
    reg = load_contracts(modules)
    repo = repo or Repo()
    contracts = {q: Contract(q, d) for q, d in reg["contracts"].items()}
    eng = FullEngine(repo, contracts, reg["schema"])
    for name, node in reg["preds"].items():
        eng.preds[name] = (node, None)
    for name, (node, args, ret, opaque) in reg["recs"].items():
        eng.rec_funcs[name] = RecSpec(name, node, args, ret)
        eng.rec_funcs[name].opaque = opaque
    eng.lemmas = dict(reg["lemmas"])
    eng.ext_methods = dict(reg.get("ext_methods", {}))
    if any(getattr(c, "uses_marks", False) for c in contracts.values()) or any(d.get("uses_marks") for d in eng.lemmas.values()):
        from . import marks
        if not any(a_.eq(marks.axioms()[0]) for a_ in eng.global_axioms):
            eng.global_axioms += marks.axioms()
    eng.const_dump = {}
    eng._const_dump_loader = lambda: dump_constants(repo)
    return eng


def run(functions=None, modules=None, timeout_ms=10000, verbose=True):
    eng = make_engine(modules)
    t0 = time.time()
    summary = {}
    for q, c in eng.contracts.items():
        if functions and q not in functions:
            continue
        if c.trusted:
            continue
        fi = eng.repo.funcs.get(q.split('#')[0])
        if fi is None:
            eng.problems.append((q, "contracted function not found in the repository"))
            continue
        try:
            summary[q] = eng.verify_function(fi, c)
        except EngineError as e:
            eng.problems.append((q, f"EngineError: {e}"))
    for name, d in eng.lemmas.items():
        if functions and ("lemma:" + name) not in functions:
            continue
        try:
            eng.verify_lemma(name, d)
        except EngineError as e:
            eng.problems.append(("lemma:" + name, f"EngineError: {e}"))
    t1 = time.time()
    verdicts = solve.discharge(eng.obligations, timeout_ms=timeout_ms)
    t2 = time.time()
    if verbose:
        for v in verdicts:
            print(f"{v.status:9s} {v.solver:4s} {v.seconds:6.2f}s {v.name}   {v.note[:70] if v.status != 'proved' else ''}")
            if v.status != "proved":
                print("      trace:", " ".join(v.trace))
            if v.status == "failed" and v.model:
                print("      model:", {k: v.model[k] for k in list(v.model)[:8]})
            if v.status == "undecided":
                print("      reason:", v.reason)
        for name, msg in eng.problems:
            print("PROBLEM", name, msg)
        print(f"vcgen {t1-t0:.1f}s solve {t2-t1:.1f}s obligations {len(verdicts)} paths {eng.stats}")
    return eng, verdicts, summary


if __name__ == "__main__":
    fns = sys.argv[1:] or None
    from . import bigstack
    bigstack.run(run, fns)
