"""Mutation adequacy helper: apply textual mutants to a scratch copy of the package and report which
obligations stop being proved.  usage: python3-vt -m pyvc.mutate <file-relative> '<old>' '<new>' <function qualnames...>"""
import os
import shutil
import sys
import tempfile


def main():
    rel, old, new = sys.argv[1:4]
    fns = sys.argv[4:]
    d = tempfile.mkdtemp(prefix="pyvc-mut-", dir=os.environ.get("VERIF_MUT_DIR", "/tmp"))
    try:
        shutil.copytree("/repo/bibtexparser", os.path.join(d, "bibtexparser"))
        p = os.path.join(d, rel)
        s = open(p).read()
        if s.count(old) != 1:
            print(f"MUTANT-ERROR: pattern occurs {s.count(old)} times")
            return 3
        open(p, "w").write(s.replace(old, new))
        os.environ["VERIF_REPO"] = d
        from pyvc import extract
        extract.REPO = d
        from pyvc import driver
        mods = os.environ.get("VERIF_MUT_MODULES")
        from pyvc import bigstack
        eng, verdicts, _ = bigstack.run(driver.run, fns or None, mods.split(",") if mods else None, 10000, False)
        bad = sorted({(v.status, v.name) for v in verdicts if v.status != "proved"})
        for st, n in bad:
            print(f"  {st:9s} {n}")
        for n, m in eng.problems:
            print(f"  problem   {n}: {m[:100]}")
        print("KILLED" if bad or eng.problems else "SURVIVED")
    finally:
        shutil.rmtree(d, ignore_errors=True)


if __name__ == "__main__":
    main()
