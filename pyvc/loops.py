"""Loops: cut at inductive invariants (for / while), write-set discovery by a dry run of the body."""
import ast
import z3

from .vals import *
from .vals import PyVal
from .state import fresh


class LoopMixin:
    def loop_ordinal(self, fr, node):
        fn = fr.finfo.node if fr.finfo else None
        if fn is None:
            return None
        cache = getattr(fr.finfo, "_loop_ord", None)
        if cache is None:
            cache = {}
            n = 0
            for x in ast.walk(fn):
                pass
            # source order = order of a depth-first pre-order walk restricted to loops
            def visit(nd):
                nonlocal n
                for ch in ast.iter_child_nodes(nd):
                    if isinstance(ch, (ast.FunctionDef, ast.Lambda)) and ch is not fn:
                        continue
                    if isinstance(ch, (ast.For, ast.While)):
                        n += 1
                        cache[id(ch)] = n
                    visit(ch)
            visit(fn)
            fr.finfo._loop_ord = cache
        return cache.get(id(node))

    def loop_contract(self, fr, node):
        from .symex import EngineError
        if fr.finfo is None:
            raise EngineError("loop in a specification function")
        if getattr(node, "_comp_contract", None) is not None:
            return "comp", node._comp_contract
        c = getattr(fr, "contract", None) or self.contracts.get(fr.finfo.qualname)
        o = self.loop_ordinal(fr, node)
        if c is None or o not in c.loops:
            raise EngineError(f"loop {o} of {fr.finfo.qualname} has no invariant")
        return o, c.loops[o]

    # -- iteration protocol -------------------------------------------------------------------
    def iter_setup(self, node, itv, st, fr):
        """Returns (guard(st)->Bool, advance(st)->Value(s) to bind, decreases(st)->Int)."""
        from .symex import EngineError
        from . import builtins_model as bm
        cur_key = ("g", f"cursor_L{node.lineno}c{node.col_offset}", "int")
        if isinstance(itv, SFunc) and itv.what == "builtin_iter":
            kind, srcs = itv.payload
            if kind == "enumerate":
                g, adv, dec = self.iter_setup(node, srcs[0], st, fr)
                def adv2(s):
                    i = s.heap.get(cur_key)
                    return STuple([SInt(i), adv(s)])
                return g, adv2, dec
            if kind == "zip":
                subs = [self.iter_setup(node, s_, st, fr) for s_ in srcs]
                return (lambda s: z3.And([g(s) for g, _, _ in subs]),
                        lambda s: STuple([a(s) for _, a, _ in subs]),
                        lambda s: subs[0][2](s))
            if kind == "range":
                lo, hi, step = srcs
                if step == 1:
                    return (lambda s: lo + s.heap.get(cur_key) < hi,
                            lambda s: SInt(lo + s.heap.get(cur_key)),
                            lambda s: hi - lo - s.heap.get(cur_key))
                if step == -1:
                    return (lambda s: lo - s.heap.get(cur_key) > hi,
                            lambda s: SInt(lo - s.heap.get(cur_key)),
                            lambda s: lo - hi - s.heap.get(cur_key))
        if isinstance(itv, SDyn):
            # a dynamic iterable: it must be a list / tuple object (obligation), iterated element-wise
            seq = z3.And(PyVal.is_RefV(itv.t), z3.Or([self.cls_term(st, PyVal.rval(itv.t)) == self.class_ids[c] for c in ("list", "tuple")]))
            self.oblige(st, "type", "iter-sequence", seq, "iteration over a dynamic value that is not known to be a list or tuple")
            st.assume(seq)
            itv = SRef(PyVal.rval(itv.t), "list:any")
        if isinstance(itv, SRef) and itv.kind.startswith("list:") and isinstance(node.iter, ast.Call) and st.old is not None \
                and self.surely_not(st, itv.t < st.old[2]):
            # a list created during this activation and held only by the loop's iterator (the iterable is a call
            # expression, the list is provably fresh): nobody else can reach it, so iteration is over a snapshot.
            # Assumes a repository function returning a fresh list does not retain it elsewhere.
            self.trusted_used.add("fresh temporary lists returned by a call and iterated directly are not retained elsewhere")
            n0, e0 = self.list_len(st, itv), self.list_elems(st, itv)
            ek = itv.kind[5:]
            st.ghost.setdefault("snap", {})[id(node)] = SSnap(n0, e0, ek)
            return (lambda s: s.heap.get(cur_key) < n0,
                    lambda s: self._wf(s, from_sort(ek, z3.Select(e0, s.heap.get(cur_key)))),
                    lambda s: n0 - s.heap.get(cur_key))
        if isinstance(itv, SRef) and itv.kind.startswith("list:"):
            return (lambda s: s.heap.get(cur_key) < self.list_len(s, itv),
                    lambda s: self._wf(s, self.list_get(s, itv, s.heap.get(cur_key))),
                    lambda s: self.list_len(s, itv) - s.heap.get(cur_key))
        if isinstance(itv, SStr):
            return (lambda s: s.heap.get(cur_key) < z3.Length(itv.t),
                    lambda s: SStr(z3.SubString(itv.t, s.heap.get(cur_key), 1)),
                    lambda s: z3.Length(itv.t) - s.heap.get(cur_key))
        if isinstance(itv, SRef) and itv.kind.startswith("dict:"):
            kf, vf, has, val, n, keys = bm.dict_parts(self, st, itv)
            kk, vk = bm.dict_kinds(itv.kind)
            return (lambda s: s.heap.get(cur_key) < bm.dict_parts(self, s, itv)[4],
                    lambda s: from_sort(kk, z3.Select(bm.dict_parts(self, s, itv)[5], s.heap.get(cur_key))),
                    lambda s: bm.dict_parts(self, s, itv)[4] - s.heap.get(cur_key))
        if isinstance(itv, SRef) and itv.kind == "iter:str":
            src = st.ghost["iter_src"][str(itv.t)]
            pos = lambda s: z3.Select(s.heap.get(("ipos",)), itv.t)
            def adv(s):
                p = pos(s)
                s.heap.set(("ipos",), z3.Store(s.heap.get(("ipos",)), itv.t, p + 1))
                return SStr(z3.SubString(src.t, p, 1))
            return (lambda s: pos(s) < z3.Length(src.t), adv, lambda s: z3.Length(src.t) - pos(s))
        if isinstance(itv, (STuple, SConstSeq)):
            return None
        if isinstance(itv, SFunc) and itv.what == "dictview":
            d, which = itv.payload
            kk, vk = bm.dict_kinds(d.kind)
            def adv(s):
                kf, vf, has, val, n, keys = bm.dict_parts(self, s, d)
                key = z3.Select(keys, s.heap.get(cur_key))
                if which == "keys":
                    return from_sort(kk, key)
                v = self._wf(s, from_sort(vk, z3.Select(val, key)))
                if which == "values":
                    return v
                return STuple([from_sort(kk, key), v])
            return (lambda s: s.heap.get(cur_key) < bm.dict_parts(self, s, d)[4], adv,
                    lambda s: bm.dict_parts(self, s, d)[4] - s.heap.get(cur_key))
        raise EngineError(f"iteration over {itv!r}")

    def _wf(self, s, v):
        self.assume_wellformed(s, v)
        return v

    def ex_For(self, n, st, fr, k):
        from .symex import EngineError
        if n.orelse:
            raise EngineError("for/else")
        def got_iter(s, itv):
            if isinstance(itv, SOptRef):
                return self.branch(s, itv.t != 0, lambda s_: got_iter(s_, SRef(itv.t, itv.inner)),
                                   lambda s_: self.raise_new(s_, "TypeError"), "optional-iter")
            try:
                _ou, _lcu = self.loop_contract(fr, n)
            except EngineError:
                _lcu = {}
            if _lcu.get("unroll") and isinstance(itv, SRef) and itv.kind.startswith("list:"):
                # a loop over a list of statically known length (e.g. the two middlewares of the default stack): executed
                # iteration by iteration instead of being cut at an invariant; that the length is as declared is an obligation
                cnt = int(_lcu["unroll"])
                self.oblige(s, "type", "unroll-length", self.list_len(s, itv) == cnt, f"the contract unrolls this loop {cnt} times")
                s.assume(self.list_len(s, itv) == cnt)
                n0u, e0u = self.list_len(s, itv), self.list_elems(s, itv)
                eku = itv.kind[5:]

                def gou(i, s2):
                    if i == cnt:
                        return k(s2)
                    def body(s3):
                        outs = self.ex(n.body, s3, fr, lambda s4: [(s4, "iterend", None)])
                        res = []
                        for (s4, kind, p) in outs:
                            if kind in ("iterend", "continue"):
                                res += gou(i + 1, s4)
                            elif kind == "break":
                                res += k(s4)
                            else:
                                res.append((s4, kind, p))
                        return res
                    return self.assign(n.target, self._wf(s2, from_sort(eku, z3.Select(e0u, i))), s2, fr, body)
                return gou(0, s)
            setup = self.iter_setup(n, itv, s, fr)
            if setup is None:
                # constant sequence: unroll
                def go(i, s2):
                    if i == len(itv.items):
                        return k(s2)
                    def body(s3):
                        outs = self.ex(n.body, s3, fr, lambda s4: [(s4, "iterend", None)])
                        res = []
                        for (s4, kind, p) in outs:
                            if kind in ("iterend", "continue"):
                                res += go(i + 1, s4)
                            elif kind == "break":
                                res += k(s4)
                            else:
                                res.append((s4, kind, p))
                        return res
                    return self.assign(n.target, itv.items[i], s2, fr, body)
                return go(0, s)
            guard, advance, dec = setup
            try:
                _o, _lc = self.loop_contract(fr, n)
                if _lc.get("iter_name"):
                    src = itv
                    if isinstance(itv, SFunc) and itv.what == "builtin_iter" and itv.payload[0] == "enumerate":
                        src = itv.payload[1][0]
                    if id(n) in s.ghost.get("snap", {}):
                        src = s.ghost["snap"][id(n)]
                    s.env[_lc["iter_name"]] = src
            except EngineError:
                pass
            cur_key = ("g", f"cursor_L{n.lineno}c{n.col_offset}", "int")
            s.heap.set(cur_key, z3.IntVal(0))
            uses_cursor = not (isinstance(itv, SRef) and itv.kind == "iter:str")
            def head(s2):
                return guard(s2)
            def step(s2, kbody):
                v = advance(s2)
                if uses_cursor:
                    s2.heap.set(cur_key, s2.heap.get(cur_key) + 1)
                return self.assign(n.target, v, s2, fr, kbody)
            return self.run_loop(n, s, fr, k, head, step, dec, cursor_key=cur_key if uses_cursor else None)
        return self.ev_iterable(n.iter, st, fr, got_iter)

    def ev_iterable(self, e, st, fr, k):
        """enumerate / zip / range are recognised syntactically; everything else is evaluated."""
        from . import builtins_model as bm
        from .symex import EngineError
        if isinstance(e, ast.Call) and isinstance(e.func, ast.Name) and e.func.id in ("enumerate", "zip", "range") \
                and self.lookup(e.func.id, st, fr) is None:
            nm = e.func.id
            if nm == "range":
                def got(s, vs):
                    ts = [bm.as_int(v) for v in vs]
                    if len(ts) == 1:
                        return k(s, SFunc("builtin_iter", ("range", (z3.IntVal(0), ts[0], 1))))
                    if len(ts) == 2:
                        return k(s, SFunc("builtin_iter", ("range", (ts[0], ts[1], 1))))
                    stp = z3.simplify(ts[2])
                    if z3.is_int_value(stp) and stp.as_long() in (1, -1):
                        return k(s, SFunc("builtin_iter", ("range", (ts[0], ts[1], stp.as_long()))))
                    raise EngineError("range step")
                return self.ev_list(e.args, st, fr, got)
            return self.ev_list(e.args, st, fr, lambda s, vs: k(s, SFunc("builtin_iter", (nm, vs))))
        return self.ev(e, st, fr, k)

    def ex_While(self, n, st, fr, k):
        from .symex import EngineError
        if n.orelse:
            raise EngineError("while/else")
        const_true = isinstance(n.test, ast.Constant) and n.test.value is True
        return self.run_loop(n, st, fr, k, None if const_true else n.test, None, None)

    # -- the cut ---------------------------------------------------------------------------------
    def run_loop(self, node, st, fr, k, head, step, dec, cursor_key=None):
        """Generic loop cut.  `head`: None (while True) | ast test | callable(st)->Bool.
        `step`: callable(st, kbody) binding the loop variable (for-loops)."""
        from .symex import EngineError
        ordinal, lc = self.loop_contract(fr, node)
        fn = fr.finfo.qualname
        tag = f"loop{ordinal}"
        if cursor_key is not None and lc.get("cursor"):
            # expose the ghost cursor under a name the invariant can use
            pass

        def bind_cursor(s):
            if cursor_key is not None:
                s.env[lc.get("cursor", "_i")] = SInt(s.heap.get(cursor_key))
            return s

        inv = lc.get("invariant", {})
        # 1. invariant holds on entry
        bind_cursor(st)
        for cname, text in inv.items():
            self.oblige_spec(st, fr, "inv-init", f"{tag}.{cname}", text, props=lc.get("props", ()))

        # 2. discover what the body writes (dry run from a havocked copy)
        assigned = self.assigned_names(node)
        written = self.dry_run_writes(node, st, fr, head, step, assigned, cursor_key, bind_cursor)

        # 3. havoc, assume invariant
        s0 = st.copy()
        entry_heap = st.heap.snapshot()
        if "*" in written:
            s0.heap.havoc_all({kx for kx in s0.heap.comps if kx[0] == "g"})
            del written["*"]
        for key, how in written.items():
            s0.heap.havoc(key)
            if how != "whole":
                # remembered so that an enclosing loop's write-set analysis can see through this havoc
                hm = dict(s0.ghost.get("hvmap", {}))
                hm[s0.heap.comps[key].get_id()] = (entry_heap.get(key), list(how))
                s0.ghost["hvmap"] = hm
                # only `how` (loop-invariant locations) and objects allocated by earlier iterations
                # were written: every other object that existed at loop entry keeps its value
                r = z3.Int("r!lf")
                cond = z3.And(r > 0, r < st.alloc, *[r != ix for ix in how])
                s0.assume(z3.ForAll([r], z3.Implies(cond, z3.Select(s0.heap.get(key), r) == z3.Select(entry_heap.get(key), r))))
        for name in assigned:
            if name in s0.env:
                s0.env[name] = self.havoc_value(s0, s0.env[name], name)
        s0.loop_entry = (entry_heap, dict(st.env), st.alloc)
        # allocation pointer moved forward by an unknown amount during earlier iterations
        s0.bump_alloc_unknown()
        bind_cursor(s0)
        for cname, text in inv.items():
            s0.assume(self.spec_bool(text, s0, fr, mode="assume"))
        # well-formedness of havocked locals
        for name in assigned:
            if name in s0.env:
                self.assume_wellformed(s0, s0.env[name])
        dec_text = lc.get("decreases")

        def dec_value(s):
            if dec_text is not None:
                return self.spec_value(dec_text, s, fr).t
            if dec is not None:
                return dec(s)
            return None

        results = []

        def after_loop(s):
            return k(s)

        def iterate(s):
            d0 = dec_value(s)
            def body_done(outs):
                res = []
                for (s2, kind, p) in outs:
                    if kind in ("iterend", "continue"):
                        bind_cursor(s2)
                        for cname, text in inv.items():
                            self.oblige_spec(s2, fr, "inv-pres", f"{tag}.{cname}", text, props=lc.get("props", ()))
                        if d0 is not None:
                            d1 = dec_value(s2)
                            self.oblige(s2, "decreases", tag, z3.And(d0 >= 0, d1 < d0), "loop variant", props=lc.get("props", ()))
                        # path ends here (cut)
                    elif kind == "break":
                        res += after_loop(s2)
                    else:
                        res.append((s2, kind, p))
                return res
            if step is not None:
                outs = step(s, lambda s2: self.ex(node.body, s2, fr, lambda s3: [(s3, "iterend", None)]))
            else:
                outs = self.ex(node.body, s, fr, lambda s3: [(s3, "iterend", None)])
            return body_done(outs)

        if head is None:
            if dec_text is None:
                raise EngineError(f"`while True` loop {ordinal} of {fn} needs a decreases clause")
            return iterate(s0)
        if callable(head):
            return self.branch(s0, head(s0), iterate, after_loop, tag)
        def got_test(s, c):
            return self.branch(s, self.truth(s, c), iterate, after_loop, tag)
        return self.ev(head, s0, fr, got_test)

    def havoc_value(self, st, v, name):
        if isinstance(v, (SInt, SBool, SStr, SDyn, SMatch)):
            return type(v)(fresh("l_" + name, v.t.sort()))
        if isinstance(v, SRef):
            nv = SRef(fresh("l_" + name, z3.IntSort()), v.kind)
            return nv
        if isinstance(v, SOptRef):
            return SOptRef(fresh("l_" + name, z3.IntSort()), v.inner)
        if isinstance(v, SNone):
            return SDyn(fresh("l_" + name, PyVal))
        if isinstance(v, STuple):
            return STuple([self.havoc_value(st, x, name) for x in v.items])
        return v

    def assigned_names(self, node):
        names = set()
        for x in ast.walk(node):
            if isinstance(x, ast.Name) and isinstance(x.ctx, ast.Store):
                names.add(x.id)
            elif isinstance(x, ast.ExceptHandler) and x.name:
                names.add(x.name)
        return names

    def dry_run_writes(self, node, st, fr, head, step, assigned, cursor_key, bind_cursor):
        """Heap components the body may write: run the body once from a fully havocked heap.
        Returns {key: "whole" | [loop-invariant location terms]}.  A written location is loop-invariant when
        its index term depends only on pre-loop symbols and on components the loop does not write."""
        from .state import counter_value
        s = st.copy()
        c0 = counter_value()
        hv_map = {}
        for key in list(s.heap.comps):
            if key[0] != "cls":
                pre = s.heap.get(key)
                s.heap.havoc(key)
                hv_map[s.heap.comps[key].get_id()] = (key, pre, s.heap.comps[key])
        for name in assigned:
            if name in s.env:
                s.env[name] = self.havoc_value(s, s.env[name], name)
        _lo, a_dry = s.bump_alloc_unknown()
        bind_cursor(s)
        base = s.heap.snapshot()
        self.dry += 1
        try:
            if step is not None:
                outs = step(s, lambda s2: self.ex(node.body, s2, fr, lambda s3: [(s3, "iterend", None)]))
            else:
                outs = self.ex(node.body, s, fr, lambda s3: [(s3, "iterend", None)])
        finally:
            self.dry -= 1
        W = set()
        for (s2, kind, p) in outs:
            for key in s2.heap.changed_keys(base):
                if key[0] != "cls":
                    W.add(key)

        def stable_term(t):
            """t with dry-run havoc symbols of unwritten components replaced by their pre-loop terms, or None"""
            subs = []
            todo, seen = [t], set()
            while todo:
                x = todo.pop()
                if x.get_id() in seen:
                    continue
                seen.add(x.get_id())
                if z3.is_const(x) and x.decl().kind() == z3.Z3_OP_UNINTERPRETED:
                    nm = x.decl().name()
                    if "!" in nm:
                        try:
                            fresh_in_dry = int(nm.rsplit("!", 1)[1]) > c0
                        except ValueError:
                            fresh_in_dry = False
                        if fresh_in_dry:
                            ent = hv_map.get(x.get_id())
                            if ent is None or ent[0] in W:
                                return None
                            subs.append((ent[2], ent[1]))
                todo.extend(x.children())
            return z3.substitute(t, *subs) if subs else t

        written = {}
        for (s2, kind, p) in outs:
            for key in s2.heap.changed_keys(base):
                if key[0] == "cls":
                    continue
                if key[0] == "g" or written.get(key) == "whole":
                    written[key] = "whole"
                    continue
                t = s2.heap.comps.get(key)
                b = base.comps.get(key, base.initial.get(key))
                locs = []
                ok = t is not None and b is not None
                while ok and not t.eq(b):
                    hm = s2.ghost.get("hvmap", {})
                    if t.get_id() in hm:
                        # an inner loop wrote only these loop-invariant locations (and objects it allocated)
                        inner_entry, inner_locs = hm[t.get_id()]
                        for ix in inner_locs:
                            stb = stable_term(ix)
                            if stb is not None:
                                locs.append(stb)
                            elif not self.surely_not(s2, ix < a_dry):
                                ok = False
                        t = inner_entry
                        continue
                    if z3.is_store(t):
                        ix = t.arg(1)
                        stb = stable_term(ix)
                        if stb is not None:
                            locs.append(stb)
                        elif not self.surely_not(s2, ix < a_dry):
                            ok = False
                        t = t.arg(0)
                    else:
                        ok = False
                if not ok:
                    written[key] = "whole"
                else:
                    cur = written.setdefault(key, [])
                    for ix in locs:
                        if not any(ix.eq(y) for y in cur):
                            cur.append(ix)
        if cursor_key is not None:
            written[cursor_key] = "whole"
        if any(s2.heap.epoch > base.epoch for (s2, kind, p) in outs):
            written["*"] = "whole"
        return written
