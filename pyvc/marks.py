"""Ghost model of the splitter's mark iterator (assumed contract A-RE of re.finditer on the splitter's regex).

The text B = Splitter.bibstr ("\\n" + input) has length L.  `re.finditer(MARK_REGEX, B)` yields the marks
M[0..N): each has a start, an end and a kind in
    1 '{'   2 '}'   3 '"'   4 ','   5 '='   6 newline   7 '@word<blanks>' (only directly before '{')
A match object is its index (-1 encodes None); the iterator is the ghost cursor `cur` (index of the next
match to be yielded).  The facts R1, R2 and R4 below are ASSUMED (validated bounded against re.finditer by
native/a_re.py); everything the splitter does with matches is executed on this model.
"""
import z3

from .vals import *
from .vals import PyVal

IntS, StrS = z3.IntSort(), z3.StringSort()
LB, RB, QT, CM, EQ, NL, AT = 1, 2, 3, 4, 5, 6, 7
KIND_TEXT = {LB: "{", RB: "}", QT: '"', CM: ",", EQ: "=", NL: "\n"}

MK = z3.Array("MARK_KIND", IntS, IntS)
MS = z3.Array("MARK_START", IntS, IntS)
ME = z3.Array("MARK_END", IntS, IntS)
N = z3.Int("MARKS_N")
L = z3.Int("BIB_LEN")
AT_TEXT = z3.Function("mark_at_text", IntS, StrS)      # text of an '@word<blanks>' mark


def axioms():
    """A-RE (assumed): R1 ordering/extent, R2 kinds, R4 every '@' mark is directly followed by a '{' mark."""
    i, j = z3.Int("i!re"), z3.Int("j!re")
    inr = z3.And(0 <= i, i < N)
    return [
        N >= 0, L >= 1,
        z3.ForAll([i], z3.Implies(inr, z3.And(0 <= z3.Select(MS, i), z3.Select(MS, i) < z3.Select(ME, i), z3.Select(ME, i) <= L,
                                               1 <= z3.Select(MK, i), z3.Select(MK, i) <= 7,
                                               z3.Implies(z3.Select(MK, i) != AT, z3.Select(ME, i) == z3.Select(MS, i) + 1)))),
        z3.ForAll([i, j], z3.Implies(z3.And(0 <= i, i < j, j < N), z3.Select(ME, i) <= z3.Select(MS, j)),
                  patterns=[z3.MultiPattern(z3.Select(ME, i), z3.Select(MS, j))]),
        z3.ForAll([i], z3.Implies(z3.And(inr, z3.Select(MK, i) == AT),
                                  z3.And(i + 1 < N, z3.Select(MK, i + 1) == LB, z3.Select(MS, i + 1) == z3.Select(ME, i)))),
        z3.ForAll([i], z3.Implies(z3.And(inr, z3.Select(MK, i) == AT),
                                  z3.And(z3.PrefixOf(z3.StringVal("@"), AT_TEXT(i)), z3.Length(AT_TEXT(i)) == z3.Select(ME, i) - z3.Select(MS, i)))),
    ]


def group0(idx):
    """m.group(0) as a z3 string"""
    k = z3.Select(MK, idx)
    t = AT_TEXT(idx)
    for kind in (NL, EQ, CM, QT, RB, LB):
        t = z3.If(k == kind, z3.StringVal(KIND_TEXT[kind]), t)
    return t


class MarkMixin:
    def mark_count(self):
        return N

    def match_method(self, o, name, args, st, fr, k):
        """m.group(0) / m.start() / m.end() on a match (index); on None -> AttributeError"""
        from .symex import EngineError
        def ok(s):
            if name == "group":
                return k(s, SStr(group0(o.t)))
            if name == "start":
                return k(s, SInt(z3.Select(MS, o.t)))
            if name == "end":
                return k(s, SInt(z3.Select(ME, o.t)))
            raise EngineError(f"match.{name}")
        if st.spec:
            return ok(st)
        return self.branch(st, o.t >= 0, ok, lambda s: self.raise_new(s, "AttributeError"), "match-none")


# ---- specification access to the ghost marks -------------------------------------------------------------

def _mk(eng, e, st, fr, k):
    return eng.ev(e.args[0], st, fr, lambda s, i: k(s, SInt(z3.Select(MK, i.t))))


def _ms(eng, e, st, fr, k):
    return eng.ev(e.args[0], st, fr, lambda s, i: k(s, SInt(z3.Select(MS, i.t))))


def _me(eng, e, st, fr, k):
    return eng.ev(e.args[0], st, fr, lambda s, i: k(s, SInt(z3.Select(ME, i.t))))


def _nmarks(eng, e, st, fr, k):
    return k(st, SInt(N))


def _blen(eng, e, st, fr, k):
    return k(st, SInt(L))


def _cur(eng, e, st, fr, k):
    return k(st, SInt(st.heap.get(("g", "cur", "int"))))


def _midx(eng, e, st, fr, k):
    """midx(m): the index of a match object (-1 for None)"""
    return eng.ev(e.args[0], st, fr, lambda s, m: k(s, SInt(m.t)))


FORMS = {"mk": _mk, "ms": _ms, "me": _me, "NMARKS": _nmarks, "BLEN": _blen, "CUR": _cur, "midx": _midx}
