"""Symbolic executor over the real AST (continuation-passing, path by path, modular at contracts).

ev(expr, st, fr, k)            evaluate expression, call k(st, value) on each normal result; returns outcomes
ex(stmts, st, fr, k)           execute a block; k(st) continues after normal completion; returns outcomes
An *outcome* is (state, kind, payload) with kind in return|raise|break|continue|end|abandon.
"""
import ast
import sys
import z3

from .vals import *
from .vals import PyVal
from .state import State, Heap, fresh, FAM_SORT
from . import builtins_model as bm

sys.setrecursionlimit(400000)


class EngineError(Exception):
    """Construct outside the modelled subset / contract cannot be bound -> obligation UNDECIDED."""


class Frame:
    def __init__(self, finfo, module, cls=None, parent_env=None):
        self.finfo = finfo
        self.module = module
        self.cls = cls              # ClassInfo for methods (needed by super())
        self.parent_env = parent_env


class Raised:
    def __init__(self, ref, cls):
        self.ref = ref      # SRef to the exception object
        self.cls = cls      # static class name (exact dynamic class)


BUILTIN_EXC = {
    "BaseException": None, "Exception": "BaseException", "ValueError": "Exception", "LookupError": "Exception",
    "KeyError": "LookupError", "IndexError": "LookupError", "AttributeError": "Exception",
    "TypeError": "Exception", "StopIteration": "Exception", "RuntimeError": "Exception",
    "NotImplementedError": "RuntimeError", "RecursionError": "RuntimeError", "AssertionError": "Exception",
    "UserWarning": "Exception", "ArithmeticError": "Exception", "ZeroDivisionError": "ArithmeticError",
    "OSError": "Exception",
}
BUILTIN_TYPES = {"str", "int", "bool", "list", "dict", "set", "tuple", "type", "object", "NoneType"}


class Obligation:
    def __init__(self, name, kind, hyps, goal, note="", props=(), expect_sat=False):
        self.name = name
        self.kind = kind
        self.hyps = hyps
        self.goal = goal
        self.note = note
        self.props = tuple(props)
        self.expect_sat = expect_sat   # cover obligations: must be satisfiable
        self.reveals = ()              # opaque spec functions this obligation may unfold


class Engine:
    def __init__(self, repo, contracts, schema, axioms=None, feas_timeout=400):
        self.repo = repo
        self.contracts = contracts          # qualname -> Contract
        self.schema = schema                # class -> {attr: kind}
        self.obligations = []
        self.feas_timeout = feas_timeout
        self.class_ids = {}
        self._assign_class_ids()
        self.global_axioms = list(axioms or [])
        self.rec_funcs = {}                 # name -> RecSpec
        self.preds = {}                     # name -> (FunctionDef, module globals)  macro predicates
        self.cur_fn = None
        self.trusted_used = set()
        self.stats = {"feas_checks": 0, "paths": 0}
        self.dry = 0                        # >0 while computing loop write-sets: no obligations
        self.problems = []                  # (obligation name, reason) -> UNDECIDED
        self.contract_variants = {}
        bm._ENGINE[0] = self
        self.depth_limit = 12

    # ------------------------------------------------------------------ classes
    def _assign_class_ids(self):
        n = 1
        for c in sorted(self.repo.classes):
            self.class_ids[c] = n
            n += 1
        for c in sorted(BUILTIN_EXC):
            self.class_ids.setdefault(c, n)
            n += 1
        for c in ("list", "dict", "set", "tuple", "str", "int", "bool", "NoneType", "type", "object"):
            self.class_ids.setdefault(c, n)
            n += 1

    def exc_parent(self, c):
        if c in self.repo.classes:
            b = self.repo.classes[c].bases
            return b[0] if b else None
        return BUILTIN_EXC.get(c)

    def is_subclass(self, c, base):
        if base == "object":
            return True
        seen = set()
        todo = [c]
        while todo:
            x = todo.pop()
            if x == base:
                return True
            if x in seen or x is None:
                continue
            seen.add(x)
            if x in self.repo.classes:
                todo.extend(self.repo.classes[x].bases)
            elif x in BUILTIN_EXC:
                todo.append(BUILTIN_EXC[x])
        return False

    def concrete_subclasses(self, base):
        out = [c for c in self.repo.classes if self.is_subclass(c, base)]
        out += [c for c in BUILTIN_EXC if c not in self.repo.classes and self.is_subclass(c, base)]
        return out

    def cls_term(self, st, ref_t):
        return z3.Select(st.heap.get(("cls",)), ref_t)

    def cls_term_heap(self, heap, ref_t):
        return z3.Select(heap.get(("cls",)), ref_t)

    def isinstance_term(self, st, ref_t, cname):
        subs = self.concrete_subclasses(cname)
        if not subs:
            return z3.BoolVal(False)
        ct = self.cls_term(st, ref_t)
        return z3.Or([ct == self.class_ids[c] for c in subs])

    def attr_owner(self, cname, attr):
        """(owner class, kind) of data attribute `attr` for an object of static class cname, searching the
        MRO upwards; None when the schema has no such attribute there."""
        for c in self.repo.mro(cname) if cname in self.repo.classes else [cname]:
            if attr in self.schema.get(c, {}):
                return c, self.schema[c][attr]
        # builtin exception bases
        c = cname
        while c is not None:
            if attr in self.schema.get(c, {}):
                return c, self.schema[c][attr]
            c = self.exc_parent(c)
        return None

    # ------------------------------------------------------------------ heap primitives
    def read_attr(self, st, ref_t, owner, attr, kind):
        key = ("attr", owner, attr, kind)
        arr = st.heap.get(key)
        t = z3.Select(arr, ref_t)
        v = from_sort(kind, t)
        self.assume_wellformed(st, v, pristine=arr.eq(st.heap.initial.get(key)), holder=ref_t)
        return v

    def write_attr(self, st, ref_t, owner, attr, kind, val):
        arr = st.heap.get(("attr", owner, attr, kind))
        st.heap.set(("attr", owner, attr, kind), z3.Store(arr, ref_t, self.coerce(st, val, kind)))

    def assume_wellformed(self, st, v, pristine=False, holder=None):
        """Facts true of every value read from a real heap: references point to allocated objects,
        object refs carry a class compatible with their static kind.  A value read from a component
        that this path has not written yet (`pristine`) and held by an object that existed at entry
        can only refer to objects that existed at entry."""
        if st.spec:
            return
        if pristine and holder is not None:
            rt = v.t if isinstance(v, (SRef, SOptRef)) else (PyVal.rval(v.t) if isinstance(v, SDyn) else None)
            if rt is not None:
                isref = PyVal.is_RefV(v.t) if isinstance(v, SDyn) else z3.BoolVal(True)
                st.assume(z3.Implies(z3.And(holder < st.alloc0, isref), rt < st.alloc0))
        if isinstance(v, SRef):
            st.assume(z3.And(v.t > 0, v.t < st.alloc))
            if v.kind.startswith("ref:"):
                st.assume(self.isinstance_term(st, v.t, v.kind[4:]))
            elif v.kind.startswith("list:"):
                st.assume(self.list_len(st, v) >= 0)
        elif isinstance(v, SOptRef):
            st.assume(z3.And(v.t >= 0, v.t < st.alloc))
            if v.inner.startswith("ref:"):
                st.assume(z3.Or(v.t == 0, self.isinstance_term(st, v.t, v.inner[4:])))
        elif isinstance(v, SDyn):
            st.assume(z3.Implies(PyVal.is_RefV(v.t), z3.And(PyVal.rval(v.t) > 0, PyVal.rval(v.t) < st.alloc)))

    def coerce(self, st, val, kind):
        """Value -> z3 term of the slot kind; raises EngineError when statically impossible."""
        if kind == "any":
            if isinstance(val, STuple):
                return PyVal.RefV(self.box_tuple(st, val).t)
            return to_dyn(val)
        if kind == "int" and isinstance(val, SInt):
            return val.t
        if kind == "int" and isinstance(val, SFunc) and val.what == "typeof":
            tv = val.payload
            return self.cls_term(st, tv.t if not isinstance(tv, SDyn) else PyVal.rval(tv.t))
        if kind == "bool" and isinstance(val, SBool):
            return val.t
        if kind == "str" and isinstance(val, SStr):
            return val.t
        if kind == "match" and isinstance(val, SMatch):
            return val.t
        if kind == "match" and isinstance(val, SNone):
            return z3.IntVal(-1)
        if kind.startswith("iter:") and isinstance(val, SNone):
            return z3.IntVal(0)
        if kind.startswith("optref:"):
            if isinstance(val, SNone):
                return z3.IntVal(0)
            if isinstance(val, (SRef, SOptRef)):
                return val.t
        if kind.startswith(("ref:", "list:", "dict:", "set:", "iter:")) and isinstance(val, SRef):
            if kind.startswith("list:") and val.kind.startswith("list:") and getattr(val, "empty_literal", False) and not st.spec \
                    and elem_heapkey(kind[5:]) != elem_heapkey(val.kind[5:]):
                # `[]` was typed list:any for want of a hint; an empty list is empty in every element family
                self.list_set_all(st, SRef(val.t, kind), z3.IntVal(0), z3.K(z3.IntSort(), bm.default_of(FAM_SORT[elem_heapkey(kind[5:])])))
            return val.t
        if kind.startswith(("ref:", "list:", "dict:", "set:")) and isinstance(val, SOptRef):
            if not st.spec:
                self.oblige(st, "type", "not-none", val.t != 0, "an Optional value is used where an object is required")
            return val.t
        if isinstance(val, SDyn):
            # dynamic value stored into a typed slot: its tag must fit (type obligation)
            if kind == "str":
                self.oblige(st, "type", f"str-slot", PyVal.is_StrV(val.t), "dynamic value stored where a str is required")
                return PyVal.sval(val.t)
            if kind == "int":
                self.oblige(st, "type", f"int-slot", PyVal.is_IntV(val.t), "dynamic value stored where an int is required")
                return PyVal.ival(val.t)
            if kind.startswith(("ref:", "list:", "dict:", "set:")):
                self.oblige(st, "type", f"ref-slot", PyVal.is_RefV(val.t), "dynamic value stored where an object is required")
                return PyVal.rval(val.t)
        raise EngineError(f"cannot store {val!r} into slot of kind {kind}")

    # lists -------------------------------------------------------------------------------------
    def list_fam(self, lv):
        return elem_heapkey(lv.kind[5:])

    def list_len(self, st, lv):
        return z3.Select(st.heap.get(("len", self.list_fam(lv))), lv.t)

    def list_elems(self, st, lv):
        return z3.Select(st.heap.get(("elems", self.list_fam(lv))), lv.t)

    def list_get(self, st, lv, i_t):
        ek = lv.kind[5:]
        v = from_sort(ek, z3.Select(self.list_elems(st, lv), i_t))
        key = ("elems", self.list_fam(lv))
        if not st.spec and st.heap.get(key).eq(st.heap.initial.get(key)):
            self.assume_wellformed(st, v, pristine=True, holder=lv.t)
        return v

    def list_set_all(self, st, lv, len_t, elems_t, joined=None):
        """Replace length and contents of a list.  For lists of str the ghost component `joined`
        (= "".join(list)) is maintained: callers pass the new value when they know it."""
        fam = self.list_fam(lv)
        st.heap.set(("len", fam), z3.Store(st.heap.get(("len", fam)), lv.t, len_t))
        st.heap.set(("elems", fam), z3.Store(st.heap.get(("elems", fam)), lv.t, elems_t))
        if fam == "str":
            jt = joined if joined is not None else fresh("joined", z3.StringSort())
            st.heap.set(("joined",), z3.Store(st.heap.get(("joined",)), lv.t, jt))

    def list_joined(self, st, lv):
        return z3.Select(st.heap.get(("joined",)), lv.t)

    def new_list(self, st, elemkind, items=()):
        r = st.new_ref()
        lv = SRef(r, "list:" + elemkind)
        fam = elem_heapkey(elemkind)
        arr = z3.K(z3.IntSort(), bm.default_of(FAM_SORT[fam])) if not items else fresh("lit", z3.ArraySort(z3.IntSort(), FAM_SORT[fam]))
        joined = z3.StringVal("")
        for i, it in enumerate(items):
            t = self.coerce(st, it, elemkind)
            arr = z3.Store(arr, i, t)
            if fam == "str":
                joined = t if i == 0 else z3.Concat(joined, t)
        self.list_set_all(st, lv, z3.IntVal(len(items)), arr, joined if fam == "str" else None)
        return lv

    def new_list_sym(self, st, elemkind, len_t, elems_t):
        r = st.new_ref()
        lv = SRef(r, "list:" + elemkind)
        self.list_set_all(st, lv, len_t, elems_t)
        return lv

    def box_tuple(self, st, tup):
        """a tuple stored in a dynamic slot / list becomes an immutable heap object of class tuple"""
        r = st.new_ref()
        st.heap.set(("cls",), z3.Store(st.heap.get(("cls",)), r, z3.IntVal(self.class_ids["tuple"])))
        arr = z3.K(z3.IntSort(), PyVal.NoneV)
        for i, it in enumerate(tup.items):
            arr = z3.Store(arr, i, self.coerce(st, it, "any"))
        lv = SRef(r, "list:any")
        self.list_set_all(st, lv, z3.IntVal(len(tup.items)), arr)
        return lv

    # objects -----------------------------------------------------------------------------------
    def new_object(self, st, cname):
        r = st.new_ref()
        st.heap.set(("cls",), z3.Store(st.heap.get(("cls",)), r, z3.IntVal(self.class_ids[cname])))
        return SRef(r, "ref:" + cname)

    def raise_new(self, st, cname, attrs=None):
        """Outcome list for raising a fresh exception of class cname."""
        st = st if st.spec else st
        ex = self.new_object(st, cname)
        for a, v in (attrs or {}).items():
            own = self.attr_owner(cname, a)
            if own:
                self.write_attr(st, ex.t, own[0], a, own[1], v)
        return [(st, "raise", Raised(ex, cname))]

    # ------------------------------------------------------------------ obligations / feasibility
    def oblige(self, st, kind, clause, goal, note="", props=(), where=None):
        if self.dry or st.spec and False:
            return
        fn = where or self.cur_fn
        name = f"{fn}/{kind}#{clause}"
        hyps = list(st.pc) + self.global_axioms
        kf = getattr(self, "carveouts", {}).get(name)
        if kf is not None:
            # known finding: the clause as written must still fail (twin), and outside the carve-out it
            # must be proved, so any *other* violation of the same clause is still reported
            twin = Obligation(name + "@known", kind, list(hyps), goal, note, props)
            twin.reveals = tuple(getattr(self, "cur_reveals", ()))
            twin.trace = list(st.trace)
            self.obligations.append(twin)
            s0 = st.copy()
            s0.frames = [dict(self._entry_env)]
            s0.heap = self._entry_heap.copy()
            hyps.append(z3.Not(self.spec_bool(kf["carve_out"], s0, self.cur_frame)))
        ob = Obligation(name, kind, hyps, goal, note, props)
        ob.reveals = tuple(getattr(self, "cur_reveals", ()))
        ob.trace = list(st.trace)
        ob.entry = (getattr(self, "_entry_env", None), getattr(self, "_entry_heap", None))
        self.obligations.append(ob)

    def feasible(self, st, cond):
        if st.spec:
            return True
        self.stats["feas_checks"] += 1
        import time as _t
        _t0 = _t.time()
        try:
            return self._feasible(st, cond)
        finally:
            self.stats["feas_s"] = round(self.stats.get("feas_s", 0.0) + _t.time() - _t0, 2)

    def surely_not(self, st, cond):
        """Is `cond` impossible in state st?  Used where the answer shapes the verification conditions themselves (loop
        write sets), so it must not depend on timing: first the linear-integer part of the path condition alone (allocation
        pointers are a chain of integer inequalities; decided instantly and deterministically), then the full
        quantifier-free context with a generous limit.  `False` means "not shown impossible"."""
        lia = [h for h in st.pc if self._is_pure_lia(h)]
        from .state import guarded_check
        s = z3.Solver()
        s.add(*lia)
        s.add(cond)
        if guarded_check(s, 5000) == z3.unsat:
            return True
        s = z3.Solver()
        for a in self.global_axioms:
            if not self._has_quant(a):
                s.add(a)
        s.add(*[h for h in st.pc if not self._has_quant(h)])
        s.add(cond)
        return guarded_check(s, 5000) == z3.unsat

    def _is_pure_lia(self, t):
        cache = self.__dict__.setdefault("_lia_cache", {})
        i = t.get_id()
        if i not in cache:
            ok = True
            todo, seen = [t], set()
            while todo and ok:
                x = todo.pop()
                if x.get_id() in seen:
                    continue
                seen.add(x.get_id())
                if z3.is_quantifier(x):
                    ok = False
                    break
                srt = x.sort()
                if not (z3.is_int(x) or z3.is_bool(x)) or (z3.is_app(x) and x.decl().kind() in (z3.Z3_OP_SELECT, z3.Z3_OP_STORE)):
                    ok = False
                    break
                if z3.is_app(x) and x.decl().kind() == z3.Z3_OP_UNINTERPRETED and x.num_args() > 0:
                    ok = False
                    break
                todo.extend(x.children())
            cache[i] = (t, ok)
        return cache[i][1]

    def _feasible(self, st, cond):
        s = z3.Solver()
        for a in self.global_axioms:
            if not self._has_quant(a):
                s.add(a)
        # quantified assumptions (and axioms) are left out: a weaker context can only keep more paths (sound)
        s.add(*[h for h in st.pc if not self._has_quant(h)])
        s.add(cond)
        from .state import guarded_check
        r = guarded_check(s, self.feas_timeout)
        return r != z3.unsat

    def _has_quant(self, t):
        cache = self.__dict__.setdefault("_quant_cache", {})
        i = t.get_id()
        if i not in cache:
            found = False
            todo, seen = [t], set()
            while todo and not found:
                x = todo.pop()
                if x.get_id() in seen:
                    continue
                seen.add(x.get_id())
                if z3.is_quantifier(x):
                    found = True
                else:
                    todo.extend(x.children())
            cache[i] = found
        return cache[i]

    def branch(self, st, cond, kt, kf, label=""):
        cond = z3.simplify(cond)
        if z3.is_true(cond):
            return kt(st)
        if z3.is_false(cond):
            return kf(st)
        out = []
        if self.feasible(st, cond):
            s1 = st.copy()
            s1.assume(cond)
            s1.trace.append(f"{label}:T")
            out += kt(s1)
        if self.feasible(st, z3.Not(cond)):
            s2 = st.copy()
            s2.assume(z3.Not(cond))
            s2.trace.append(f"{label}:F")
            out += kf(s2)
        return out

    # ------------------------------------------------------------------ truthiness / equality
    def truth(self, st, v):
        if isinstance(v, SBool):
            return v.t
        if isinstance(v, SInt):
            return v.t != 0
        if isinstance(v, SStr):
            return z3.Length(v.t) > 0
        if isinstance(v, SNone):
            return z3.BoolVal(False)
        if isinstance(v, SMatch):
            return v.t >= 0
        if isinstance(v, SOptRef):
            if v.inner.startswith("list:"):
                lv = SRef(v.t, v.inner)
                return z3.And(v.t != 0, self.list_len(st, lv) > 0)
            return v.t != 0
        if isinstance(v, SRef):
            if v.kind.startswith("list:"):
                return self.list_len(st, v) > 0
            if v.kind.startswith("dict:"):
                return z3.Select(st.heap.get(("dn", bm.kfam(v.kind))), v.t) > 0
            if v.kind.startswith("set:"):
                return bm.set_nonempty(self, st, v)
            return z3.BoolVal(True)
        if isinstance(v, SDyn):
            t = v.t
            return z3.If(PyVal.is_BoolV(t), PyVal.bval(t),
                   z3.If(PyVal.is_IntV(t), PyVal.ival(t) != 0,
                   z3.If(PyVal.is_StrV(t), z3.Length(PyVal.sval(t)) > 0,
                   z3.If(PyVal.is_NoneV(t), z3.BoolVal(False), bm.dyn_ref_truth(self, st, PyVal.rval(t))))))
        if isinstance(v, STuple):
            return z3.BoolVal(len(v.items) > 0)
        if isinstance(v, SConstSeq):
            return z3.BoolVal(len(v.items) > 0)
        if isinstance(v, (SClass, SFunc)):
            return z3.BoolVal(True)
        raise EngineError(f"truthiness of {v!r}")

    def identical(self, st, a, b):
        """`a is b` as a z3 Bool."""
        if isinstance(a, SNone) and isinstance(b, SNone):
            return z3.BoolVal(True)
        if isinstance(a, SNone) or isinstance(b, SNone):
            o = b if isinstance(a, SNone) else a
            if isinstance(o, SDyn):
                return PyVal.is_NoneV(o.t)
            if isinstance(o, SOptRef):
                return o.t == 0
            if isinstance(o, SMatch):
                return o.t < 0
            return z3.BoolVal(False)
        if isinstance(a, (SRef, SOptRef)) and isinstance(b, (SRef, SOptRef)):
            return a.t == b.t
        if isinstance(a, SMatch) and isinstance(b, SMatch):
            return a.t == b.t
        if isinstance(a, SDyn) or isinstance(b, SDyn):
            return to_dyn(a) == to_dyn(b)   # identity of immutables is not observable by the repo's code
        if isinstance(a, SBool) and isinstance(b, SBool):
            return a.t == b.t
        if isinstance(a, SClass) and isinstance(b, SClass):
            return z3.BoolVal(a.name == b.name)
        raise EngineError(f"`is` between {a!r} and {b!r}")

    def equal(self, st, a, b):
        """`a == b` as a z3 Bool (no user-defined __eq__ with side effects in the repo)."""
        if isinstance(a, SNone) or isinstance(b, SNone):
            return self.identical(st, a, b)
        if isinstance(a, SStr) and isinstance(b, SStr):
            return a.t == b.t
        if isinstance(a, (SInt, SBool)) and isinstance(b, (SInt, SBool)):
            return bm.as_int(a) == bm.as_int(b)
        if isinstance(a, (SStr,)) and isinstance(b, (SInt, SBool)) or isinstance(b, SStr) and isinstance(a, (SInt, SBool)):
            return z3.BoolVal(False)
        if isinstance(a, SDyn) or isinstance(b, SDyn):
            return bm.dyn_equal(self, st, a, b)
        if isinstance(a, (SRef, SOptRef)) and isinstance(b, (SRef, SOptRef)):
            return bm.ref_equal(self, st, a, b)
        if isinstance(a, STuple) and isinstance(b, STuple):
            if len(a.items) != len(b.items):
                return z3.BoolVal(False)
            return z3.And([self.equal(st, x, y) for x, y in zip(a.items, b.items)] + [z3.BoolVal(True)])
        if isinstance(a, SMatch) and isinstance(b, SMatch):
            return a.t == b.t
        if isinstance(a, SClass) and isinstance(b, SClass):
            return z3.BoolVal(a.name == b.name)
        if isinstance(a, SFunc) and isinstance(b, SFunc) and a.what == "objdict" and b.what == "objdict":
            return self.objdict_equal(st, a.payload, b.payload)
        kinds = (type(a), type(b))
        if SStr in kinds and (SRef in kinds or STuple in kinds):
            return z3.BoolVal(False)
        raise EngineError(f"== between {a!r} and {b!r}")

    def attr_values_equal(self, st, kind, ta, tb):
        """`==` between two attribute values of the same declared kind"""
        if kind in ("str", "int", "bool"):
            return ta == tb
        if kind == "any":
            return bm.dyn_equal(self, st, SDyn(ta), SDyn(tb))
        if kind.startswith("optref:"):
            inner = kind[7:]
            return z3.If(z3.Or(ta == 0, tb == 0), ta == tb, self.attr_values_equal(st, inner, ta, tb))
        if kind.startswith("list:"):
            la, lb = SRef(ta, kind), SRef(tb, kind)
            n1, n2 = self.list_len(st, la), self.list_len(st, lb)
            i = z3.Int("i!leq")
            ek = kind[5:]
            el = self.attr_values_equal(st, ek, z3.Select(self.list_elems(st, la), i), z3.Select(self.list_elems(st, lb), i))
            return z3.And(n1 == n2, z3.ForAll([i], z3.Implies(z3.And(0 <= i, i < n1), el)))
        return bm.U["obj_eq"](ta, tb)

    def objdict_equal(self, st, a, b):
        """a.__dict__ == b.__dict__ : same attribute names, pairwise == values (CPython dict equality over the
        instance attributes the schema lists for the object's class)"""
        ca, cb = a.kind[4:], b.kind[4:]
        cases = []
        for c in self.concrete_subclasses(ca):
            if not self.is_subclass(c, cb) and c not in self.concrete_subclasses(cb):
                continue
            attrs = []
            chain = self.repo.mro(c) if c in self.repo.classes else [c]
            seen = set()
            for cc in chain:
                for attr, ak in self.schema.get(cc, {}).items():
                    if attr in seen or attr.startswith("g_"):
                        continue
                    seen.add(attr)
                    key = ("attr", cc, attr, ak)
                    arr = st.heap.get(key)
                    attrs.append(self.attr_values_equal(st, ak, z3.Select(arr, a.t), z3.Select(arr, b.t)))
            same_c = z3.And(self.cls_term(st, a.t) == self.class_ids[c], self.cls_term(st, b.t) == self.class_ids[c])
            cases.append(z3.And(same_c, *attrs))
        diff = self.cls_term(st, a.t) != self.cls_term(st, b.t)
        return z3.Or(cases + [z3.And(diff, fresh("dict_eq_other_class", z3.BoolSort()))])

    # ------------------------------------------------------------------ expression evaluation
    def ev(self, e, st, fr, k):
        m = getattr(self, "ev_" + e.__class__.__name__, None)
        if m is None:
            raise EngineError(f"expression {e.__class__.__name__} not modelled: {ast.unparse(e)[:60]}")
        return m(e, st, fr, k)

    def ev_list(self, es, st, fr, k, acc=None):
        acc = acc or []
        if not es:
            return k(st, acc)
        return self.ev(es[0], st, fr, lambda s, v: self.ev_list(es[1:], s, fr, k, acc + [v]))

    def ev_Constant(self, e, st, fr, k):
        v = e.value
        if v is None:
            return k(st, SNone())
        if isinstance(v, bool):
            return k(st, SBool(v))
        if isinstance(v, int):
            return k(st, SInt(v))
        if isinstance(v, str):
            return k(st, SStr(v))
        raise EngineError(f"constant {v!r}")

    def lookup(self, name, st, fr):
        env = st.frames[-1]
        while True:
            if name in env:
                return env[name]
            p = env.get("__parent__")
            if p is None:
                return None
            env = st.frames[p]

    def ev_Name(self, e, st, fr, k):
        v = self.lookup(e.id, st, fr)
        if v is not None:
            return k(st, v)
        return k(st, self.global_name(e.id, st, fr))

    def global_name(self, name, st, fr):
        if name in st.specnames:
            return st.specnames[name]
        r = self.repo.resolve_name(fr.module, name) if fr.module in self.repo.modules else None
        if r:
            if r[0] == "class":
                return SClass(r[1].name)
            if r[0] == "func":
                return SFunc("repo", r[1])
            if r[0] == "const":
                return self.const_value(r[1], r[2], st, fr)
            if r[0] == "module":
                return SModule(r[1])
            if r[0] == "external":
                return bm.external_name(self, r[1])
        if name in self.preds:
            return SFunc("pred", name)
        if name in self.rec_funcs:
            return SFunc("rec", name)
        if name in BUILTIN_EXC or name in BUILTIN_TYPES:
            return SClass(name)
        if name in bm.BUILTIN_FUNCS or name in bm.SPEC_FUNCS:
            return SFunc("builtin", name)
        if name in self.repo.classes:
            return SClass(name)
        if name == "Collection":                                   # collections.abc.Collection, for specifications
            return SClass("Collection")
        raise EngineError(f"unbound name {name!r} in {fr.finfo.qualname if fr.finfo else '?'}")

    def const_value(self, node, mod, st, fr):
        """Module-level constant: literal evaluation of its AST (re-read from disk every run)."""
        try:
            pv = ast.literal_eval(node)
        except Exception:
            pv = bm.eval_module_const(self, node, mod)
        return bm.py_to_value(self, pv)

    def ev_Attribute(self, e, st, fr, k):
        return self.ev(e.value, st, fr, lambda s, o: self.get_attr(o, e.attr, s, fr, k))

    def resolution_groups(self, cname, attr):
        """Partition the concrete classes below cname by what `obj.attr` resolves to."""
        if cname in self.repo.classes:
            base = self.repo.lookup_method(cname, attr)
            if base is not None:
                c = self.contracts.get(base.qualname)
                if c is not None and c.virtual:
                    # behavioural subtyping assumed: every override satisfies the base contract
                    self.trusted_used.add(f"virtual contract: every override of {base.qualname} is assumed to satisfy it")
                    return {("meth", base.qualname): [cname]}
        groups = {}
        for c in self.concrete_subclasses(cname):
            if c in self.repo.classes:
                p = self.repo.lookup_property(c, attr)
                mth = self.repo.lookup_method(c, attr)
                # which comes first in the MRO
                res = None
                for cc in self.repo.mro(c):
                    ci = self.repo.classes[cc]
                    if attr in ci.properties:
                        res = ("prop", ci.properties[attr].qualname)
                        break
                    if attr in ci.methods:
                        res = ("meth", ci.methods[attr].qualname)
                        break
                    if attr in self.schema.get(cc, {}):
                        res = ("data", cc)
                        break
                if res is None:
                    own = self.attr_owner(c, attr)
                    res = ("data", own[0]) if own else ("missing",)
            else:
                own = self.attr_owner(c, attr)
                res = ("data", own[0]) if own else ("missing",)
            groups.setdefault(res, []).append(c)
        return groups

    def get_attr(self, o, attr, st, fr, k):
        if attr == "__class__" and isinstance(o, (SRef, SOptRef, SDyn)):
            return k(st, SFunc("typeof", o))
        if attr == "__dict__" and isinstance(o, SRef) and o.kind.startswith("ref:"):
            return k(st, SFunc("objdict", o))
        if attr == "__dict__" and isinstance(o, SDyn):
            # reached only after the isinstance tests of __eq__ established that `o` is an object of the same class
            if st.spec:
                raise EngineError("__dict__ of a dynamic value in a specification: cast with as_ref first")
            return self.branch(st, PyVal.is_RefV(o.t),
                               lambda s: k(s, SFunc("objdict", SRef(PyVal.rval(o.t), "ref:" + (fr.cls.name if fr.cls else "Block")))),
                               lambda s: self.raise_new(s, "AttributeError"), "dyn.__dict__")
        if isinstance(o, SRef) and o.kind == "ext":
            return k(st, SFunc("extmethod", attr, bound_self=o))
        if isinstance(o, SRef) and o.kind.startswith("ref:"):
            cname = o.kind[4:]
            groups = self.resolution_groups(cname, attr)
            if not groups:
                raise EngineError(f"no classes below {cname}")
            if len(groups) == 1:
                res = next(iter(groups))
                return self.get_attr_resolved(o, attr, res, st, fr, k)
            out = []
            items = list(groups.items())
            for res, classes in items:
                ct = self.cls_term(st, o.t)
                cond = z3.Or([ct == self.class_ids[c] for c in classes])
                if st.spec:
                    raise EngineError(f"spec expression reads {attr} on {cname} whose resolution depends on the dynamic class")
                if not self.feasible(st, cond):
                    continue
                s1 = st.copy()
                s1.assume(cond)
                s1.trace.append(f"{attr}@{classes[0]}")
                out += self.get_attr_resolved(o, attr, res, s1, fr, k)
            return out
        if isinstance(o, SOptRef):
            # attribute access on Optional: None has no attributes
            if st.spec:
                return self.get_attr(SRef(o.t, o.inner), attr, st, fr, k)
            return self.branch(st, o.t != 0,
                               lambda s: self.get_attr(SRef(o.t, o.inner), attr, s, fr, k),
                               lambda s: self.raise_new(s, "AttributeError"), "optref")
        if isinstance(o, SModule):
            return k(st, bm.module_attr(self, o, attr))
        if isinstance(o, SClass):
            return k(st, self.class_attr(o, attr, st, fr))
        if isinstance(o, (SStr, SMatch, STuple, SConstSeq, SInt, SBool)) or isinstance(o, SRef):
            return k(st, SFunc("method", attr, bound_self=o))
        if isinstance(o, SDyn):
            owners = self.dyn_data_owners(attr)
            if owners:
                # a data attribute that exactly one class family declares (e.g. NameParts.first): the value must be an
                # object of that family, anything else has no such attribute
                owner = owners[0]
                ref = SRef(PyVal.rval(o.t), "ref:" + owner)
                if st.spec:
                    return self.get_attr(ref, attr, st, fr, k)
                isobj = z3.And(PyVal.is_RefV(o.t), z3.Or([self.cls_term(st, PyVal.rval(o.t)) == self.class_ids[c] for c in self.concrete_subclasses(owner)]))
                return self.branch(st, isobj, lambda s: self.get_attr(ref, attr, s, fr, k),
                                   lambda s: self.raise_new(s, "AttributeError"), f"dyn.{attr}")
            pown = self.dyn_property_owner(attr)
            if pown is not None:
                # a property that exactly one repository class defines (e.g. NameParts.merge_last_name_first): the value must
                # be an object of that class, anything else has no such attribute
                ref = SRef(PyVal.rval(o.t), "ref:" + pown)
                if st.spec:
                    return self.get_attr(ref, attr, st, fr, k)
                isobj = z3.And(PyVal.is_RefV(o.t), z3.Or([self.cls_term(st, PyVal.rval(o.t)) == self.class_ids[c] for c in self.concrete_subclasses(pown)]))
                return self.branch(st, isobj, lambda s: self.get_attr(ref, attr, s, fr, k),
                                   lambda s: self.raise_new(s, "AttributeError"), f"dyn.{attr}")
            return k(st, SFunc("dynattr", attr, bound_self=o))
        if isinstance(o, SFunc) and o.what == "super":
            return k(st, self.super_attr(o, attr, st, fr))
        if isinstance(o, SNone):
            return self.raise_new(st, "AttributeError")
        raise EngineError(f"attribute {attr} of {o!r}")

    def dyn_property_owner(self, attr):
        cache = self.__dict__.setdefault("_dyn_prop_cache", {})
        if attr not in cache:
            owners = [c for c, ci in self.repo.classes.items() if attr in ci.properties]
            clash = any(attr in ci.methods for ci in self.repo.classes.values()) or any(attr in a_ for a_ in self.schema.values())
            cache[attr] = owners[0] if (len(owners) == 1 and not clash) else None
        return cache[attr]

    def dyn_data_owners(self, attr):
        """classes whose schema declares `attr` as a data attribute, when no repo class has a method / property of that
        name and the declaring classes form one family (else [])"""
        cache = self.__dict__.setdefault("_dyn_owner_cache", {})
        if attr not in cache:
            owners = [c for c, attrs in self.schema.items() if attr in attrs and c in self.repo.classes]
            clash = any(attr in ci.methods or attr in ci.properties for ci in self.repo.classes.values())
            cache[attr] = owners if (len(owners) == 1 and not clash) else []
        return cache[attr]

    def get_attr_resolved(self, o, attr, res, st, fr, k):
        if res[0] == "data":
            owner, kind = res[1], self.schema[res[1]][attr]
            return k(st, self.read_attr(st, o.t, owner, attr, kind))
        if res[0] == "prop":
            fi = self.repo.funcs[res[1]]
            return self.call_repo(fi, [o], {}, st, fr, k)
        if res[0] == "meth":
            fi = self.repo.funcs[res[1]]
            if fi.kind == "staticmethod":
                return k(st, SFunc("repo", fi))
            if fi.kind == "classmethod":
                return k(st, SFunc("repo", fi, bound_self=SClass(o.kind[4:])))
            return k(st, SFunc("repo", fi, bound_self=o))
        if res[0] == "missing":
            if st.spec:
                raise EngineError(f"spec reads missing attribute {attr}")
            return self.raise_new(st, "AttributeError")
        raise EngineError(res)

    def class_attr(self, c, attr, st, fr):
        if c.name in self.repo.classes:
            fi = self.repo.lookup_method(c.name, attr)
            if fi:
                if fi.kind == "classmethod":
                    return SFunc("repo", fi, bound_self=c)
                return SFunc("repo", fi)
        if attr == "__name__":
            return SStr(c.name)
        raise EngineError(f"class attribute {c.name}.{attr}")

    def super_attr(self, sup, attr, st, fr):
        selfv, after = sup.payload
        cname = after
        mro = self.repo.mro(cname)
        for c in mro[1:]:
            ci = self.repo.classes[c]
            if attr in ci.methods:
                return SFunc("repo", ci.methods[attr], bound_self=selfv)
        # builtin base (Exception.__init__, object.__init__): no-op
        return SFunc("builtin", "noop_init", bound_self=selfv)

    # -- operators
    def ev_BoolOp(self, e, st, fr, k):
        is_and = isinstance(e.op, ast.And)

        def go(i, s, last):
            if i == len(e.values):
                return k(s, last)
            def got(s2, v):
                if i == len(e.values) - 1:
                    return k(s2, v)
                c = self.truth(s2, v)
                if s2.spec:
                    # pure: combine as z3 term (operands are boolean-valued in specs)
                    return go_spec(i, s2, v, c)
                if is_and:
                    return self.branch(s2, c, lambda s3: go(i + 1, s3, v), lambda s3: k(s3, v), "and")
                return self.branch(s2, c, lambda s3: k(s3, v), lambda s3: go(i + 1, s3, v), "or")
            return self.ev(e.values[i], s, fr, got)

        def go_spec(i, s, v, c):
            def rest(s2, w):
                cw = self.truth(s2, w)
                return k(s2, SBool(z3.And(c, cw) if is_and else z3.Or(c, cw)))
            return self.ev(ast.BoolOp(op=e.op, values=e.values[i + 1:]) if len(e.values) - i - 1 > 1 else e.values[i + 1], s, fr, rest)
        return go(0, st, None)

    def ev_UnaryOp(self, e, st, fr, k):
        def got(s, v):
            if isinstance(e.op, ast.Not):
                return k(s, SBool(z3.Not(self.truth(s, v))))
            if isinstance(e.op, ast.USub):
                if isinstance(v, SInt):
                    return k(s, SInt(-v.t))
            raise EngineError(f"unary {e.op.__class__.__name__} on {v!r}")
        return self.ev(e.operand, st, fr, got)

    def ev_BinOp(self, e, st, fr, k):
        return self.ev(e.left, st, fr, lambda s, a: self.ev(e.right, s, fr, lambda s2, b: bm.binop(self, e.op, a, b, s2, fr, k)))

    def ev_Compare(self, e, st, fr, k):
        def go(i, s, left, acc):
            if i == len(e.ops):
                return k(s, SBool(z3.And(acc) if len(acc) > 1 else acc[0]))
            def got(s2, right):
                return bm.compare(self, e.ops[i], left, right, s2, fr, lambda s3, c: go(i + 1, s3, right, acc + [c]))
            return self.ev(e.comparators[i], s, fr, got)
        return self.ev(e.left, st, fr, lambda s, l: go(0, s, l, []))

    def ev_IfExp(self, e, st, fr, k):
        def got(s, c):
            ct = self.truth(s, c)
            if s.spec:
                return self.ev(e.body, s, fr, lambda s2, a: self.ev(e.orelse, s2, fr, lambda s3, b: k(s3, bm.ite(self, s3, ct, a, b))))
            return self.branch(s, ct, lambda s2: self.ev(e.body, s2, fr, k), lambda s2: self.ev(e.orelse, s2, fr, k), "ifexp")
        return self.ev(e.test, st, fr, got)

    def ev_Tuple(self, e, st, fr, k):
        return self.ev_list(e.elts, st, fr, lambda s, vs: k(s, STuple(vs)))

    def ev_List(self, e, st, fr, k):
        def got(s, vs):
            hint = getattr(e, "_elemkind", None)
            ek = hint if hint is not None else (bm.join_kinds([v.kind for v in vs]) if vs else "any")
            lv = self.new_list(s, ek, vs)
            if not vs and hint is None:
                lv.empty_literal = True
            return k(s, lv)
        def fr_hint(node, default):
            return getattr(node, "_elemkind", default)
        return self.ev_list(e.elts, st, fr, got)

    def ev_Dict(self, e, st, fr, k):
        if e.keys:
            raise EngineError("non-empty dict literal")
        return k(st, bm.new_dict(self, st, getattr(e, "_kind", "dict:str:any")))

    def ev_Set(self, e, st, fr, k):
        raise EngineError("set literal")

    def ev_JoinedStr(self, e, st, fr, k):
        def go(i, s, acc):
            if i == len(e.values):
                if not acc:
                    return k(s, SStr(""))
                t = acc[0]
                for x in acc[1:]:
                    t = z3.Concat(t, x)
                return k(s, SStr(t))
            part = e.values[i]
            if isinstance(part, ast.Constant):
                return go(i + 1, s, acc + [z3.StringVal(part.value)])
            # FormattedValue
            def got(s2, v):
                return go(i + 1, s2, acc + [bm.format_value(self, s2, v)])
            try:
                return self.ev(part.value, s, fr, got)
            except EngineError:
                return go(i + 1, s, acc + [fresh("fmt", z3.StringSort())])
        return go(0, st, [])

    def ev_Subscript(self, e, st, fr, k):
        def got_obj(s, o):
            if isinstance(e.slice, ast.Slice):
                parts = [e.slice.lower, e.slice.upper, e.slice.step]
                def ev_opt(i, s2, acc):
                    if i == 3:
                        return bm.slice_value(self, o, acc[0], acc[1], acc[2], s2, fr, k)
                    if parts[i] is None:
                        return ev_opt(i + 1, s2, acc + [None])
                    return self.ev(parts[i], s2, fr, lambda s3, v: ev_opt(i + 1, s3, acc + [v]))
                return ev_opt(0, s, [])
            return self.ev(e.slice, s, fr, lambda s2, i: bm.index_value(self, o, i, s2, fr, k))
        return self.ev(e.value, st, fr, got_obj)

    def ev_Lambda(self, e, st, fr, k):
        return k(st, SFunc("lambda", (e, len(st.frames) - 1, fr)))

    def ev_ListComp(self, e, st, fr, k):
        c = getattr(fr, "contract", None)
        if c is not None and getattr(c, "comp_loops", None) and not st.spec:
            # a comprehension whose element expression has effects (calls that allocate or raise): executed as the loop it
            # abbreviates --  acc = []; for x in xs: acc.append(elt)  -- under a loop contract given for it (comp_loops[k], k-th
            # list comprehension of the function in source order)
            ordn = self.comp_ordinal(fr, e)
            lc = c.comp_loops.get(ordn)
            if lc is not None and len(e.generators) == 1 and not e.generators[0].ifs:
                acc = lc.get("acc", f"comp{ordn}")
                g = e.generators[0]
                src = f"{acc} = []\nfor {ast.unparse(g.target)} in {ast.unparse(g.iter)}:\n    {acc}.append({ast.unparse(e.elt)})"
                stmts = ast.parse(src).body
                for nd in ast.walk(stmts[1]):
                    ast.copy_location(nd, e)
                ast.copy_location(stmts[0], e)
                if lc.get("elemkind"):
                    stmts[0].value._elemkind = lc["elemkind"]
                stmts[1]._comp_contract = lc
                return self.ex(stmts, st, fr, lambda s: k(s, self.lookup(acc, s, fr)))
        return bm.list_comp(self, e, st, fr, k)

    def comp_ordinal(self, fr, node):
        cache = getattr(fr.finfo, "_comp_ord", None)
        if cache is None:
            cache = {}
            n = 0
            for x in ast.walk(fr.finfo.node):
                if isinstance(x, ast.ListComp):
                    n += 1
                    cache[id(x)] = n
            fr.finfo._comp_ord = cache
        return cache.get(id(node))

    def ev_DictComp(self, e, st, fr, k):
        return bm.dict_comp(self, e, st, fr, k)

    def ev_SetComp(self, e, st, fr, k):
        return bm.set_comp(self, e, st, fr, k)

    def ev_GeneratorExp(self, e, st, fr, k):
        return k(st, SFunc("genexp", (e, len(st.frames) - 1, fr)))

    def ev_Starred(self, e, st, fr, k):
        raise EngineError("starred expression")

    def ev_Call(self, e, st, fr, k):
        # logging / warnings: dropped statements are handled in ex_Expr; as expressions they are no-ops too
        if bm.is_dropped_call(e):
            return k(st, SNone())
        if isinstance(e.func, ast.Name) and e.func.id in bm.SPECIAL_FORMS and (st.spec or e.func.id in bm.SPECIAL_ALWAYS):
            return bm.SPECIAL_FORMS[e.func.id](self, e, st, fr, k)
        if isinstance(e.func, ast.Name) and e.func.id == "super" and not e.args:
            return k(st, SFunc("super", (self.lookup("self", st, fr), fr.cls.name)))

        def got_f(s, f):
            if any(isinstance(a, ast.Starred) for a in e.args) or any(kw.arg is None for kw in e.keywords):
                raise EngineError("*args/**kwargs at a call site")
            # generator expressions as arguments are passed unevaluated
            def got_args(s2, args):
                names = [kw.arg for kw in e.keywords]
                def got_kw(s3, kwv):
                    return self.call(f, args, dict(zip(names, kwv)), s3, fr, k, e)
                return self.ev_list([kw.value for kw in e.keywords], s2, fr, got_kw)
            return self.ev_list(e.args, s, fr, got_args)
        return self.ev(e.func, st, fr, got_f)

    # ------------------------------------------------------------------ calls
    def call(self, f, args, kwargs, st, fr, k, node=None):
        if isinstance(f, SFunc):
            if f.what == "repo":
                a = ([f.bound_self] if f.bound_self is not None and f.payload.kind != "staticmethod" else []) + list(args)
                if f.payload.kind == "classmethod" and f.bound_self is None:
                    raise EngineError("unbound classmethod")
                return self.call_repo(f.payload, a, kwargs, st, fr, k)
            if f.what == "closure":
                node_, _ = f.payload
                return self.call_inline_node(node_, args, kwargs, st, Frame(fr.finfo, fr.module, fr.cls), k,
                                             parent_idx=len(st.frames) - 1)
            if f.what == "lambda":
                lam, idx_, fr_ = f.payload
                return self.call_lambda(lam, args, st, fr_, k, idx_)
            if f.what == "builtin":
                return bm.call_builtin(self, f.payload, f.bound_self, args, kwargs, st, fr, k, node)
            if f.what == "method":
                return bm.call_method(self, f.bound_self, f.payload, args, kwargs, st, fr, k, node)
            if f.what == "dynattr":
                return bm.call_dyn_method(self, f.bound_self, f.payload, args, kwargs, st, fr, k, node)
            if f.what == "extmethod":
                # A-EXT: a method of a third-party object returns a value of its declared kind or raises some Exception; it
                # writes nothing the repository's objects can see
                ret = getattr(self, "ext_methods", {}).get(f.payload)
                if ret is None and f.payload in ("read", "write"):
                    # methods of a file object (A-IO)
                    s_exc = st.copy()
                    s_exc.trace.append(f"io.{f.payload}:raises")
                    outs = self.raise_new(s_exc, "OSError")
                    res = SStr(fresh("file_text", z3.StringSort())) if f.payload == "read" else SInt(fresh("written", z3.IntSort()))
                    return outs + k(st, res)
                if ret is None:
                    raise EngineError(f"third-party method {f.payload} has no assumed contract (api.external_method)")
                self.trusted_used.add(f"A-EXT: third-party method .{f.payload}() returns {ret} or raises an Exception, writes nothing modelled")
                s_exc = st.copy()
                s_exc.trace.append(f"ext.{f.payload}:raises")
                outs = self.raise_new(s_exc, "Exception")
                res = from_sort(ret, fresh(f"ext_{f.payload}", kind_sort(ret))) if ret != "none" else SNone()
                return outs + k(st, res)
            if f.what == "pred":
                fn, _g = self.preds[f.payload]
                if not st.spec:
                    raise EngineError("predicate called from code")
                return self.call_inline_node(fn, args, kwargs, st, Frame(None, "<spec>"), k)
            if f.what == "rec":
                return self.rec_funcs[f.payload].apply(self, args, st, fr, k)
            if f.what == "external":
                return bm.call_external(self, f.payload, args, kwargs, st, fr, k, node)
        if isinstance(f, SClass):
            return self.construct(f.name, args, kwargs, st, fr, k, node)
        raise EngineError(f"call of {f!r}")

    def bind_params(self, fnode, args, kwargs, st, fr_callee, k):
        """Bind positional/keyword args and defaults -> env dict (defaults evaluated in callee module)."""
        a = fnode.args
        params = [x.arg for x in a.posonlyargs + a.args]
        env = {}
        if len(args) > len(params):
            if a.vararg is None:
                raise EngineError(f"too many positional args for {fnode.name}")
            env[a.vararg.arg] = STuple(args[len(params):])
            args = args[: len(params)]
        elif a.vararg is not None:
            env[a.vararg.arg] = STuple([])
        for p, v in zip(params, args):
            env[p] = v
        kwonly = [x.arg for x in a.kwonlyargs]
        extra_kw = {}
        for n, v in kwargs.items():
            if n in params or n in kwonly:
                if n in env:
                    raise EngineError(f"duplicate arg {n}")
                env[n] = v
            elif a.kwarg is not None:
                extra_kw[n] = v
            else:
                raise EngineError(f"unexpected keyword {n} for {fnode.name}")
        if a.kwarg is not None:
            env[a.kwarg.arg] = SConstSeq([], "dict")
        defaults = dict(zip(params[len(params) - len(a.defaults):], a.defaults))
        for n, d in zip(kwonly, a.kw_defaults):
            if d is not None:
                defaults[n] = d
        missing = [p for p in params + kwonly if p not in env]

        def go(i, s):
            if i == len(missing):
                return k(s, env)
            p = missing[i]
            if p not in defaults:
                raise EngineError(f"missing argument {p} for {fnode.name}")
            def got(s2, v):
                env[p] = v
                return go(i + 1, s2)
            return self.ev(defaults[p], s, fr_callee, got)
        return go(0, st)

    def kind_compatible(self, have, want):
        if have == want or want == "any" or have == "any":
            return True
        if want.startswith("optref:"):
            return have == "none" or self.kind_compatible(have, want[7:])
        if have.startswith("optref:"):
            return self.kind_compatible(have[7:], want)
        if have.startswith("ref:") and want.startswith("ref:"):
            return self.is_subclass(have[4:], want[4:]) or self.is_subclass(want[4:], have[4:])
        if have.startswith("list:") and want.startswith("list:"):
            return elem_heapkey(have[5:]) == elem_heapkey(want[5:])
        if have == "bool" and want == "int":
            return True
        return False

    def contract_for_call(self, fi, args, kwargs):
        cands = self.contract_variants.get(fi.qualname)
        if cands is None:
            cands = self.contract_variants[fi.qualname] = [c for c in self.contracts.values() if c.base == fi.qualname]
        cur = (self.cur_fn or "").split("#")[0]
        special = [c for c in cands if c.for_callers and cur in c.for_callers]
        cands = special if special else [c for c in cands if not c.for_callers]
        if len(cands) <= 1:
            return cands[0] if cands else None
        params = fi.params
        for c in cands:
            ok = True
            for p, v in list(zip(params, args)) + [(p, kwargs[p]) for p in kwargs]:
                want = c.sorts.get(p)
                if want and not self.kind_compatible(v.kind, want):
                    ok = False
                    break
            if ok:
                return c
        raise EngineError(f"no contract variant of {fi.qualname} fits the argument kinds {[a.kind for a in args]}")

    def call_repo(self, fi, args, kwargs, st, fr, k):
        c = self.contract_for_call(fi, args, kwargs)
        if c is not None and not c.inline:
            return self.apply_contract(fi, c, args, kwargs, st, fr, k)
        return self.call_inline(fi, args, kwargs, st, fr, k)

    def call_inline(self, fi, args, kwargs, st, fr, k):
        if st.depth > self.depth_limit:
            raise EngineError(f"inline depth exceeded at {fi.qualname} (recursion without contract?)")
        fr2 = Frame(fi, fi.module, fi.cls)
        return self.call_inline_node(fi.node, args, kwargs, st, fr2, k)

    def call_inline_node(self, fnode, args, kwargs, st, fr2, k, parent_idx=None):
        def bound(s, env):
            if parent_idx is not None:
                env["__parent__"] = parent_idx
            s.frames.append(env)
            s.depth += 1
            outs = self.ex(fnode.body, s, fr2, lambda s2: [(s2, "return", SNone())])
            res = []
            for (s2, kind, payload) in outs:
                if kind == "abandon":
                    res.append((s2, kind, payload))
                    continue
                s2.frames.pop()
                s2.depth -= 1
                if kind == "return":
                    res += k(s2, payload)
                elif kind == "raise":
                    res.append((s2, kind, payload))
                else:
                    raise EngineError(f"{kind} escaped function {fnode.name}")
            return res
        return self.bind_params(fnode, args, kwargs, st, fr2, bound)

    def call_lambda(self, lam, args, st, fr, k, parent_idx):
        params = [a.arg for a in lam.args.args]
        env = dict(zip(params, args))
        env["__parent__"] = parent_idx
        st.frames.append(env)

        def done(s, v):
            s.frames.pop()
            return k(s, v)
        return self.ev(lam.body, st, fr, done)

    def construct(self, cname, args, kwargs, st, fr, k, node=None):
        if cname in self.repo.classes:
            ci = self.repo.classes[cname]
            if ci.is_dataclass:
                return bm.construct_dataclass(self, ci, args, kwargs, st, fr, k)
            obj = self.new_object(st, cname)
            init = self.repo.lookup_method(cname, "__init__")
            if init is None:
                return k(st, obj)
            return self.call_repo(init, [obj] + list(args), kwargs, st, fr, lambda s, _v: k(s, obj))
        if cname in BUILTIN_EXC:
            return k(st, self.new_object(st, cname))
        return bm.construct_builtin(self, cname, args, kwargs, st, fr, k, node)

    def dyn_ref_method(self, o, name, args, kwargs, st, fr, k):
        """obj.name(...) where obj is a dynamic value known to be a reference: dispatch on its class.
        Containers reachable through dynamic slots are dict:str:any / list:any by convention."""
        r = PyVal.rval(o.t)
        ct = self.cls_term(st, r)
        cases = []
        dict_m = {"get", "pop", "keys", "values", "items", "copy"}
        list_m = {"append", "extend", "insert", "index", "remove", "pop", "count", "sort"}
        if name in dict_m:
            cases.append((ct == self.class_ids["dict"],
                          lambda s: bm.call_method(self, SRef(r, "dict:str:any"), name, args, kwargs, s, fr, k)))
        if name in list_m:
            cases.append((ct == self.class_ids["list"],
                          lambda s: bm.call_method(self, SRef(r, "list:any"), name, args, kwargs, s, fr, k)))
        for cname in self.repo.classes:
            if self.repo.lookup_method(cname, name) is not None:
                cases.append((ct == self.class_ids[cname],
                              (lambda cn: lambda s: self.get_attr(SRef(r, "ref:" + cn), name, s, fr,
                                                                  lambda s2, f: self.call(f, args, kwargs, s2, fr, k)))(cname)))

        def go(i, s):
            if i == len(cases):
                return self.raise_new(s, "AttributeError")
            cond, fn = cases[i]
            return self.branch(s, cond, fn, lambda s2: go(i + 1, s2), f"dyn-cls.{name}")
        return go(0, st)

    # ------------------------------------------------------------------ statements
    def ex(self, stmts, st, fr, k):
        if not stmts:
            return k(st)
        s0 = stmts[0]
        m = getattr(self, "ex_" + s0.__class__.__name__, None)
        if m is None:
            raise EngineError(f"statement {s0.__class__.__name__} not modelled")
        gc = getattr(getattr(fr, "contract", None), "ghost_code", None)
        if gc:
            src = ast.unparse(s0).split("\n")[0]
            ups = [u for anchor, updates in gc if src.startswith(anchor) for u in updates]
            if ups:
                return m(s0, st, fr, lambda s: self.ex(stmts[1:], self.run_ghost(s, fr, ups), fr, k))
        return m(s0, st, fr, lambda s: self.ex(stmts[1:], s, fr, k))

    def run_ghost(self, st, fr, updates):
        """ghost code of the contract, run after an anchored statement: (array name, index text, value text) stores
        into a ghost int array / (name, None, value text) sets a ghost int.  Ghost state is never read by the code."""
        for name, idx, val in updates:
            v = self.spec_value(val, st, fr).t
            if idx is None:
                st.heap.set(("g", name, "int"), v)
            else:
                i = self.spec_value(idx, st, fr).t
                key = ("g", name, "arr")
                st.heap.set(key, z3.Store(st.heap.get(key), i, v))
        return st

    def ex_Pass(self, n, st, fr, k):
        return k(st)

    def ex_Expr(self, n, st, fr, k):
        if isinstance(n.value, ast.Constant):
            return k(st)    # docstring
        if isinstance(n.value, ast.Call) and bm.is_dropped_call(n.value):
            return k(st)
        return self.ev(n.value, st, fr, lambda s, v: k(s))

    def ex_Return(self, n, st, fr, k):
        if n.value is None:
            return [(st, "return", SNone())]
        if isinstance(n.value, ast.List) and fr.finfo is not None:
            c = getattr(fr, "contract", None) or self.contracts.get(fr.finfo.qualname)
            rk = c.sorts.get("result") if c else None
            if rk and rk.startswith("list:"):
                n.value._elemkind = rk[5:]
        return self.ev(n.value, st, fr, lambda s, v: [(s, "return", v)])

    def ex_Break(self, n, st, fr, k):
        return [(st, "break", None)]

    def ex_Continue(self, n, st, fr, k):
        return [(st, "continue", None)]

    def ex_FunctionDef(self, n, st, fr, k):
        f = SFunc("closure", (n, None))
        f.def_heap = dict(st.heap.comps)       # the closure's contract is verified in this state
        st.env[n.name] = f
        cc = getattr(getattr(fr, "contract", None), "closures", {}).get(n.name)
        if cc is not None and not self.dry:
            self.verify_closure(n, f, cc, st, fr)
        return k(st)

    def verify_closure(self, n, f, cc, st, fr):
        """A nested function with a contract (used where the closure is handed to a builtin such as sorted()): verified here,
        at its definition, for a symbolic argument in the defining state -- every return satisfies the ensures, nothing
        escapes."""
        s0 = st.copy()
        args = []
        for p, kind in cc["sorts"].items():
            if p == "result":
                continue
            c = fresh("cl_" + p, kind_sort(kind))
            v = from_sort(kind, c)
            if isinstance(v, SRef):
                s0.assume(z3.And(c > 0, c < s0.alloc))
                if kind.startswith("ref:"):
                    s0.assume(self.isinstance_term(s0, c, kind[4:]))
            args.append((p, v))
        for text in cc.get("requires", {}).values():
            s1 = s0.copy()
            s1.frames = s1.frames + [dict(args, __parent__=len(s1.frames) - 1)]
            s0.assume(self.spec_bool(text, s1, fr, "assume"))
        outs = self.call(f, [v for _, v in args], {}, s0, fr, lambda s2, r: [(s2, "clret", r)])
        for (s2, kind, payload) in outs:
            if kind == "clret":
                s3 = s2.copy()
                s3.frames = s3.frames + [dict(args, result=payload, __parent__=len(s3.frames) - 1)]
                for cname, text in cc.get("ensures", {}).items():
                    self.oblige_spec(s3, fr, "closure", f"{n.name}.{cname}", text, props=tuple(cc.get("props", ())))
            elif kind == "raise":
                self.oblige(s2, "closure", f"{n.name}.no-{payload.cls}", z3.BoolVal(False), f"{payload.cls} escapes the closure {n.name}",
                            props=tuple(cc.get("props", ())))

    def ex_Import(self, n, st, fr, k):
        return k(st)

    def ex_Assert(self, n, st, fr, k):
        def got(s, v):
            return self.branch(s, self.truth(s, v), k, lambda s2: self.raise_new(s2, "AssertionError"), "assert")
        return self.ev(n.test, st, fr, got)

    def ex_AnnAssign(self, n, st, fr, k):
        if n.value is None:
            return k(st)
        self.hint_literal(ast.Assign(targets=[n.target], value=n.value), fr)
        return self.ev(n.value, st, fr, lambda s, v: self.assign(n.target, v, s, fr, k))

    def ex_Assign(self, n, st, fr, k):
        # element-kind hints for empty literals come from the contract's `locals` table
        self.hint_literal(n, fr)
        def got(s, v):
            def go(i, s2):
                if i == len(n.targets):
                    return k(s2)
                return self.assign(n.targets[i], v, s2, fr, lambda s3: go(i + 1, s3))
            return go(0, s)
        return self.ev(n.value, st, fr, got)

    def hint_literal(self, n, fr):
        hints = getattr(fr, "local_kinds", None)
        if hints is None:
            c = (getattr(fr, "contract", None) or self.contracts.get(fr.finfo.qualname)) if fr.finfo else None
            hints = fr.local_kinds = (c.local_kinds if c else {})
        kind = None
        t0 = n.targets[0] if len(n.targets) == 1 else None
        if isinstance(t0, ast.Name) and t0.id in hints:
            kind = hints[t0.id]
        elif isinstance(t0, ast.Attribute) and isinstance(t0.value, ast.Name) and t0.value.id == "self" and fr.cls is not None:
            own = self.attr_owner(fr.cls.name, t0.attr)       # empty literals take the kind of the attribute they initialise
            if own is not None:
                kind = own[1][7:] if own[1].startswith("optref:") else own[1]
        if kind is not None:
            v = n.value
            if isinstance(v, ast.List):
                v._elemkind = kind[5:] if kind.startswith("list:") else "any"
            elif isinstance(v, ast.Dict):
                v._kind = kind
            elif isinstance(v, ast.Call) and isinstance(v.func, ast.Name) and v.func.id in ("dict", "set", "list"):
                v._kind = kind

    def assign(self, target, v, st, fr, k):
        if isinstance(target, ast.Name):
            env = st.env
            # closures assign to their own frame only (no nonlocal in the repo)
            env[target.id] = v
            return k(st)
        if isinstance(target, (ast.Tuple, ast.List)):
            return bm.unpack(self, v, len(target.elts), st, fr,
                             lambda s, items: self.assign_many(target.elts, items, s, fr, k))
        if isinstance(target, ast.Attribute):
            return self.ev(target.value, st, fr, lambda s, o: self.set_attr(o, target.attr, v, s, fr, k))
        if isinstance(target, ast.Subscript):
            def got_obj(s, o):
                return self.ev(target.slice, s, fr, lambda s2, i: bm.store_index(self, o, i, v, s2, fr, k))
            return self.ev(target.value, st, fr, got_obj)
        raise EngineError(f"assignment target {target.__class__.__name__}")

    def assign_many(self, targets, items, st, fr, k):
        if not targets:
            return k(st)
        return self.assign(targets[0], items[0], st, fr, lambda s: self.assign_many(targets[1:], items[1:], s, fr, k))

    def set_attr(self, o, attr, v, st, fr, k):
        if isinstance(o, SRef) and o.kind.startswith("ref:"):
            cname = o.kind[4:]
            # property setter?
            groups = {}
            for c in self.concrete_subclasses(cname):
                res = None
                if c in self.repo.classes:
                    for cc in self.repo.mro(c):
                        ci = self.repo.classes[cc]
                        if attr in ci.setters:
                            res = ("setter", ci.setters[attr].qualname)
                            break
                        if attr in ci.properties:
                            res = ("readonly",)
                            break
                        if attr in self.schema.get(cc, {}):
                            res = ("data", cc)
                            break
                if res is None:
                    own = self.attr_owner(c, attr)
                    res = ("data", own[0]) if own else ("newattr",)
                groups.setdefault(res, []).append(c)
            out = []
            for res, classes in groups.items():
                if len(groups) > 1:
                    ct = self.cls_term(st, o.t)
                    cond = z3.Or([ct == self.class_ids[c] for c in classes])
                    if not self.feasible(st, cond):
                        continue
                    s1 = st.copy()
                    s1.assume(cond)
                else:
                    s1 = st
                if res[0] == "data":
                    kind = self.schema[res[1]][attr]
                    self.write_attr(s1, o.t, res[1], attr, kind, v)
                    out += k(s1)
                elif res[0] == "setter":
                    out += self.call_repo(self.repo.funcs[res[1]], [o, v], {}, s1, fr, lambda s, _r: k(s))
                elif res[0] == "readonly":
                    out += self.raise_new(s1, "AttributeError")
                else:
                    raise EngineError(f"store to undeclared attribute {cname}.{attr} (add it to the schema)")
            return out
        if isinstance(o, SOptRef):
            return self.branch(st, o.t != 0, lambda s: self.set_attr(SRef(o.t, o.inner), attr, v, s, fr, k),
                               lambda s: self.raise_new(s, "AttributeError"), "optref-store")
        if isinstance(o, SDyn):
            owners = self.dyn_data_owners(attr)
            if owners:
                owner = owners[0]
                ref = SRef(PyVal.rval(o.t), "ref:" + owner)
                isobj = z3.And(PyVal.is_RefV(o.t), z3.Or([self.cls_term(st, PyVal.rval(o.t)) == self.class_ids[c] for c in self.concrete_subclasses(owner)]))
                # storing a new attribute on some other object is outside the schema: obligation that it is the declaring class
                self.oblige(st, "type", f"store-{attr}-on-{owner}", isobj, f"store to .{attr} of a dynamic value that is not known to be a {owner}")
                st.assume(isobj)
                return self.set_attr(ref, attr, v, st, fr, k)
            return bm.dyn_set_attr(self, o, attr, v, st, fr, k)
        raise EngineError(f"attribute store on {o!r}")

    def ex_AugAssign(self, n, st, fr, k):
        load = ast.copy_location(ast.BinOp(left=self.as_load(n.target), op=n.op, right=n.value), n)
        return self.ev(load, st, fr, lambda s, v: self.assign(n.target, v, s, fr, k))

    def as_load(self, t):
        import copy
        t2 = copy.deepcopy(t)
        for x in ast.walk(t2):
            if hasattr(x, "ctx"):
                x.ctx = ast.Load()
        return t2

    def ex_Delete(self, n, st, fr, k):
        def go(i, s):
            if i == len(n.targets):
                return k(s)
            t = n.targets[i]
            if isinstance(t, ast.Subscript):
                def got_obj(s2, o):
                    return self.ev(t.slice, s2, fr, lambda s3, ix: bm.delete_index(self, o, ix, s3, fr, lambda s4: go(i + 1, s4)))
                return self.ev(t.value, s, fr, got_obj)
            raise EngineError("del of non-subscript")
        return go(0, st)

    def ex_If(self, n, st, fr, k):
        def got(s, c):
            return self.branch(s, self.truth(s, c),
                               lambda s2: self.ex(n.body, s2, fr, k),
                               lambda s2: self.ex(n.orelse, s2, fr, k), f"if@{n.lineno}")
        return self.ev(n.test, st, fr, got)

    def ex_Raise(self, n, st, fr, k):
        if n.exc is None:
            cur = st.ghost.get("handling")
            if cur is None:
                raise EngineError("bare raise outside handler")
            return [(st, "raise", cur)]
        def got(s, v):
            if isinstance(v, SClass):
                return self.raise_new(s, v.name)
            if isinstance(v, SRef) and v.kind.startswith("ref:"):
                cname = v.kind[4:]
                return [(s, "raise", Raised(v, cname))]
            raise EngineError(f"raise of {v!r}")
        return self.ev(n.exc, st, fr, got)

    def ex_Try(self, n, st, fr, k):
        if n.finalbody:
            raise EngineError("try/finally")
        outs = self.ex(n.body, st, fr, lambda s: [(s, "tryend", None)])
        res = []
        for (s, kind, payload) in outs:
            if kind == "tryend":
                if n.orelse:
                    res += self.ex(n.orelse, s, fr, k)
                else:
                    res += k(s)
            elif kind == "raise":
                res += self.dispatch_handlers(n.handlers, 0, s, payload, fr, k)
            else:
                res.append((s, kind, payload))
        return res

    def exc_matches(self, st, exc, hname):
        """z3 condition that the raised exception is an instance of handler class hname."""
        if exc.cls is not None:
            return z3.BoolVal(self.is_subclass(exc.cls, hname))
        return self.isinstance_term(st, exc.ref.t, hname)

    def dispatch_handlers(self, handlers, i, st, exc, fr, k):
        if i == len(handlers):
            return [(st, "raise", exc)]
        h = handlers[i]
        if h.type is None:
            names = ["BaseException"]
        elif isinstance(h.type, ast.Tuple):
            names = [x.id for x in h.type.elts]
        else:
            names = [ast.unparse(h.type).split(".")[-1]]
        cond = z3.Or([self.exc_matches(st, exc, nm) for nm in names])

        def handle(s):
            if h.name:
                s.env[h.name] = exc.ref
            saved = s.ghost.get("handling")
            s.ghost["handling"] = exc
            def after(s2):
                s2.ghost["handling"] = saved
                return k(s2)
            return self.ex(h.body, s, fr, after)
        return self.branch(st, cond, handle, lambda s: self.dispatch_handlers(handlers, i + 1, s, exc, fr, k), "except")

    def ex_With(self, n, st, fr, k):
        """`with open(...) as f:` -- the file object is an opaque external object (A-IO): opening may raise OSError, its
        read() returns some str, write(s) returns some int, either may raise OSError; nothing modelled is written.  The
        body runs once; leaving the block (normally or by an exception) closes the file and changes nothing modelled."""
        if len(n.items) != 1 or not (isinstance(n.items[0].context_expr, ast.Call) and isinstance(n.items[0].context_expr.func, ast.Name)
                                     and n.items[0].context_expr.func.id == "open"):
            raise EngineError("with-statement other than `with open(...)` is outside the modelled subset")
        item = n.items[0]
        self.trusted_used.add("A-IO: open() returns an opaque file object or raises OSError; read() returns a str, write() an int, either may raise OSError; no modelled object is written")

        def opened(s, _args):
            outs = self.raise_new(s.copy(), "OSError")
            fobj = SRef(fresh("file", z3.IntSort()), "ext")
            if item.optional_vars is not None:
                return outs + self.assign(item.optional_vars, fobj, s, fr, lambda s2: self.ex(n.body, s2, fr, k))
            return outs + self.ex(n.body, s, fr, k)
        return self.ev_list(list(item.context_expr.args) + [kw.value for kw in item.context_expr.keywords], st, fr, opened)

    # loops: see loops.py (mixed in)


from .loops import LoopMixin  # noqa: E402
from .contracts_rt import ContractMixin  # noqa: E402
from .marks import MarkMixin  # noqa: E402


class FullEngine(Engine, LoopMixin, ContractMixin, MarkMixin):
    pass
