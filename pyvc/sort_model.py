"""Assumed contract A-SORT of sorted(xs, key=f) / list.sort(key=f):

  the result is xs[perm[0]], xs[perm[1]], ... for a bijection perm of [0, n);
  keys are non-decreasing along the result, equal keys keep their input order (stable);
  an input whose keys are already non-decreasing is returned in the same order.

The key function must be a pure expression of the element (a lambda reading attributes); it is evaluated
once at a symbolic position.  Keys are str (code-point order, as CPython compares str) or int."""
import z3

from .vals import *
from .vals import PyVal
from .state import fresh, FAM_SORT

IntS = z3.IntSort()


def sorted_model(eng, xs, key, st, fr, k, inplace=False):
    from .symex import EngineError
    if not (isinstance(xs, SRef) and xs.kind.startswith("list:")):
        raise EngineError(f"sorted() of {xs!r}")
    eng.trusted_used.add("A-SORT")
    ek = xs.kind[5:]
    fam = eng.list_fam(xs)
    n = eng.list_len(st, xs)
    el = eng.list_elems(st, xs)
    j = fresh("sj", IntS)
    elem = from_sort(ek, z3.Select(el, j))
    if key is None:
        kv = elem
    else:
        if isinstance(key, SFunc) and key.what == "closure":
            return sorted_by_closure(eng, xs, key, st, fr, k, inplace)
        if not (isinstance(key, SFunc) and key.what == "lambda"):
            raise EngineError("sort key must be a lambda or a nested function with a contract")
        holder = {}
        saved = st.spec
        st.spec = True
        try:
            lam, idx, lfr = key.payload
            eng.call_lambda(lam, [elem], st, lfr, lambda s2, v: holder.update(v=v) or [], idx)
        finally:
            st.spec = saved
        kv = holder.get("v")
        if kv is None:
            raise EngineError("sort key could not be evaluated as a pure expression")
    if not isinstance(kv, (SStr, SInt)):
        raise EngineError(f"sort key of kind {kv.kind}")
    kt = kv.t
    key_at = lambda t: z3.substitute(kt, (j, t))
    le = (lambda a, b: a <= b)
    perm = fresh("perm", z3.ArraySort(IntS, IntS))
    inv = fresh("pinv", z3.ArraySort(IntS, IntS))
    res = fresh("sorted", z3.ArraySort(IntS, FAM_SORT[fam]))
    a, b = z3.Int("a!srt"), z3.Int("b!srt")
    rng = lambda t: z3.And(0 <= t, t < n)
    st.assume(z3.ForAll([a], z3.Implies(rng(a), z3.And(rng(z3.Select(perm, a)), rng(z3.Select(inv, a)),
                                                        z3.Select(perm, z3.Select(inv, a)) == a, z3.Select(inv, z3.Select(perm, a)) == a))))
    st.assume(z3.ForAll([a], z3.Implies(rng(a), z3.Select(res, a) == z3.Select(el, z3.Select(perm, a)))))
    st.assume(z3.ForAll([a], z3.Implies(rng(a), z3.Select(res, z3.Select(inv, a)) == z3.Select(el, a))))     # same fact through the inverse
    st.assume(z3.ForAll([a, b], z3.Implies(z3.And(0 <= a, a < b, b < n),
                                           z3.And(le(key_at(z3.Select(perm, a)), key_at(z3.Select(perm, b))),
                                                  z3.Implies(key_at(z3.Select(perm, a)) == key_at(z3.Select(perm, b)), z3.Select(perm, a) < z3.Select(perm, b))))))
    already = z3.ForAll([a, b], z3.Implies(z3.And(0 <= a, a < b, b < n), le(key_at(a), key_at(b))))
    st.assume(z3.Implies(already, z3.ForAll([a], z3.Implies(rng(a), z3.Select(perm, a) == a))))
    st.ghost["last_sort"] = (perm, inv)
    if inplace:
        eng.list_set_all(st, xs, n, res)
        return k(st, SNone())
    out = eng.new_list_sym(st, ek, n, res)
    st.ghost.setdefault("sort_perm", {})[out.t.get_id()] = (perm, inv)
    return k(st, out)


def sorted_by_closure(eng, xs, key, st, fr, k, inplace):
    """sorted(xs, key=f) where f is a nested function with a contract (verified at its definition): the keys are an
    uninterpreted function of the position that satisfies the closure's postcondition at every element (A-SORT as for
    lambdas; the closure is called once per element, its contract says it has no effect and cannot raise).  The key of the
    i-th element of the RESULT is exported as the ghost array `sort_key`."""
    from .symex import EngineError
    node = key.payload[0]
    cc = getattr(getattr(fr, "contract", None), "closures", {}).get(node.name)
    if cc is None:
        raise EngineError(f"the sort key {node.name} is a nested function without a contract")
    # the closure's contract was verified in the state at its definition: it is used only if nothing was written since
    dh = getattr(key, "def_heap", None)
    if dh is None or any(kx[0] != "g" and not (kx in dh and dh[kx].eq(t)) for kx, t in st.heap.comps.items()):
        raise EngineError(f"the heap changed between the definition of {node.name} and its use as a sort key")
    eng.trusted_used.add("A-SORT")
    ek = xs.kind[5:]
    fam = eng.list_fam(xs)
    n = eng.list_len(st, xs)
    el = eng.list_elems(st, xs)
    rk = cc["sorts"].get("result", "int")
    if rk != "int":
        raise EngineError("closure sort keys must be int")
    params = [p for p in cc["sorts"] if p != "result"]
    keyf = z3.Function("sortkey_" + node.name + "_" + str(fresh("u", IntS)).replace("!", "_"), IntS, IntS)
    j = fresh("sj", IntS)
    s1 = st.copy()
    s1.spec = True
    s1.frames = s1.frames + [{params[0]: from_sort(ek, z3.Select(el, j)), "result": SInt(keyf(j)), "__parent__": len(s1.frames) - 1}]
    facts = [eng.spec_bool(text, s1, fr, "assume") for text in cc.get("ensures", {}).values()]
    st.assume(z3.ForAll([j], z3.Implies(z3.And(0 <= j, j < n), z3.And(facts))))
    key_at = lambda t: keyf(t)
    perm = fresh("perm", z3.ArraySort(IntS, IntS))
    inv = fresh("pinv", z3.ArraySort(IntS, IntS))
    res = fresh("sorted", z3.ArraySort(IntS, FAM_SORT[fam]))
    a, b = z3.Int("a!srt"), z3.Int("b!srt")
    rng = lambda t: z3.And(0 <= t, t < n)
    st.assume(z3.ForAll([a], z3.Implies(rng(a), z3.And(rng(z3.Select(perm, a)), rng(z3.Select(inv, a)),
                                                        z3.Select(perm, z3.Select(inv, a)) == a, z3.Select(inv, z3.Select(perm, a)) == a))))
    st.assume(z3.ForAll([a], z3.Implies(rng(a), z3.Select(res, a) == z3.Select(el, z3.Select(perm, a)))))
    st.assume(z3.ForAll([a], z3.Implies(rng(a), z3.Select(res, z3.Select(inv, a)) == z3.Select(el, a))))
    st.assume(z3.ForAll([a, b], z3.Implies(z3.And(0 <= a, a < b, b < n),
                                           z3.And(key_at(z3.Select(perm, a)) <= key_at(z3.Select(perm, b)),
                                                  z3.Implies(key_at(z3.Select(perm, a)) == key_at(z3.Select(perm, b)), z3.Select(perm, a) < z3.Select(perm, b))))))
    already = z3.ForAll([a, b], z3.Implies(z3.And(0 <= a, a < b, b < n), key_at(a) <= key_at(b)))
    st.assume(z3.Implies(already, z3.ForAll([a], z3.Implies(rng(a), z3.Select(perm, a) == a))))
    # ghost: the key of the i-th element of the result, and the source position it came from
    st.heap.set(("g", "sort_key", "arr"), z3.Lambda([a], keyf(z3.Select(perm, a))))
    st.heap.set(("g", "sort_src", "arr"), perm)
    st.ghost["last_sort"] = (perm, inv)
    if inplace:
        eng.list_set_all(st, xs, n, res)
        return k(st, SNone())
    out = eng.new_list_sym(st, ek, n, res)
    st.ghost.setdefault("sort_perm", {})[out.t.get_id()] = (perm, inv)
    return k(st, out)
