"""Contracts of bibtexparser/middlewares/names.py: the middleware shell around the two string algorithms
(properties C12, C13, C14).

The algorithms themselves -- split_multiple_persons_names and parse_single_name_into_parts, character-level state
machines over iterators with StopIteration control flow -- are outside what pyvc models; they are decided by the
bounded layer against independent reference implementations (native p12 / p13 / p14).  What is proved here is
everything between those algorithms and the library: which fields a name middleware touches, that an invalid name
becomes a middleware error block holding the entry (never an exception), that co-author merging is the ' and '
join, and that the part middlewares map the algorithms over the list element by element."""
from pyvc.api import contract, pred

NM = "bibtexparser.middlewares.names."


@contract(NM + "_NameTransformerMiddleware._transform_field_value")
class _:
    """ASSUMED abstract contract of the per-value hook (the four shipped overrides are verified against their own
    contracts below): it reads its argument, writes nothing that existed, and fails only with InvalidNameError (an
    invalid name) or ValueError (a value of the wrong shape: the documented misuse of the part middlewares)"""
    virtual = True
    trusted = True
    sorts = {"self": "ref:_NameTransformerMiddleware", "name": "any", "result": "any"}
    ensures = {"nothing-written": "True"}
    raises = {"InvalidNameError": {"when": None}, "ValueError": {"when": None}}
    modifies = []


@pred
def is_name_field(self, f):
    return f._key in self._name_fields


@contract(NM + "_NameTransformerMiddleware.transform_entry")
class _:
    """only the values of the configured name fields are replaced (by what the hook returns); keys, the field list,
    every other field, entry type and key are untouched and the entry itself is returned; an InvalidNameError raised
    by the hook is contained: the result is a fresh MiddlewareErrorBlock holding the entry and the error"""
    sorts = {"self": "ref:_NameTransformerMiddleware", "entry": "ref:Entry", "result": "ref:Block"}
    requires = {"distinct-fields": "forall((i, j), 0 <= i < j < len(entry._fields), not same(entry._fields[i], entry._fields[j]))",
                "name-fields-tuple": "cls_is(as_ref(self._name_fields, 'ref:tuple'), 'tuple') and isref(self._name_fields)"}
    loops = {1: {"cursor": "_i", "invariant": {
        "range": "0 <= _i <= len(entry._fields) and len(entry._fields) == old(len(entry._fields))",
        "fields-same": "same(entry._fields, old(entry._fields)) and forall(i, 0 <= i < len(entry._fields), same(entry._fields[i], old(entry._fields[i])))",
        "others-untouched": "forall(i, 0 <= i < len(entry._fields), entry._fields[i]._key == old(entry._fields[i]._key) and implies(not (entry._fields[i]._key in self._name_fields) or i >= _i, same(entry._fields[i]._value, old(entry._fields[i]._value))))",
    }, "props": ("C12", "C13", "C14")}}
    ensures = {
        "C12+C13+C14.scope": "forall(i, 0 <= i < len(entry._fields), same(entry._fields[i], old(entry._fields[i])) and entry._fields[i]._key == old(entry._fields[i]._key) and implies(not (entry._fields[i]._key in self._name_fields), same(entry._fields[i]._value, old(entry._fields[i]._value)))) and len(entry._fields) == old(len(entry._fields)) and same(entry._fields, old(entry._fields))",
        "C12+C13+C14.entry-returned-or-error-block": "same(result, entry) or (cls_is(result, 'MiddlewareErrorBlock') and fresh(result) and same(as_ref(result, 'ref:MiddlewareErrorBlock')._ignore_error_block, entry) and cls_is(as_ref(as_ref(result, 'ref:MiddlewareErrorBlock')._error, 'ref:Exception'), 'InvalidNameError'))",
        "C13.identity-untouched": "entry._key == old(entry._key) and entry._entry_type == old(entry._entry_type) and same(entry._raw, old(entry._raw)) and same(entry._start_line_in_file, old(entry._start_line_in_file))",
    }
    raises = {"ValueError": {"when": None}}
    modifies = ["Field._value"]


@contract(NM + "MergeCoAuthors._transform_field_value")
class _:
    """a list of names is joined with ' and ' (the separator the splitter looks for); anything else is returned as is"""
    sorts = {"self": "ref:MergeCoAuthors", "name": "any", "result": "any"}
    ensures = {
        "C12+C14.not-a-list": "implies(not (isinstance(name, list)), same(result, name))",
        "C12+C14.and-join": "implies(isinstance(name, list), isstr(result) and sval(result) == ' and '.join(as_ref(name, 'list:any')))",
    }
    raises = {"TypeError": {"when": "isinstance(name, list) and exists(i, 0 <= i < len(as_ref(name, 'list:any')), not isstr(as_ref(name, 'list:any')[i]))"}}
    modifies = []


@contract(NM + "parse_single_name_into_parts")
class _:
    """INTERFACE (assumed here; the algorithm is decided by the bounded layer p13 against a transcription of BibTeX's
    name rules): returns a fresh NameParts and writes nothing that existed, or raises InvalidNameError"""
    trusted = True
    sorts = {"name": "any", "strict": "bool", "result": "ref:NameParts"}
    ensures = {"fresh-result": "fresh(result)"}
    raises = {"InvalidNameError": {"when": None}}
    modifies = []


@contract(NM + "SplitNameParts._transform_field_value")
class _:
    """a list of names is mapped, element by element and in order, through parse_single_name_into_parts (one fresh
    NameParts per name, an invalid name propagates as InvalidNameError); a value that is not a list is the documented
    misuse -> ValueError; the given list is not modified"""
    sorts = {"self": "ref:SplitNameParts", "name": "any", "result": "list:ref:NameParts"}
    comp_loops = {1: {"acc": "comp1", "elemkind": "ref:NameParts", "cursor": "_i", "invariant": {
        "range": "0 <= _i <= len(as_ref(name, 'list:any')) and fresh(comp1) and len(comp1) == _i",
        "elements": "forall(t, 0 <= t < len(comp1), fresh(comp1[t]) and allocated(comp1[t]))",
        "input-untouched": "len(as_ref(name, 'list:any')) == old(len(as_ref(name, 'list:any')))",
    }, "props": ("C13", "C14")}}
    locals = {"comp1": "list:ref:NameParts"}
    ensures = {
        "C13+C14.one-per-name": "fresh(result) and len(result) == len(as_ref(name, 'list:any')) and forall(i, 0 <= i < len(result), fresh(result[i]))",
    }
    raises = {"ValueError": {"when": "not isinstance(name, list)"}, "InvalidNameError": {"when": None}}
    modifies = []


for _prop in ("merge_last_name_first", "merge_first_name_first"):
    contract(NM + "NameParts." + _prop)(type("_", (), {
        "__doc__": "INTERFACE (assumed here; the merged text is decided by the bounded layer p14 against the inverse-pair law): a str is "
                   "returned, nothing is written, nothing is raised",
        "trusted": True, "sorts": {"self": "ref:NameParts", "result": "str"}, "ensures": {"a-str": "True"}, "raises": {}, "modifies": []}))


@contract(NM + "MergeNameParts._transform_field_value")
class _:
    """a list of NameParts is mapped, element by element and in order, to the merged text of each person in the configured
    style (one str per person); an unknown style -> ValueError; an element that is not a NameParts has no such attribute
    -> AttributeError.  (The guard in front, `not isinstance(name, list) and all(...)`, can only fire for a non-list,
    which is outside this contract: the middleware expects the list SplitNameParts produced.)"""
    sorts = {"self": "ref:MergeNameParts", "name": "any", "result": "list:str"}
    requires = {"a-list": "isinstance(name, list)"}
    comp_loops = {
        1: {"acc": "comp1", "elemkind": "str", "cursor": "_i", "invariant": {
            "range": "0 <= _i <= len(as_ref(name, 'list:any')) and fresh(comp1) and len(comp1) == _i and len(as_ref(name, 'list:any')) == old(len(as_ref(name, 'list:any')))"},
            "props": ("C14",)},
        2: {"acc": "comp2", "elemkind": "str", "cursor": "_i", "invariant": {
            "range": "0 <= _i <= len(as_ref(name, 'list:any')) and fresh(comp2) and len(comp2) == _i and len(as_ref(name, 'list:any')) == old(len(as_ref(name, 'list:any')))"},
            "props": ("C14",)},
    }
    locals = {"comp1": "list:str", "comp2": "list:str"}
    ensures = {"C14.one-per-person": "fresh(result) and len(result) == len(as_ref(name, 'list:any'))"}
    raises = {"ValueError": {"when": "not (isstr(self.style) and (sval(self.style) == 'last' or sval(self.style) == 'first'))"},
              "AttributeError": {"when": None}}
    modifies = []
