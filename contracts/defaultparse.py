"""Exception freedom of the default parse pipeline after the splitter (property C01).

parse_string = split, then ResolveStringReferencesMiddleware (in place), then RemoveEnclosingMiddleware (in place).
split() is proved exception-free in contracts/splitter.py.  Here each of the two default middlewares is proved to
raise nothing under a stated, alias-insensitive precondition on the library -- `parsed_ok`: every Entry / String has
a metadata dict of its own (not one of the library's two indexes), every field value and every @string value (held or
indexed) is a str -- and to re-establish it.
That split()'s output satisfies `parsed_ok` (it does: the handlers build fresh blocks with str values and {} metadata)
is not composed here; the composition is decided by the bounded layer (p01)."""
from pyvc.api import contract, pred

IP = "bibtexparser.middlewares.interpolate."
RE = "bibtexparser.middlewares.enclosing.RemoveEnclosingMiddleware."
BM = "bibtexparser.middlewares.middleware.BlockMiddleware."


# parsed_ok(library) is defined in contracts/library.py (shared with the splitter's contracts)


@contract(IP + "ResolveStringReferencesMiddleware.transform#noraise")
class _:
    """in place: nothing is raised on a library that satisfies parsed_ok, which still holds afterwards (a resolved value
    is the str value of an indexed @string); the library object is returned and its block list is untouched"""
    sorts = {"self": "ref:ResolveStringReferencesMiddleware", "library": "ref:Library", "result": "ref:Library"}
    requires = {"inplace": "self._allow_inplace_modification", "parsed": "parsed_ok(library)"}
    locals = {"resolved_fields": "list:str"}
    loops = {
        1: {"cursor": "_i", "iter_name": "ents", "invariant": {
            "range": "0 <= _i <= len(ents)",
            "structure": "unchanged('Library._blocks') and unchanged('list:ref:Block') and unchanged('Entry._fields') and unchanged('list:ref:Field') and unchanged('String._value') and unchanged('Block._parser_metadata') and unchanged('Library._strings_by_key') and content_unchanged(library._strings_by_key)",
            "parsed": "parsed_ok(library)",
            "entries": "forall(p, 0 <= p < len(ents), exists(b, 0 <= b < len(library._blocks), same(ents[p], library._blocks[b]) and isinstance(library._blocks[b], Entry)))",
        }, "props": ("C01",)},
        2: {"cursor": "_j", "iter_name": "flds", "invariant": {
            "range": "0 <= _j <= len(flds) and 0 <= _i < len(ents) and same(entry, ents[_i]) and same(flds, entry._fields) and fresh(resolved_fields)",
            "structure": "unchanged('Library._blocks') and unchanged('list:ref:Block') and unchanged('Entry._fields') and unchanged('list:ref:Field') and unchanged('String._value') and unchanged('Block._parser_metadata') and unchanged('Library._strings_by_key') and content_unchanged(library._strings_by_key)",
            "parsed": "parsed_ok(library)",
            "entries": "forall(p, 0 <= p < len(ents), exists(b, 0 <= b < len(library._blocks), same(ents[p], library._blocks[b]) and isinstance(library._blocks[b], Entry)))",
        }, "props": ("C01",)},
    }
    ensures = {
        "C01.same-library": "same(result, library) and unchanged('Library._blocks') and unchanged('list:ref:Block')",
        "C01.still-parsed": "parsed_ok(library)",
    }
    raises = {}
    modifies = ["Field._value", "dict:str:any"]


@contract(RE + "transform_entry#noraise")
class _:
    """nothing is raised on an entry whose field values are str and that has a metadata dict; the values stay str
    (whatever aliases what), the entry is returned"""
    sorts = {"self": "ref:RemoveEnclosingMiddleware", "entry": "ref:Entry", "library": "ref:Library", "result": "ref:Entry"}
    requires = {"values-str": "forall(j, 0 <= j < len(entry._fields), isstr(entry._fields[j]._value))", "meta-dict": "not isnone(entry._parser_metadata)"}
    locals = {"metadata": "dict:str:any"}
    loops = {1: {"cursor": "_i", "iter_name": "flds", "invariant": {
        "range": "0 <= _i <= len(entry._fields) and same(flds, entry._fields) and fresh(metadata)",
        "structure": "unchanged('Entry._fields') and unchanged('list:ref:Field') and unchanged('Block._parser_metadata') and unchanged('String._value')",
        "all-str": "forall(f, 'ref:Field', allocated(f) and old(isstr(f._value)), isstr(f._value))",
    }, "props": ("C01",)}}
    ensures = {
        "C01.same-entry": "same(result, entry)",
        "C01.values-stay-str": "forall(f, 'ref:Field', existed(f) and old(isstr(f._value)), isstr(f._value))",
    }
    raises = {}
    modifies = ["Field._value", "@content(entry._parser_metadata)"]


@contract(RE + "transform_string#noraise")
class _:
    sorts = {"self": "ref:RemoveEnclosingMiddleware", "string": "ref:String", "library": "ref:Library", "result": "ref:String"}
    requires = {"value-str": "isstr(string._value)", "meta-dict": "not isnone(string._parser_metadata)"}
    ensures = {"C01.same-string": "same(result, string) and isstr(string._value)"}
    raises = {}
    modifies = ["@string._value", "@content(string._parser_metadata)"]


@contract(BM + "transform#remove-enclosing")
class _:
    """RemoveEnclosingMiddleware (in place) through the inherited BlockMiddleware.transform: nothing is raised on a
    library that satisfies parsed_ok; a fresh Library is returned"""
    sorts = {"self": "ref:RemoveEnclosingMiddleware", "library": "ref:Library", "result": "ref:Library"}
    requires = {"inplace": "self._allow_inplace_modification", "parsed": "parsed_ok(library)"}
    locals = {"blocks": "list:ref:Block"}
    loops = {1: {"cursor": "_i", "invariant": {
        "range": "0 <= _i <= len(library._blocks) and fresh(blocks) and self._allow_inplace_modification",
        "structure": "unchanged('Library._blocks') and unchanged('list:ref:Block') and unchanged('Entry._fields') and unchanged('list:ref:Field') and unchanged('Block._parser_metadata') and unchanged('Library._strings_by_key') and unchanged('Library._entries_by_key')",
        "parsed": "parsed_ok(library)",
        "collected": "forall(t, 0 <= t < len(blocks), allocated(blocks[t]))",
    }, "props": ("C01",)}}
    ensures = {"C01.fresh-library": "fresh(result)"}
    raises = {}
    modifies = ["Field._value", "String._value", "dict:str:any"]


EP = "bibtexparser.entrypoint."


@contract(EP + "_build_parse_stack#both-none")
class _:
    """no stack and no addition given: the default parse stack, both middlewares in place (the same clause as in
    contracts/entrypoint.py, re-proved here because that module also declares the virtual contract of
    Middleware.transform, which this composition must not use)"""
    sorts = {"parse_stack": "none", "append_middleware": "none", "result": "list:ref:Middleware"}
    ensures = {"C20.default-parse-stack": "fresh(result) and len(result) == 2 and cls_is(result[0], 'ResolveStringReferencesMiddleware') and cls_is(result[1], 'RemoveEnclosingMiddleware') and fresh(result[0]) and fresh(result[1]) and allocated(result[0]) and allocated(result[1]) and result[0]._allow_inplace_modification and result[1]._allow_inplace_modification"}
    raises = {}
    modifies = []


@contract(EP + "parse_string#default")
class _:
    """parse_string(text) with the default stack and no target library never raises and returns a Library: split (proved,
    A-RE assumed) establishes parsed_ok, string-reference resolution keeps it, enclosing removal needs it"""
    uses_marks = True
    sorts = {"bibtex_str": "str", "parse_stack": "none", "append_middleware": "none", "library": "none", "result": "ref:Library"}
    locals = {"library": "ref:Library"}
    loops = {1: {"unroll": 2, "props": ("C01",)}}     # the default stack has exactly two middlewares
    ensures = {"C01.returns-library": "allocated(result)"}
    raises = {}
    modifies = ["*"]
