"""Contracts of the string-transformer shell of bibtexparser/middlewares/latex_encoding.py (property C18).

The conversion itself is third-party code (pylatexenc) behind `_transform_python_value_string`; it enters through an
ASSUMED virtual contract (str -> (str, error message), writes nothing).  Proved here: which values the LaTeX
middlewares touch, that str values stay str, that every other value, key, type, raw text and start line is
untouched, and that a reported conversion failure yields a middleware error block holding the original entry /
string instead of an exception.  The round trip decode(encode(t)) == t is decided by the bounded layer (p18)."""
from pyvc.api import contract, pred

LX = "bibtexparser.middlewares.latex_encoding."
PS = LX + "_PyStringTransformerMiddleware."


@contract(PS + "_transform_python_value_string")
class _:
    """ASSUMED abstract contract of the conversion hook (both shipped overrides wrap the third-party converter in a
    try/except and return (text, error message)): a pair of str, nothing written, no exception"""
    virtual = True
    trusted = True
    sorts = {"self": "ref:_PyStringTransformerMiddleware", "python_string": "str", "result": "tuple:str,str"}
    # the result is a FUNCTION of the receiver and the argument: conv(s) = (conv_text(s), conv_err(s)).  This purity is
    # part of the assumption (both shipped hooks call a converter that keeps no state between calls).
    ensures = {"pure-pair-of-str": "result[0] == ufstr('conv_text', self, python_string) and result[1] == ufstr('conv_err', self, python_string)"}
    raises = {}
    modifies = []


@contract(PS + "_transform_all_strings")
class _:
    """maps the hook over a list of str: a fresh list of the same length, one error message appended per element; the
    input list is not modified"""
    sorts = {"self": "ref:_PyStringTransformerMiddleware", "list_of_strings": "list:str", "errors": "list:str", "result": "list:str"}
    requires = {"distinct": "not same(list_of_strings, errors)"}
    loops = {1: {"cursor": "_i", "invariant": {
        "range": "0 <= _i <= len(list_of_strings) and len(list_of_strings) == old(len(list_of_strings))",
        "result": "fresh(res) and len(res) == _i and not same(res, errors) and not same(res, list_of_strings)",
        "errors": "len(errors) == old(len(errors)) + _i and forall(t, 0 <= t < old(len(errors)), errors[t] == old(errors[t]))",
        "input": "forall(t, 0 <= t < len(list_of_strings), list_of_strings[t] == old(list_of_strings[t]))",
        "elementwise": "forall(t, 0 <= t < _i, res[t] == ufstr('conv_text', self, list_of_strings[t]) and errors[old(len(errors)) + t] == ufstr('conv_err', self, list_of_strings[t]))",
    }, "props": ("C18",)}}
    locals = {"res": "list:str"}
    ensures = {
        "C18.same-length": "fresh(result) and len(result) == len(list_of_strings)",
        "C18.errors-appended": "len(errors) == old(len(errors)) + len(list_of_strings) and forall(t, 0 <= t < old(len(errors)), errors[t] == old(errors[t]))",
        "C18.input-untouched": "len(list_of_strings) == old(len(list_of_strings)) and forall(t, 0 <= t < len(list_of_strings), list_of_strings[t] == old(list_of_strings[t]))",
        "C18.elementwise-in-order": "forall(t, 0 <= t < len(result), result[t] == ufstr('conv_text', self, list_of_strings[t]) and errors[old(len(errors)) + t] == ufstr('conv_err', self, list_of_strings[t]))",
    }
    raises = {}
    modifies = ["@content(errors)"]


@contract(PS + "transform_string")
class _:
    """@string: a str value is replaced by the converted str (still a str); any other value is left alone; key, raw and
    start line are untouched; a reported failure gives a fresh MiddlewareErrorBlock holding the String, never an
    exception"""
    sorts = {"self": "ref:_PyStringTransformerMiddleware", "string": "ref:String", "library": "ref:Library", "result": "ref:Block"}
    ensures = {
        "C18.type-kept": "isstr(string._value) == old(isstr(string._value)) and implies(not old(isstr(string._value)), same(string._value, old(string._value)))",
        "C18.identity-untouched": "string._key == old(string._key) and same(string._raw, old(string._raw)) and same(string._start_line_in_file, old(string._start_line_in_file))",
        "C18.contained": "same(result, string) or (cls_is(result, 'MiddlewareErrorBlock') and fresh(result) and same(as_ref(result, 'ref:MiddlewareErrorBlock')._ignore_error_block, string))",
        "C18.converted": "implies(old(isstr(string._value)), sval(string._value) == ufstr('conv_text', self, old(sval(string._value))))",
        "C18.error-block-iff-failure": "implies(old(isstr(string._value)), same(result, string) == (ufstr('conv_err', self, old(sval(string._value))) == ''))",
    }
    raises = {}
    modifies = ["@string._value"]


@pred
def np(v):
    return as_ref(v, 'ref:NameParts')


@pred
def is_np(v):
    return isref(v) and cls_is(as_ref(v, 'ref:NameParts'), 'NameParts')


@contract(PS + "transform_entry")
class _:
    """entry: a str field value is replaced by the converted str (still a str); a NameParts value keeps its identity
    and gets four fresh part lists of the same lengths; every other value, every key, the field list, entry type, key,
    raw and start line are untouched; reported failures give a fresh MiddlewareErrorBlock holding the entry, never an
    exception"""
    sorts = {"self": "ref:_PyStringTransformerMiddleware", "entry": "ref:Entry", "library": "ref:Library", "result": "ref:Block"}
    requires = {"distinct-fields": "forall((i, j), 0 <= i < j < len(entry._fields), not same(entry._fields[i], entry._fields[j]))",
                "parts-allocated": "forall(i, 0 <= i < len(entry._fields), implies(is_np(entry._fields[i]._value), existed(np(entry._fields[i]._value).first) and existed(np(entry._fields[i]._value).von) and existed(np(entry._fields[i]._value).last) and existed(np(entry._fields[i]._value).jr)))"}
    locals = {"errors": "list:str"}
    # ghost: fi = number of fields processed, epos[i] = position in `errors` of the message for str field i
    ghost_code = [("errors = []", [("fi", None, "0")]),
                  ("errors.append(e)", [("epos", "ghost('fi')", "len(errors) - 1"), ("fi", None, "ghost('fi') + 1")]),
                  ("field.value.jr = ", [("fi", None, "ghost('fi') + 1")]),
                  ("logger.info(", [("fi", None, "ghost('fi') + 1")])]
    loops = {1: {"cursor": "_i", "invariant": {
        "range": "0 <= _i <= len(entry._fields) and len(entry._fields) == old(len(entry._fields)) and fresh(errors) and ghost('fi') == _i and len(errors) >= 0",
        "all-empty-if-no-failure": "implies(forall(i, 0 <= i < _i, not old(is_np(entry._fields[i]._value)) and implies(old(isstr(entry._fields[i]._value)), ufstr('conv_err', self, old(sval(entry._fields[i]._value))) == '')), forall(t, 0 <= t < len(errors), errors[t] == ''))",
        "converted": "forall(i, 0 <= i < _i, implies(old(isstr(entry._fields[i]._value)), sval(entry._fields[i]._value) == ufstr('conv_text', self, old(sval(entry._fields[i]._value))) and 0 <= ghost('epos', i) < len(errors) and errors[ghost('epos', i)] == ufstr('conv_err', self, old(sval(entry._fields[i]._value)))))",
        "fields-same": "same(entry._fields, old(entry._fields)) and forall(i, 0 <= i < len(entry._fields), same(entry._fields[i], old(entry._fields[i])) and entry._fields[i]._key == old(entry._fields[i]._key))",
        "values": "forall(i, 0 <= i < len(entry._fields), isstr(entry._fields[i]._value) == old(isstr(entry._fields[i]._value)) and implies(not old(isstr(entry._fields[i]._value)), same(entry._fields[i]._value, old(entry._fields[i]._value))) and implies(i >= _i, same(entry._fields[i]._value, old(entry._fields[i]._value))))",
        "parts-first": "forall(i, 0 <= i < len(entry._fields), implies(is_np(entry._fields[i]._value), len(np(entry._fields[i]._value).first) == old(len(np(entry._fields[i]._value).first)) and allocated(np(entry._fields[i]._value).first) and not same(np(entry._fields[i]._value).first, errors)))",
        "parts-von": "forall(i, 0 <= i < len(entry._fields), implies(is_np(entry._fields[i]._value), len(np(entry._fields[i]._value).von) == old(len(np(entry._fields[i]._value).von)) and allocated(np(entry._fields[i]._value).von) and not same(np(entry._fields[i]._value).von, errors)))",
        "parts-last": "forall(i, 0 <= i < len(entry._fields), implies(is_np(entry._fields[i]._value), len(np(entry._fields[i]._value).last) == old(len(np(entry._fields[i]._value).last)) and allocated(np(entry._fields[i]._value).last) and not same(np(entry._fields[i]._value).last, errors)))",
        "parts-jr": "forall(i, 0 <= i < len(entry._fields), implies(is_np(entry._fields[i]._value), len(np(entry._fields[i]._value).jr) == old(len(np(entry._fields[i]._value).jr)) and allocated(np(entry._fields[i]._value).jr) and not same(np(entry._fields[i]._value).jr, errors)))",
    }, "props": ("C18",)}}
    ensures = {
        "C18.scope": "same(entry._fields, old(entry._fields)) and len(entry._fields) == old(len(entry._fields)) and forall(i, 0 <= i < len(entry._fields), same(entry._fields[i], old(entry._fields[i])) and entry._fields[i]._key == old(entry._fields[i]._key))",
        "C18.type-kept": "forall(i, 0 <= i < len(entry._fields), isstr(entry._fields[i]._value) == old(isstr(entry._fields[i]._value)) and implies(not old(isstr(entry._fields[i]._value)), same(entry._fields[i]._value, old(entry._fields[i]._value))))",
        "C18.name-parts-shape": "forall(i, 0 <= i < len(entry._fields), implies(is_np(entry._fields[i]._value), len(np(entry._fields[i]._value).first) == old(len(np(entry._fields[i]._value).first)) and len(np(entry._fields[i]._value).last) == old(len(np(entry._fields[i]._value).last))))",
        "C18.identity-untouched": "entry._key == old(entry._key) and entry._entry_type == old(entry._entry_type) and same(entry._raw, old(entry._raw)) and same(entry._start_line_in_file, old(entry._start_line_in_file))",
        "C18.contained": "same(result, entry) or (cls_is(result, 'MiddlewareErrorBlock') and fresh(result) and same(as_ref(result, 'ref:MiddlewareErrorBlock')._ignore_error_block, entry))",
        "C18.converted": "forall(i, 0 <= i < len(entry._fields), implies(old(isstr(entry._fields[i]._value)), sval(entry._fields[i]._value) == ufstr('conv_text', self, old(sval(entry._fields[i]._value)))))",
        "C18.no-failure-no-error-block": "implies(forall(i, 0 <= i < len(entry._fields), not old(is_np(entry._fields[i]._value)) and implies(old(isstr(entry._fields[i]._value)), ufstr('conv_err', self, old(sval(entry._fields[i]._value))) == '')), same(result, entry))",
        "C18.failure-never-ignored": "implies(same(result, entry), forall(i, 0 <= i < len(entry._fields), implies(old(isstr(entry._fields[i]._value)), ufstr('conv_err', self, old(sval(entry._fields[i]._value))) == '')))",
    }
    raises = {}
    modifies = ["Field._value", "NameParts.first", "NameParts.von", "NameParts.last", "NameParts.jr", "ghost:fi:int", "ghost:epos:arr"]


# ---- the two shipped conversion hooks ---------------------------------------------------------------------------------
# Their converter objects are third-party (pylatexenc): attributes of kind 'ext'; a call of their conversion method is
# ASSUMED (A-EXT) to return a str or raise some Exception and to write nothing the repository's objects can see.
from pyvc.api import schema, external_method  # noqa: E402

schema({"LatexEncodingMiddleware": {"_encoder": "ext"}, "LatexDecodingMiddleware": {"_decoder": "ext"}})
external_method("unicode_to_latex", "str")
external_method("latex_to_text", "str")

_HOOK_ENSURES = {
    "C18.failure-keeps-text": "result[1] == '' or result[0] == python_string",
}
_HOOK_PATH = {
    "C18.failure-has-message": ("ext.", "len(result[1]) > 0 and result[0] == python_string"),
}


@contract(LX + "LatexEncodingMiddleware._transform_python_value_string")
class _:
    """whatever exception the third-party encoder raises is turned into (the unchanged text, a NON-EMPTY message);
    nothing is raised, nothing is written"""
    sorts = {"self": "ref:LatexEncodingMiddleware", "python_string": "str", "result": "tuple:str,str"}
    ensures = dict(_HOOK_ENSURES)
    path_ensures = dict(_HOOK_PATH)
    raises = {}
    modifies = []


@contract(LX + "LatexDecodingMiddleware._transform_python_value_string")
class _:
    """as for the encoder"""
    sorts = {"self": "ref:LatexDecodingMiddleware", "python_string": "str", "result": "tuple:str,str"}
    ensures = dict(_HOOK_ENSURES)
    path_ensures = dict(_HOOK_PATH)
    raises = {}
    modifies = []
