"""Contracts of bibtexparser/middlewares/enclosing.py (property C10; used by C01, C05, C07, C11)."""
from pyvc.api import contract, pred, lemma

RE = "bibtexparser.middlewares.enclosing.RemoveEnclosingMiddleware."
AE = "bibtexparser.middlewares.enclosing.AddEnclosingMiddleware."


@pred
def has_pair(w, o, c):
    """w is o + inner + c: at least two characters, the first is the opening and the last the closing one"""
    return len(w) >= 2 and w[0] == o and w[len(w) - 1] == c


@pred
def inner(w):
    return w[1:len(w) - 1]


@pred
def strip_kind(w):
    """which enclosing the (already whitespace-stripped) text w has -- from the property statement"""
    return '{' if has_pair(w, '{', '}') else ('"' if has_pair(w, '"', '"') else 'no-enclosing')


@pred
def strip_text(w):
    return inner(w) if (has_pair(w, '{', '}') or has_pair(w, '"', '"')) else w


@pred
def enclose_with(e, s):
    return '{' + s + '}' if e == '{' else ('"' + s + '"' if e == '"' else s)


@contract(RE + "_strip_enclosing")
class _:
    """strips exactly one outer {...} or "..." pair of the whitespace-stripped value (nothing if there is
    none) and says which"""
    sorts = {"value": "str", "result": "tuple:str,str"}
    ensures = {
        "C10.kind": "result[1] == strip_kind(value.strip())",
        "C10.text": "result[0] == strip_text(value.strip())",
        "C10.one-layer": "enclose_with(result[1], result[0]) == value.strip()",
    }
    raises = {}
    modifies = []
    allocates = False


@contract(AE + "__init__")
class _:
    sorts = {"self": "ref:AddEnclosingMiddleware", "reuse_previous_enclosing": "bool", "enclose_integers": "bool",
             "default_enclosing": "str", "allow_inplace_modification": "bool"}
    ensures = {"C10.init": "self._default_enclosing == default_enclosing and self._reuse_previous_enclosing == reuse_previous_enclosing and self._enclose_integers == enclose_integers and self._allow_inplace_modification == allow_inplace_modification",
               "C10.init-valid": "self._default_enclosing == '{' or self._default_enclosing == '\"'"}
    raises = {"ValueError": {"when": "not (default_enclosing == '{' or default_enclosing == '\"')"}}
    modifies = ["@self._default_enclosing", "@self._reuse_previous_enclosing", "@self._enclose_integers",
                "@self._allow_inplace_modification", "@self._allow_parallel_execution"]


@pred
def is_intlike(value):
    """an int, or a str for which str.isdigit() holds -- 'integer values (digit strings or ints)'"""
    return isint(value) or (isstr(value) and sval(value).isdigit())


@contract(AE + "_enclose")
class _:
    """reuse restores the recorded enclosing; numeric rule leaves int-like values unenclosed iff configured,
    without error; otherwise the default enclosing is added"""
    sorts = {"self": "ref:AddEnclosingMiddleware", "value": "any", "metadata_enclosing": "any", "apply_int_rule": "bool", "result": "any"}
    requires = {"default-valid": "self._default_enclosing == '{' or self._default_enclosing == '\"'",
                "value-kind": "isstr(value) or isint(value)",
                "meta-kind": "isnone(metadata_enclosing) or isstr(metadata_enclosing)"}
    ensures = {
        "C10.reuse": "implies(self._reuse_previous_enclosing and isstr(metadata_enclosing) and sval(metadata_enclosing) != 'no-enclosing', isstr(result) and sval(result) == enclose_with(sval(metadata_enclosing), str_of(value)))",
        "C10.reuse-none": "implies(self._reuse_previous_enclosing and isstr(metadata_enclosing) and sval(metadata_enclosing) == 'no-enclosing', same(result, value))",
        "C10.int-rule": "implies(not (self._reuse_previous_enclosing and isstr(metadata_enclosing)) and apply_int_rule and not self._enclose_integers and is_intlike(value), same(result, value))",
        "C10.default": "implies(not (self._reuse_previous_enclosing and isstr(metadata_enclosing)) and not (apply_int_rule and not self._enclose_integers and is_intlike(value)), isstr(result) and sval(result) == enclose_with(self._default_enclosing, str_of(value)))",
    }
    raises = {"ValueError": {"when": "self._reuse_previous_enclosing and isstr(metadata_enclosing) and not (sval(metadata_enclosing) == '{' or sval(metadata_enclosing) == '\"' or sval(metadata_enclosing) == 'no-enclosing')"}}
    modifies = []
    allocates = True


lemma("C10.reuse-restores",
      doc="strip followed by enclose-with-the-recorded-kind gives back the stripped original (two-contract lemma)",
      vars={"v": "str"},
      ensures="enclose_with(strip_kind(v.strip()), strip_text(v.strip())) == v.strip()",
      props=("C10",))

lemma("C10.default-then-strip",
      doc="a brace-enclosed value strips back to the value and records '{' (used by C05: write then re-parse)",
      vars={"v": "str"},
      requires=["v.strip() == v"],
      ensures="strip_kind(('{' + v + '}').strip()) == '{' and strip_text(('{' + v + '}').strip()) == v",
      props=("C10", "C05"))


@pred
def distinct_fields(entry):
    return forall((a, b), 0 <= a < b < len(entry._fields), not same(entry._fields[a], entry._fields[b]))


@pred
def distinct_field_keys(entry):
    return forall((a, b), 0 <= a < b < len(entry._fields), entry._fields[a]._key != entry._fields[b]._key)


@contract(RE + "transform_string")
class _:
    sorts = {"self": "ref:RemoveEnclosingMiddleware", "string": "ref:String", "library": "ref:Library", "result": "ref:String"}
    requires = {"value-str": "isstr(string._value)", "meta-dict": "not isnone(string._parser_metadata)"}
    ensures = {
        "C10.string-stripped": "isstr(string._value) and sval(string._value) == strip_text(sval(old(string._value)).strip())",
        "C10.string-recorded": "string._parser_metadata['removed_enclosing'] == strip_kind(sval(old(string._value)).strip())",
        "C10.same-block": "same(result, string)",
        "C10.key-untouched": "string._key == old(string._key)",
    }
    raises = {}
    modifies = ["@string._value", "@content(string._parser_metadata)"]


@contract(RE + "transform_entry")
class _:
    """every field value loses exactly one enclosing layer; the removed kind is recorded per field key"""
    sorts = {"self": "ref:RemoveEnclosingMiddleware", "entry": "ref:Entry", "library": "ref:Library", "result": "ref:Entry"}
    requires = {"values-str": "forall(j, 0 <= j < len(entry._fields), isstr(entry._fields[j]._value))",
                "distinct-fields": "distinct_fields(entry)", "distinct-keys": "distinct_field_keys(entry)", "meta-dict": "not isnone(entry._parser_metadata)"}
    locals = {"metadata": "dict:str:any"}
    loops = {1: {"cursor": "_i", "iter_name": "flds",
                 "invariant": {
                     "range": "0 <= _i <= len(entry._fields) and same(flds, entry._fields)",
                     "list-unchanged": "unchanged('Entry._fields') and unchanged('list:ref:Field') and unchanged('Field._key')",
                     "done": "forall(j, 0 <= j < _i, isstr(entry._fields[j]._value) and sval(entry._fields[j]._value) == strip_text(sval(old(entry._fields[j]._value)).strip()))",
                     "todo": "forall(j, _i <= j < len(entry._fields), same(entry._fields[j]._value, old(entry._fields[j]._value)))",
                     "meta": "forall(j, 0 <= j < _i, entry._fields[j]._key in metadata and metadata[entry._fields[j]._key] == strip_kind(sval(old(entry._fields[j]._value)).strip()))",
                     "meta-fresh": "fresh(metadata)",
                 },
                 "props": ("C10",)}}
    ensures = {
        "C10.fields-stripped": "forall(j, 0 <= j < len(entry._fields), isstr(entry._fields[j]._value) and sval(entry._fields[j]._value) == strip_text(sval(old(entry._fields[j]._value)).strip()))",
        "C10.fields-recorded": "forall(j, 0 <= j < len(entry._fields), as_ref(entry._parser_metadata['removed_enclosing'], 'dict:str:any')[entry._fields[j]._key] == strip_kind(sval(old(entry._fields[j]._value)).strip()))",
        "C10.same-entry": "same(result, entry)",
        "C10.keys-untouched": "unchanged('Field._key') and unchanged('Entry._fields') and unchanged('list:ref:Field') and unchanged('Entry._key') and unchanged('Entry._entry_type')",
    }
    raises = {}
    modifies = ["Field._value", "@content(entry._parser_metadata)"]


@contract(AE + "transform_string")
class _:
    sorts = {"self": "ref:AddEnclosingMiddleware", "string": "ref:String", "result": "ref:String"}
    requires = {"default-valid": "self._default_enclosing == '{' or self._default_enclosing == '\"'",
                "value-kind": "isstr(string._value) or isint(string._value)", "meta-dict": "not isnone(string._parser_metadata)",
                "meta-kind": "not ('removed_enclosing' in string._parser_metadata) or isstr(string._parser_metadata['removed_enclosing'])",
                "meta-valid": "not ('removed_enclosing' in string._parser_metadata) or sval(string._parser_metadata['removed_enclosing']) == '{' or sval(string._parser_metadata['removed_enclosing']) == '\"' or sval(string._parser_metadata['removed_enclosing']) == 'no-enclosing'"}
    ensures = {
        "C10.string-reuse": "implies(self._reuse_previous_enclosing and 'removed_enclosing' in string._parser_metadata and sval(string._parser_metadata['removed_enclosing']) != 'no-enclosing', isstr(string._value) and sval(string._value) == enclose_with(sval(string._parser_metadata['removed_enclosing']), str_of(old(string._value))))",
        "C10.string-reuse-none": "implies(self._reuse_previous_enclosing and 'removed_enclosing' in string._parser_metadata and sval(string._parser_metadata['removed_enclosing']) == 'no-enclosing', same(string._value, old(string._value)))",
        "C10.string-default": "implies(not (self._reuse_previous_enclosing and 'removed_enclosing' in string._parser_metadata), isstr(string._value) and sval(string._value) == enclose_with(self._default_enclosing, str_of(old(string._value))))",
        "C10.same-block": "same(result, string)",
    }
    raises = {}
    modifies = ["@string._value"]


@pred
def rec_meta(entry):
    """the per-field record left by RemoveEnclosingMiddleware (a dict held in parser_metadata), if any"""
    return as_ref(entry._parser_metadata['removed_enclosing'], 'dict:str:any')


@pred
def field_meta_ok(entry):
    return implies('removed_enclosing' in entry._parser_metadata,
                   cls_is(entry._parser_metadata['removed_enclosing'], 'dict')
                   and forall(j, 0 <= j < len(entry._fields),
                              implies(entry._fields[j]._key in rec_meta(entry),
                                      isstr(rec_meta(entry)[entry._fields[j]._key])
                                      and (sval(rec_meta(entry)[entry._fields[j]._key]) == '{'
                                           or sval(rec_meta(entry)[entry._fields[j]._key]) == '"'
                                           or sval(rec_meta(entry)[entry._fields[j]._key]) == 'no-enclosing'))))


@pred
def enclosed_value(self, entry, j, had_meta, meta, v):
    """the value AddEnclosing must leave in field j whose old value is v (property C10)"""
    return (enclose_with(sval(meta[entry._fields[j]._key]), str_of(v))
            if (self._reuse_previous_enclosing and had_meta and entry._fields[j]._key in meta and sval(meta[entry._fields[j]._key]) != 'no-enclosing')
            else enclose_with(self._default_enclosing, str_of(v)))


@pred
def stays_raw(self, entry, j, had_meta, meta, v):
    """field j keeps its value object: recorded 'no-enclosing' under reuse, or the integer rule applies"""
    return ((self._reuse_previous_enclosing and had_meta and entry._fields[j]._key in meta and sval(meta[entry._fields[j]._key]) == 'no-enclosing')
            or (not (self._reuse_previous_enclosing and had_meta and entry._fields[j]._key in meta)
                and entry._fields[j]._key in ("year", "month", "volume", "number", "pages", "edition", "chapter", "issue")
                and not self._enclose_integers and is_intlike(v)))


@contract(AE + "transform_entry")
class _:
    """every field value is re-enclosed: with the recorded kind under reuse (restoring the original), else
    with the default; int-like values of numeric fields stay unenclosed iff configured; the record is consumed"""
    sorts = {"self": "ref:AddEnclosingMiddleware", "entry": "ref:Entry", "result": "ref:Entry"}
    requires = {"default-valid": "self._default_enclosing == '{' or self._default_enclosing == '\"'",
                "values-kind": "forall(j, 0 <= j < len(entry._fields), isstr(entry._fields[j]._value) or isint(entry._fields[j]._value))",
                "distinct-fields": "distinct_fields(entry)",
                "meta-dict": "not isnone(entry._parser_metadata)",
                "meta-ok": "field_meta_ok(entry)"}
    loops = {1: {"cursor": "_i", "iter_name": "flds",
                 "invariant": {
                     "range": "0 <= _i <= len(entry._fields) and same(flds, entry._fields)",
                     "list-unchanged": "unchanged('Entry._fields') and unchanged('list:ref:Field') and unchanged('Field._key')",
                     "meta-var": "(isnone(metadata_enclosing) and not old('removed_enclosing' in entry._parser_metadata)) or (old('removed_enclosing' in entry._parser_metadata) and same(metadata_enclosing, old(entry._parser_metadata['removed_enclosing'])))",
                     "meta-content": "unchanged('dict:str:any') or True",
                     "done-raw": "forall(j, 0 <= j < _i, implies(stays_raw(self, entry, j, old('removed_enclosing' in entry._parser_metadata), old(rec_meta(entry)), old(entry._fields[j]._value)), same(entry._fields[j]._value, old(entry._fields[j]._value))))",
                     "done-enc": "forall(j, 0 <= j < _i, implies(not stays_raw(self, entry, j, old('removed_enclosing' in entry._parser_metadata), old(rec_meta(entry)), old(entry._fields[j]._value)), isstr(entry._fields[j]._value) and sval(entry._fields[j]._value) == enclosed_value(self, entry, j, old('removed_enclosing' in entry._parser_metadata), old(rec_meta(entry)), old(entry._fields[j]._value))))",
                     "todo": "forall(j, _i <= j < len(entry._fields), same(entry._fields[j]._value, old(entry._fields[j]._value)))",
                 },
                 "props": ("C10",)}}
    ensures = {
        "C10.entry-raw": "forall(j, 0 <= j < len(entry._fields), implies(stays_raw(self, entry, j, old('removed_enclosing' in entry._parser_metadata), old(rec_meta(entry)), old(entry._fields[j]._value)), same(entry._fields[j]._value, old(entry._fields[j]._value))))",
        "C10.entry-enclosed": "forall(j, 0 <= j < len(entry._fields), implies(not stays_raw(self, entry, j, old('removed_enclosing' in entry._parser_metadata), old(rec_meta(entry)), old(entry._fields[j]._value)), isstr(entry._fields[j]._value) and sval(entry._fields[j]._value) == enclosed_value(self, entry, j, old('removed_enclosing' in entry._parser_metadata), old(rec_meta(entry)), old(entry._fields[j]._value))))",
        "C10.same-entry": "same(result, entry)",
        "C10.keys-untouched": "unchanged('Field._key') and unchanged('Entry._fields') and unchanged('list:ref:Field') and unchanged('Entry._key') and unchanged('Entry._entry_type')",
    }
    raises = {}
    modifies = ["Field._value", "@content(entry._parser_metadata)"]
