"""Contracts of bibtexparser/middlewares/enclosing.py (property C10; used by C01, C05, C07, C11)."""
from pyvc.api import contract, pred, lemma

RE = "bibtexparser.middlewares.enclosing.RemoveEnclosingMiddleware."
AE = "bibtexparser.middlewares.enclosing.AddEnclosingMiddleware."


@pred
def has_pair(w, o, c):
    """w is o + inner + c: at least two characters, the first is the opening and the last the closing one"""
    return len(w) >= 2 and w[0] == o and w[len(w) - 1] == c


@pred
def inner(w):
    return w[1:len(w) - 1]


@pred
def strip_kind(w):
    """which enclosing the (already whitespace-stripped) text w has -- from the property statement"""
    return '{' if has_pair(w, '{', '}') else ('"' if has_pair(w, '"', '"') else 'no-enclosing')


@pred
def strip_text(w):
    return inner(w) if (has_pair(w, '{', '}') or has_pair(w, '"', '"')) else w


@pred
def enclose_with(e, s):
    return '{' + s + '}' if e == '{' else ('"' + s + '"' if e == '"' else s)


@contract(RE + "_strip_enclosing")
class _:
    """strips exactly one outer {...} or "..." pair of the whitespace-stripped value (nothing if there is
    none) and says which"""
    sorts = {"value": "str", "result": "tuple:str,str"}
    ensures = {
        "C10.kind": "result[1] == strip_kind(value.strip())",
        "C10.text": "result[0] == strip_text(value.strip())",
        "C10.one-layer": "enclose_with(result[1], result[0]) == value.strip()",
    }
    raises = {}
    modifies = []
    allocates = False


@contract(AE + "__init__")
class _:
    sorts = {"self": "ref:AddEnclosingMiddleware", "reuse_previous_enclosing": "bool", "enclose_integers": "bool",
             "default_enclosing": "str", "allow_inplace_modification": "bool"}
    ensures = {"C10.init": "self._default_enclosing == default_enclosing and self._reuse_previous_enclosing == reuse_previous_enclosing and self._enclose_integers == enclose_integers and self._allow_inplace_modification == allow_inplace_modification",
               "C10.init-valid": "self._default_enclosing == '{' or self._default_enclosing == '\"'"}
    raises = {"ValueError": {"when": "not (default_enclosing == '{' or default_enclosing == '\"')"}}
    modifies = ["@self._default_enclosing", "@self._reuse_previous_enclosing", "@self._enclose_integers",
                "@self._allow_inplace_modification", "@self._allow_parallel_execution"]


@pred
def is_intlike(value):
    """an int, or a str for which str.isdigit() holds -- 'integer values (digit strings or ints)'"""
    return isint(value) or (isstr(value) and sval(value).isdigit())


@contract(AE + "_enclose")
class _:
    """reuse restores the recorded enclosing; numeric rule leaves int-like values unenclosed iff configured,
    without error; otherwise the default enclosing is added"""
    sorts = {"self": "ref:AddEnclosingMiddleware", "value": "any", "metadata_enclosing": "any", "apply_int_rule": "bool", "result": "any"}
    requires = {"default-valid": "self._default_enclosing == '{' or self._default_enclosing == '\"'",
                "value-kind": "isstr(value) or isint(value)",
                "meta-kind": "isnone(metadata_enclosing) or isstr(metadata_enclosing)"}
    ensures = {
        "C10.reuse": "implies(self._reuse_previous_enclosing and isstr(metadata_enclosing) and sval(metadata_enclosing) != 'no-enclosing', isstr(result) and sval(result) == enclose_with(sval(metadata_enclosing), str_of(value)))",
        "C10.reuse-none": "implies(self._reuse_previous_enclosing and isstr(metadata_enclosing) and sval(metadata_enclosing) == 'no-enclosing', result == value)",
        "C10.int-rule": "implies(not (self._reuse_previous_enclosing and isstr(metadata_enclosing)) and apply_int_rule and not self._enclose_integers and is_intlike(value), result == value)",
        "C10.default": "implies(not (self._reuse_previous_enclosing and isstr(metadata_enclosing)) and not (apply_int_rule and not self._enclose_integers and is_intlike(value)), isstr(result) and sval(result) == enclose_with(self._default_enclosing, str_of(value)))",
    }
    raises = {"ValueError": {"when": "self._reuse_previous_enclosing and isstr(metadata_enclosing) and not (sval(metadata_enclosing) == '{' or sval(metadata_enclosing) == '\"' or sval(metadata_enclosing) == 'no-enclosing')"}}
    modifies = []
    allocates = True


lemma("C10.reuse-restores",
      doc="strip followed by enclose-with-the-recorded-kind gives back the stripped original (two-contract lemma)",
      vars={"v": "str"},
      ensures="enclose_with(strip_kind(v.strip()), strip_text(v.strip())) == v.strip()",
      props=("C10",))

lemma("C10.default-then-strip",
      doc="a brace-enclosed value strips back to the value and records '{' (used by C05: write then re-parse)",
      vars={"v": "str"},
      requires=["v.strip() == v"],
      ensures="strip_kind(('{' + v + '}').strip()) == '{' and strip_text(('{' + v + '}').strip()) == v",
      props=("C10", "C05"))
