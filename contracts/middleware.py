"""Contracts of the middleware core, bibtexparser/middlewares/middleware.py (property C07: copy mode never mutates).

`BlockMiddleware.transform_block` deep-copies the block before handing it to the per-type hook unless in-place
modification is allowed.  The hooks are user-overridable; they enter through ASSUMED virtual contracts that state the
locality rule every shipped hook follows and the documentation asks of user hooks: *a hook writes only into the block
it is given* (and objects it allocates).  Together with A-COPY (everything reachable from a deep copy was allocated
by the copy) this is stated as a bounded footprint: given a block allocated after the ghost mark `base`, the hook
writes nothing below `base`.  `base` is set by ghost code to the allocation pointer at entry of transform_block.

Proved from that: in copy mode transform_block (and transform, which calls it per block) modify no object that
existed when they were called -- the `modifies` clause of the copy-mode variants is empty, so the frame obligations
are exactly "the input library, its blocks, fields, values and metadata are what they were"."""
from pyvc.api import contract, pred

MW = "bibtexparser.middlewares.middleware."
BM = MW + "BlockMiddleware."

HOOK_DOC = ("ASSUMED abstract contract of the per-type hook: it may return anything and raise anything, and -- given a block "
            "allocated after the ghost mark `base` (a deep copy) -- it writes only into objects allocated after that mark; "
            "it returns what the documentation allows: None, a Block, or a list / tuple")


@pred
def result_shape(r):
    """what the documentation allows a hook to return: None, a Block, or a list / tuple (of blocks)"""
    return isnone(r) or (isref(r) and allocated(as_ref(r, 'ref:Block')) and (isinstance(r, Block) or isinstance(r, list) or isinstance(r, tuple))
                        and implies(isinstance(r, list) or isinstance(r, tuple),
                                    forall(q, 0 <= q < len(as_ref(r, 'list:any')), implies(isref(as_ref(r, 'list:any')[q]), allocated(as_ref(as_ref(r, 'list:any')[q], 'ref:Block'))))))


def _hook(argname, cls):
    return {
        "__doc__": HOOK_DOC, "virtual": True, "trusted": True,
        "sorts": {"self": "ref:BlockMiddleware", argname: "ref:" + cls, "library": "ref:Library", "result": "any"},
        "requires": {"copy-given": "ref_id(%s) >= ghost('base')" % argname},
        "ensures": {"documented-result": "result_shape(result)"},
        "raises": {"Exception": {"when": None, "frame": False}},
        "modifies": ["*above:base"],
    }


for _name, _arg, _cls in (("transform_entry", "entry", "Entry"), ("transform_string", "string", "String"),
                          ("transform_preamble", "preamble", "Preamble"),
                          ("transform_explicit_comment", "explicit_comment", "ExplicitComment"),
                          ("transform_implicit_comment", "implicit_comment", "ImplicitComment")):
    contract(BM + _name)(type("_", (), _hook(_arg, _cls)))


@contract(BM + "transform_block#copy")
class _:
    """copy mode: the hook receives a fresh deep copy, never the block itself; no object that existed at the call is
    modified (empty footprint: every frame obligation is a clause of C07); a block of a type without a hook comes back
    as its copy"""
    sorts = {"self": "ref:BlockMiddleware", "block": "ref:Block", "library": "ref:Library", "result": "any"}
    requires = {"copy-mode": "not self._allow_inplace_modification"}
    ghost_code = [("block = block if self.allow_inplace_modification else deepcopy(block)", [("base", None, "ALLOC0()")])]
    ensures = {
        "C07.result-shape": "result_shape(result)",
        "C07.unknown-type-is-copied": "implies(not (cls_is(block, 'Entry') or cls_is(block, 'String') or cls_is(block, 'Preamble') or cls_is(block, 'ExplicitComment') or cls_is(block, 'ImplicitComment')), isref(result) and ref_id(as_ref(result, 'ref:Block')) >= ALLOC0())",
    }
    raises = {"Exception": {"when": None}}
    modifies = ["ghost:base:int"]


@contract(BM + "transform#copy")
class _:
    """copy mode: a fresh Library is returned and no object that existed at the call is modified -- the input library,
    its block list and indexes, every block, field, value and metadata object are what they were (empty footprint:
    the frame obligations are the clauses of C07 for every BlockMiddleware-based middleware)"""
    sorts = {"self": "ref:BlockMiddleware", "library": "ref:Library", "result": "ref:Library"}
    requires = {"copy-mode": "not self._allow_inplace_modification",
                "library-exists": "forall(i, 0 <= i < len(library._blocks), existed(library._blocks[i]))"}
    locals = {"blocks": "list:ref:Block"}
    loops = {1: {"cursor": "_i", "invariant": {
        "range": "0 <= _i <= len(library._blocks) and fresh(blocks)",
        "input-untouched": "same(library._blocks, old(library._blocks)) and len(library._blocks) == old(len(library._blocks)) and forall(i, 0 <= i < len(library._blocks), same(library._blocks[i], old(library._blocks[i])))",
        "collected-exist": "forall(t, 0 <= t < len(blocks), allocated(blocks[t])) and self._allow_inplace_modification == old(self._allow_inplace_modification)",
    }, "props": ("C07",)},
        2: {"cursor": "_j", "invariant": {"items-checked": "0 <= _j and forall(q, 0 <= q < _j, isref(as_ref(transformed, 'list:any')[q]) and isinstance(as_ref(transformed, 'list:any')[q], Block))"},
            "props": ("C07",)}}
    ensures = {"C07.fresh-library": "fresh(result)"}
    raises = {"Exception": {"when": None}}
    modifies = ["ghost:base:int"]
