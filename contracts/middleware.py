"""Contracts of the middleware core, bibtexparser/middlewares/middleware.py (property C07: copy mode never mutates).

`BlockMiddleware.transform_block` deep-copies the block before handing it to the per-type hook unless in-place
modification is allowed.  The hooks are user-overridable; they enter through ASSUMED virtual contracts that state the
locality rule every shipped hook follows and the documentation asks of user hooks: *a hook writes only into the block
it is given* (and objects it allocates).  Together with A-COPY (everything reachable from a deep copy was allocated
by the copy) this is stated as a bounded footprint: given a block allocated after the ghost mark `base`, the hook
writes nothing below `base`.  `base` is set by ghost code to the allocation pointer at entry of transform_block.

Proved from that: in copy mode transform_block (and transform, which calls it per block) modify no object that
existed when they were called -- the `modifies` clause of the copy-mode variants is empty, so the frame obligations
are exactly "the input library, its blocks, fields, values and metadata are what they were"."""
from pyvc.api import contract, pred

MW = "bibtexparser.middlewares.middleware."
BM = MW + "BlockMiddleware."

HOOK_DOC = ("ASSUMED abstract contract of the per-type hook: it may return anything and raise anything, and -- given a block "
            "allocated after the ghost mark `base` (a deep copy) -- it writes only into objects allocated after that mark; "
            "it returns what the documentation allows: None, a Block, or a list / tuple")


@pred
def not_a_collection(r):
    """an illegal result that is no collection at all: a bool, an int, an object of a class that is not a Block"""
    return not isnone(r) and not isinstance(r, Collection) and not (isref(r) and isinstance(r, Block))


@pred
def result_shape(r):
    """what a hook returns: what the documentation allows -- None, a Block, or a list / tuple (of anything: its items are
    checked by the code) -- or an illegal value that is not a collection (False, 0, an arbitrary object; falsy or not).
    Not covered by the contracts: str / set / dict results (bounded layer of C20: '', 'x')"""
    return isnone(r) or not_a_collection(r) or (isref(r) and allocated(as_ref(r, 'ref:Block')) and (isinstance(r, Block) or isinstance(r, list) or isinstance(r, tuple))
                        and implies(isinstance(r, list) or isinstance(r, tuple), len(as_ref(r, 'list:any')) >= 0)
                        and implies(isinstance(r, list) or isinstance(r, tuple),
                                    forall(q, 0 <= q < len(as_ref(r, 'list:any')), implies(isref(as_ref(r, 'list:any')[q]), allocated(as_ref(as_ref(r, 'list:any')[q], 'ref:Block'))))))


def _hook(argname, cls):
    return {
        "__doc__": HOOK_DOC, "virtual": True, "trusted": True,
        "sorts": {"self": "ref:BlockMiddleware", argname: "ref:" + cls, "library": "ref:Library", "result": "any"},
        "requires": {"copy-given": "ref_id(%s) >= ghost('base')" % argname},
        "ensures": {"documented-result": "result_shape(result)"},
        "raises": {"Exception": {"when": None, "frame": False}},
        "modifies": ["*above:base"],
    }


for _name, _arg, _cls in (("transform_entry", "entry", "Entry"), ("transform_string", "string", "String"),
                          ("transform_preamble", "preamble", "Preamble"),
                          ("transform_explicit_comment", "explicit_comment", "ExplicitComment"),
                          ("transform_implicit_comment", "implicit_comment", "ImplicitComment")):
    contract(BM + _name)(type("_", (), _hook(_arg, _cls)))


@contract(BM + "transform_block#copy")
class _:
    """copy mode: the hook receives a fresh deep copy, never the block itself; no object that existed at the call is
    modified (empty footprint: every frame obligation is a clause of C07); a block of a type without a hook comes back
    as its copy"""
    sorts = {"self": "ref:BlockMiddleware", "block": "ref:Block", "library": "ref:Library", "result": "any"}
    requires = {"copy-mode": "not self._allow_inplace_modification"}
    ghost_code = [("block = block if self.allow_inplace_modification else deepcopy(block)", [("base", None, "ALLOC0()")])]
    ensures = {
        "C07.result-shape": "result_shape(result)",
        "C07.unknown-type-is-copied": "implies(not (cls_is(block, 'Entry') or cls_is(block, 'String') or cls_is(block, 'Preamble') or cls_is(block, 'ExplicitComment') or cls_is(block, 'ImplicitComment')), isref(result) and ref_id(as_ref(result, 'ref:Block')) >= ALLOC0())",
    }
    raises = {"Exception": {"when": None}}
    modifies = ["ghost:base:int"]


@pred
def out_count(i):
    """number of blocks the hook result for input block i contributes: 0 for None, 1 for a Block, its length for a list / tuple"""
    return 0 if ghost('hk', i) == 0 else (1 if ghost('hk', i) == 1 else ghost('hl', i))


@contract(BM + "transform#copy")
class _:
    """copy mode: a fresh Library is returned and no object that existed at the call is modified -- the input library,
    its block list and indexes, every block, field, value and metadata object are what they were (empty footprint:
    the frame obligations are the clauses of C07 for every BlockMiddleware-based middleware).

    Splice protocol (C20): ghost code records, per input block i, the kind of the hook result (hk: 0 None, 1 Block,
    2 list / tuple; hres is the kind read off the result itself -- 3 for a value that is neither None, a Block nor a
    collection, falsy or not -- and hk == hres, so a normal return means no result of kind 3: those raise), its length (hl) and the position (so) at
    which its outputs start in the collected list.  The
    outputs of input 0, 1, 2, ... follow each other without gaps in input order, None contributes nothing, a Block
    exactly itself, a collection exactly len(collection) blocks; the returned library holds exactly the collected
    blocks in that order (a block whose key is already taken comes wrapped, Library(blocks))."""
    sorts = {"self": "ref:BlockMiddleware", "library": "ref:Library", "result": "ref:Library"}
    requires = {"copy-mode": "not self._allow_inplace_modification",
                "library-exists": "forall(i, 0 <= i < len(library._blocks), existed(library._blocks[i]))"}
    locals = {"blocks": "list:ref:Block"}
    ghost_code = [
        ("blocks = []", [("tn", None, "0")]),
        ("transformed = self.transform_block(b, library)", [("so", "ghost('tn')", "len(blocks)"),
                                                            ("hres", "ghost('tn')", "0 if isnone(transformed) else (1 if isinstance(transformed, Block) else (3 if not_a_collection(transformed) else 2))")]),
        ("pass", [("hk", "ghost('tn')", "0"), ("tn", None, "ghost('tn') + 1")]),
        ("blocks.append(transformed)", [("hk", "ghost('tn')", "1"), ("hb", "ghost('tn')", "ref_id(blocks[len(blocks) - 1])"), ("tn", None, "ghost('tn') + 1")]),
        ("blocks.extend(transformed)", [("hk", "ghost('tn')", "2"), ("hl", "ghost('tn')", "len(blocks) - ghost('so', ghost('tn'))"), ("tn", None, "ghost('tn') + 1")]),
    ]
    loops = {1: {"cursor": "_i", "invariant": {
        "range": "0 <= _i <= len(library._blocks) and fresh(blocks) and ghost('tn') == _i and len(blocks) >= 0",
        "input-untouched": "same(library._blocks, old(library._blocks)) and len(library._blocks) == old(len(library._blocks)) and forall(i, 0 <= i < len(library._blocks), same(library._blocks[i], old(library._blocks[i])))",
        "collected-exist": "forall(t, 0 <= t < len(blocks), allocated(blocks[t])) and self._allow_inplace_modification == old(self._allow_inplace_modification)",
        "splice": "forall(i, 0 <= i < ghost('tn'), 0 <= ghost('hk', i) <= 2 and out_count(i) >= 0 and ghost('so', i) + out_count(i) == (ghost('so', i + 1) if i + 1 < ghost('tn') else len(blocks))) and implies(ghost('tn') > 0, ghost('so', 0) == 0) and implies(ghost('tn') == 0, len(blocks) == 0)",
        "splice-kind": "forall(i, 0 <= i < ghost('tn'), ghost('hk', i) == ghost('hres', i))",
        "splice-block": "forall(i, 0 <= i < ghost('tn'), implies(ghost('hk', i) == 1, 0 <= ghost('so', i) < len(blocks) and ref_id(blocks[ghost('so', i)]) == ghost('hb', i)))",
    }, "props": ("C07", "C20")},
        2: {"cursor": "_j", "invariant": {"items-checked": "0 <= _j and forall(q, 0 <= q < _j, isref(as_ref(transformed, 'list:any')[q]) and isinstance(as_ref(transformed, 'list:any')[q], Block))"},
            "props": ("C07",)}}
    ensures = {
        "C07.fresh-library": "fresh(result)",
        "C20.splice-order": "ghost('tn') == len(library._blocks) and forall(i, 0 <= i < ghost('tn'), 0 <= ghost('hk', i) <= 2 and out_count(i) >= 0 and ghost('so', i) + out_count(i) == (ghost('so', i + 1) if i + 1 < ghost('tn') else len(result._blocks))) and implies(ghost('tn') > 0, ghost('so', 0) == 0) and implies(ghost('tn') == 0, len(result._blocks) == 0)",
        "C20.splice-kind": "forall(i, 0 <= i < ghost('tn'), ghost('hk', i) == ghost('hres', i))",
        "C20.non-block-raises": "forall(i, 0 <= i < ghost('tn'), ghost('hres', i) != 3)",
        "C20.splice-block": "forall(i, 0 <= i < ghost('tn'), implies(ghost('hk', i) == 1, 0 <= ghost('so', i) < len(result._blocks) and (ref_id(result._blocks[ghost('so', i)]) == ghost('hb', i) or cls_is(result._blocks[ghost('so', i)], 'DuplicateBlockKeyBlock'))))",
    }
    raises = {"Exception": {"when": None}}
    modifies = ["ghost:base:int", "ghost:tn:int", "ghost:so:arr", "ghost:hk:arr", "ghost:hl:arr", "ghost:hb:arr", "ghost:hres:arr"]
