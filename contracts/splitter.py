"""Contracts of bibtexparser/splitter.py on the ghost mark model of pyvc/marks.py (properties C01-C04, C09).

cur  = ghost('cur'): index of the next match the iterator yields;  pend = self._unaccepted_mark (-1: none).
Scan invariant: 0 <= cur <= N, and a pending mark is one that was already yielded (pend < cur)."""
from pyvc.api import contract, pred

S = "bibtexparser.splitter.Splitter."
NLK, ATK, LBK, RBK, QTK, CMK, EQK = 6, 7, 1, 2, 3, 4, 5


from pyvc.api import rec, lemma  # noqa: E402


@rec(args={"a": "int", "b": "int"}, ret="int")
def nls(a, b):
    """number of newline marks among the marks a .. b-1"""
    return 0 if b <= a else nls(a, b - 1) + (1 if mk(b - 1) == 6 else 0)


@pred
def scan(self):
    """the scanner state: cursor in range, a pending mark is the one yielded last (and never a newline), the line
    counter is the number of newline marks consumed (minus one for the newline put in front of the text)"""
    return (0 <= CUR() <= NMARKS() and (midx(self._unaccepted_mark) == -1 or (midx(self._unaccepted_mark) == CUR() - 1 and CUR() >= 1 and mk(CUR() - 1) != 6))
            and len(self.bibstr) == BLEN() and self._current_line == nls(0, CUR()) - 1)


lemma("nls-run", uses_marks=True, doc="a run of newline marks counts one line each",
      vars={"a": "int", "b": "int"}, requires=["0 <= a <= b", "only_newlines(a, b)"],
      ensures="nls(0, b) == nls(0, a) + (b - a)", induction=("b", "a"), props=("C03",))

lemma("nls-monotone", uses_marks=True, doc="the line count never decreases along the marks",
      vars={"a": "int", "b": "int"}, requires=["0 <= a <= b"],
      ensures="nls(0, b) >= nls(0, a)", induction=("b", "a"), props=("C03",))


@pred
def only_newlines(a, b):
    return forall(j, a <= j < b, mk(j) == 6)


@rec(args={"a": "int", "b": "int"}, ret="bool", opaque=True)
def nl_gap(a, b):
    """only_newlines as an opaque fact (handed from _next_mark to the callers that only pass it on)"""
    return forall(j, a <= j < b, mk(j) == 6)


@contract(S + "_next_mark")
class _:
    """hands back the pending mark if there is one, otherwise the next mark that is not a newline, counting the
    newlines it skips; at the end of the text: None if accept_eof, else BlockAbortedException(end_index = len(text))"""
    uses_marks = True
    uses_lemmas = ["nls-run"]
    reveals = ["nl_gap"]
    sorts = {"self": "ref:Splitter", "accept_eof": "bool", "result": "match"}
    requires = {"scan": "scan(self)", "iterator": "not isnone(self._markiter)"}
    loops = {1: {"invariant": {
        "cursor": "old(CUR()) < CUR() <= NMARKS() + 0 or (CUR() == NMARKS() and midx(m) == -1)",
        "range": "old(CUR()) <= CUR() <= NMARKS() and midx(self._unaccepted_mark) == -1 and old(midx(self._unaccepted_mark)) == -1",
        "current": "(midx(m) == -1 and CUR() == NMARKS()) or (midx(m) == CUR() - 1 and midx(m) >= old(CUR()))",
        "skipped": "only_newlines(old(CUR()), CUR() - 1 if midx(m) >= 0 else NMARKS())",
        "lines": "self._current_line == old(self._current_line) + ((CUR() - 1 if midx(m) >= 0 else NMARKS()) - old(CUR())) and old(self._current_line) == nls(0, old(CUR())) - 1",
        "cci": "self._current_char_index == old(self._current_char_index)",
    }, "decreases": "NMARKS() - CUR() + (1 if midx(m) >= 0 else 0)", "props": ("C01", "C03", "C04")}}
    ensures = {
        "C04.pending-first": "implies(old(midx(self._unaccepted_mark)) >= 0, midx(result) == old(midx(self._unaccepted_mark)) and CUR() == old(CUR()) and self._current_line == old(self._current_line) and self._current_char_index == ms(midx(result)))",
        "C02.next-non-newline": "implies(old(midx(self._unaccepted_mark)) == -1 and midx(result) >= 0, old(CUR()) <= midx(result) < NMARKS() and mk(midx(result)) != 6 and only_newlines(old(CUR()), midx(result)) and nl_gap(old(CUR()), midx(result)) and CUR() == midx(result) + 1 and self._current_char_index == ms(midx(result)))",
        "C03.lines-counted": "implies(old(midx(self._unaccepted_mark)) == -1 and midx(result) >= 0, self._current_line == old(self._current_line) + (midx(result) - old(CUR())))",
        "C01.eof-none": "implies(midx(result) == -1, accept_eof and old(midx(self._unaccepted_mark)) == -1 and only_newlines(old(CUR()), NMARKS()) and CUR() == NMARKS() and self._current_char_index == BLEN() and self._current_line == old(self._current_line) + (NMARKS() - old(CUR())))",
        "C04.pending-cleared": "midx(self._unaccepted_mark) == -1",
        "C04.monotone": "CUR() >= old(CUR())",
        "C04.result-range": "-1 <= midx(result) < CUR() and scan(self)",
    }
    raises = {"BlockAbortedException": {
        "when": "not accept_eof and midx(self._unaccepted_mark) == -1 and only_newlines(CUR(), NMARKS())",
        "ensures": {"C01.eof-abort": "CUR() == NMARKS() and midx(self._unaccepted_mark) == -1 and self._current_char_index == BLEN() and isint(exc.end_index) and ival(exc.end_index) == BLEN() and self._current_line == old(self._current_line) + (NMARKS() - old(CUR())) and scan(self)"}}}
    modifies = ["@self._unaccepted_mark", "@self._current_char_index", "@self._current_line", "ghost:cur:int"]


from pyvc.api import rec, lemma  # noqa: E402


@rec(args={"a": "int", "b": "int"}, ret="int")
def bal(a, b):
    """number of '{' marks minus number of '}' marks among the marks a .. b-1"""
    return 0 if b <= a else bal(a, b - 1) + (1 if mk(b - 1) == 1 else (-1 if mk(b - 1) == 2 else 0))


lemma("bal-skips-newlines", uses_marks=True,
      doc="newline marks do not change the brace balance",
      vars={"k0": "int", "a": "int", "b": "int"},
      requires=["k0 <= a <= b", "only_newlines(a, b)"],
      ensures="bal(k0, b) == bal(k0, a)",
      induction=("b", "a"), props=("C02",))


@pred
def no_block_start(a, b):
    return forall(j, a <= j < b, mk(j) != 7)


@pred
def no_close_before(k0, b):
    """no mark in k0 .. b-1 closes the bracket opened just before k0"""
    return forall(q, k0 <= q < b, not (mk(q) == 2 and bal(k0, q) == 0))


@contract(S + "_move_to_closed_bracket")
class _:
    """returns the start of the '}' that closes the bracket opened just before the cursor: the first '}' mark at
    brace balance 0 -- unless a new '@block{' starts first (the mark is handed back and the block aborted at its
    start) or the text ends (abort at the end of the text); no '@' mark is ever consumed"""
    uses_marks = True
    uses_lemmas = ["bal-skips-newlines"]
    sorts = {"self": "ref:Splitter", "result": "int"}
    requires = {"scan": "scan(self)", "nothing-pending": "midx(self._unaccepted_mark) == -1", "iterator": "not isnone(self._markiter)"}
    loops = {1: {"invariant": {
        "range": "old(CUR()) <= CUR() <= NMARKS() and midx(self._unaccepted_mark) == -1 and scan(self) and not isnone(self._markiter)",
        "balance": "num_additional_brackets == bal(old(CUR()), CUR()) and num_additional_brackets >= 0",
        "no-at": "no_block_start(old(CUR()), CUR())",
        "no-close": "no_close_before(old(CUR()), CUR())",
    }, "decreases": "NMARKS() - CUR()", "props": ("C01", "C02", "C04")}}
    ensures = {
        "C02.closing-bracket": "exists(r, old(CUR()) <= r < NMARKS(), mk(r) == 2 and bal(old(CUR()), r) == 0 and no_close_before(old(CUR()), r) and no_block_start(old(CUR()), r) and result == ms(r) and CUR() == r + 1)",
        "C03.cci": "self._current_char_index == result and scan(self)",
        "C04.nothing-pending": "midx(self._unaccepted_mark) == -1",
    }
    raises = {"BlockAbortedException": {
        "when": None,
        "ensures": {
            "C04.handback-or-eof": "(midx(self._unaccepted_mark) >= 0 and mk(midx(self._unaccepted_mark)) == 7 and CUR() == midx(self._unaccepted_mark) + 1 and no_block_start(old(CUR()), midx(self._unaccepted_mark)) and isint(exc.end_index) and ival(exc.end_index) == ms(midx(self._unaccepted_mark))) or (midx(self._unaccepted_mark) == -1 and CUR() == NMARKS() and no_block_start(old(CUR()), NMARKS()) and isint(exc.end_index) and ival(exc.end_index) == BLEN())",
            "C04.monotone": "CUR() >= old(CUR()) and scan(self)",
        }}}
    modifies = ["@self._unaccepted_mark", "@self._current_char_index", "@self._current_line", "ghost:cur:int"]


# ---- field values: the quote / brace state machine of _move_to_comma_or_closing_curly_bracket --------------
# state after the marks k0 .. b-1, started in (q0 = inside quotes, oc0 = open braces outside quotes):
#   fq  inside a quoted value      foc  braces open outside quotes      fqc  braces open inside the quoted value

@rec(args={"k0": "int", "b": "int", "q0": "bool", "oc0": "int"}, ret="bool")
def fq(k0, b, q0, oc0):
    return q0 if b <= k0 else ((not fq(k0, b - 1, q0, oc0)) if (mk(b - 1) == 3 and foc(k0, b - 1, q0, oc0) <= 0 and fqc(k0, b - 1, q0, oc0) <= 0) else fq(k0, b - 1, q0, oc0))


@rec(args={"k0": "int", "b": "int", "q0": "bool", "oc0": "int"}, ret="int")
def foc(k0, b, q0, oc0):
    return oc0 if b <= k0 else (foc(k0, b - 1, q0, oc0) + 1 if (mk(b - 1) == 1 and not fq(k0, b - 1, q0, oc0)) else (foc(k0, b - 1, q0, oc0) - 1 if (mk(b - 1) == 2 and not fq(k0, b - 1, q0, oc0) and foc(k0, b - 1, q0, oc0) > 0) else foc(k0, b - 1, q0, oc0)))


@rec(args={"k0": "int", "b": "int", "q0": "bool", "oc0": "int"}, ret="int")
def fqc(k0, b, q0, oc0):
    return 0 if b <= k0 else (fqc(k0, b - 1, q0, oc0) + 1 if (mk(b - 1) == 1 and fq(k0, b - 1, q0, oc0)) else (fqc(k0, b - 1, q0, oc0) - 1 if (mk(b - 1) == 2 and fq(k0, b - 1, q0, oc0) and fqc(k0, b - 1, q0, oc0) > 0) else fqc(k0, b - 1, q0, oc0)))


@pred
def field_stop(k0, j, q0, oc0):
    """mark j ends the scan for the end of a field value that started at mark k0: a comma or a closing brace outside
    quotes and braces, or the start of a new block"""
    return mk(j) == 7 or ((mk(j) == 4 or mk(j) == 2) and not fq(k0, j, q0, oc0) and foc(k0, j, q0, oc0) <= 0)


@rec(args={"k0": "int", "b": "int", "q0": "bool", "oc0": "int"}, ret="bool", opaque=True)
def no_field_stop(k0, b, q0, oc0):
    """no mark in k0 .. b-1 ends the field value (opaque: only the value scanner's proof opens it)"""
    return forall(j, k0 <= j < b, not field_stop(k0, j, q0, oc0))


lemma("field-state-skips-newlines", uses_marks=True,
      doc="newline marks do not change the quote / brace state",
      vars={"k0": "int", "a": "int", "b": "int", "q0": "bool", "oc0": "int"},
      requires=["k0 <= a <= b", "only_newlines(a, b)"],
      ensures="fq(k0, b, q0, oc0) == fq(k0, a, q0, oc0) and foc(k0, b, q0, oc0) == foc(k0, a, q0, oc0) and fqc(k0, b, q0, oc0) == fqc(k0, a, q0, oc0)",
      induction=("b", "a"), props=("C02",))


@contract(S + "_move_to_comma_or_closing_curly_bracket")
class _:
    """scans to the end of a field value: the first comma or closing brace that is outside quotes and outside
    braces (a quote inside braces, and braces inside quotes, do not count); that mark is handed back and its start
    returned.  A new '@block{' aborts (handed back, end_index = its start); so does the end of the text."""
    uses_marks = True
    uses_lemmas = ["field-state-skips-newlines"]
    reveals = ["no_field_stop"]
    sorts = {"self": "ref:Splitter", "currently_quote_escaped": "bool", "num_open_curls": "int", "result": "int"}
    requires = {"scan": "scan(self)", "nothing-pending": "midx(self._unaccepted_mark) == -1", "iterator": "not isnone(self._markiter)",
                "curls": "num_open_curls >= 0"}
    loops = {1: {"invariant": {
        "range": "old(CUR()) <= CUR() <= NMARKS() and midx(self._unaccepted_mark) == -1 and scan(self) and not isnone(self._markiter)",
        "state": "currently_quote_escaped == fq(old(CUR()), CUR(), old(currently_quote_escaped), old(num_open_curls)) and num_open_curls == foc(old(CUR()), CUR(), old(currently_quote_escaped), old(num_open_curls)) and num_quoted_curls == fqc(old(CUR()), CUR(), old(currently_quote_escaped), old(num_open_curls))",
        "nonneg": "num_open_curls >= 0 and num_quoted_curls >= 0",
        "no-stop": "no_field_stop(old(CUR()), CUR(), old(currently_quote_escaped), old(num_open_curls))",
    }, "decreases": "NMARKS() - CUR()", "props": ("C01", "C02", "C04")}}
    ensures = {
        "C02.field-end": "exists(r, old(CUR()) <= r < NMARKS(), (mk(r) == 4 or mk(r) == 2) and field_stop(old(CUR()), r, currently_quote_escaped, num_open_curls) and no_field_stop(old(CUR()), r, currently_quote_escaped, num_open_curls) and no_block_start(old(CUR()), r) and result == ms(r) and CUR() == r + 1 and midx(self._unaccepted_mark) == r)",
        "C03.cci": "self._current_char_index == result and scan(self)",
    }
    raises = {
        "ParserStateException": {"when": "num_open_curls > 0 and currently_quote_escaped", "ensures": {"C04.untouched": "CUR() == old(CUR()) and midx(self._unaccepted_mark) == -1"}},
        "BlockAbortedException": {
        "when": None,
        "ensures": {
            "C04.handback-or-eof": "(midx(self._unaccepted_mark) >= 0 and mk(midx(self._unaccepted_mark)) == 7 and CUR() == midx(self._unaccepted_mark) + 1 and no_field_stop(old(CUR()), midx(self._unaccepted_mark), currently_quote_escaped, num_open_curls) and no_block_start(old(CUR()), midx(self._unaccepted_mark)) and isint(exc.end_index) and ival(exc.end_index) == ms(midx(self._unaccepted_mark))) or (midx(self._unaccepted_mark) == -1 and CUR() == NMARKS() and no_field_stop(old(CUR()), NMARKS(), currently_quote_escaped, num_open_curls) and no_block_start(old(CUR()), NMARKS()) and isint(exc.end_index) and ival(exc.end_index) == BLEN())",
            "C04.monotone": "CUR() >= old(CUR()) and scan(self)",
        }}}
    modifies = ["@self._unaccepted_mark", "@self._current_char_index", "@self._current_line", "ghost:cur:int"]


# ---- the entry scanner ----------------------------------------------------------------------------------------
# ghost arrays written by ghost code when a Field is appended: for the i-th field of the entry being read,
#   fe[i] its '=' mark, fr[i] the mark that ends its value, fks[i] the text index where its key starts

@pred
def field_at(f, self, e, r, ks):
    """f was cut from the text at the '=' mark e and the end-of-value mark r found by the field-value scanner (the
    first mark that ends the value): its
    value is the stripped text between them, its key the stripped text from ks to the '=', its line the line of
    the '='"""
    return (0 <= e < r < NMARKS() and mk(e) == 5 and (mk(r) == 4 or mk(r) == 2)
            and field_stop(e + 1, r, False, 0) and no_field_stop(e + 1, r, False, 0)
            and isstr(f._value) and sval(f._value) == self.bibstr[me(e):ms(r)].strip()
            and isint(f._start_line) and ival(f._start_line) == nls(0, e) - 1
            and 0 <= ks <= ms(e) and f._key == self.bibstr[ks:ms(e)].strip())


@pred
def key_start_ok(i, first_key_start):
    """the key of field 0 starts where the entry body starts; the key of a later field starts at the end of the comma
    that ended the previous value, and only newline marks lie between that comma and the field's '='"""
    return ((i == 0 and ghost('fks', 0) == first_key_start)
            or (i > 0 and mk(ghost('fr', i - 1)) == 4 and ghost('fks', i) == me(ghost('fr', i - 1)) and ghost('fr', i - 1) < ghost('fe', i)
                and nl_gap(ghost('fr', i - 1) + 1, ghost('fe', i))))


@contract(S + "_move_to_end_of_entry")
class _:
    """reads `key = value` fields up to the '}' that closes the entry: returns the fresh Field objects in source
    order, the end of that '}' and the keys seen more than once; anything else aborts the block with the offending
    mark handed back (end_index = its start) or at the end of the text"""
    uses_marks = True
    uses_lemmas = ["nls-run"]
    sorts = {"self": "ref:Splitter", "first_key_start": "int", "result": "tuple:list:ref:Field,int,set:str"}
    requires = {"scan": "scan(self)", "nothing-pending": "midx(self._unaccepted_mark) == -1", "iterator": "not isnone(self._markiter)",
                "key-start": "CUR() >= 1 and first_key_start == me(CUR() - 1)"}
    locals = {"result": "list:ref:Field", "keys": "set:str", "duplicate_keys": "set:str"}
    ghost_code = [("result.append(", [("fe", "len(result) - 1", "midx(equals_mark)"),
                                      ("fr", "len(result) - 1", "midx(self._unaccepted_mark)"),
                                      ("fks", "len(result) - 1", "key_start")])]
    loops = {1: {"invariant": {
        "range": "old(CUR()) <= CUR() <= NMARKS() and scan(self) and not isnone(self._markiter)",
        "pending": "midx(self._unaccepted_mark) == -1 or (mk(midx(self._unaccepted_mark)) == 2 and midx(self._unaccepted_mark) == CUR() - 1 and midx(self._unaccepted_mark) >= old(CUR()))",
        "fresh": "fresh(result) and fresh(keys) and fresh(duplicate_keys) and forall(i, 0 <= i < len(result), fresh(result[i]) and allocated(result[i]))",
        "f1": "forall(i, 0 <= i < len(result), 0 <= ghost('fe', i) < ghost('fr', i) < NMARKS() and mk(ghost('fe', i)) == 5 and (mk(ghost('fr', i)) == 4 or mk(ghost('fr', i)) == 2))",
        "f2": "forall(i, 0 <= i < len(result), field_stop(ghost('fe', i) + 1, ghost('fr', i), False, 0))",
        "f3": "forall(i, 0 <= i < len(result), no_field_stop(ghost('fe', i) + 1, ghost('fr', i), False, 0))",
        "f4": "forall(i, 0 <= i < len(result), isstr(result[i]._value) and sval(result[i]._value) == self.bibstr[me(ghost('fe', i)):ms(ghost('fr', i))].strip())",
        "f5": "forall(i, 0 <= i < len(result), isint(result[i]._start_line) and ival(result[i]._start_line) == nls(0, ghost('fe', i)) - 1)",
        "f6": "forall(i, 0 <= i < len(result), 0 <= ghost('fks', i) <= ms(ghost('fe', i)) and result[i]._key == self.bibstr[ghost('fks', i):ms(ghost('fe', i))].strip())",
        "fields-range": "forall(i, 0 <= i < len(result), old(CUR()) <= ghost('fe', i) and ghost('fr', i) < CUR())",
        "fields-keys": "forall(i, 0 <= i < len(result), key_start_ok(i, first_key_start))",
        "keys-seen": "not same(keys, duplicate_keys) and forall(i, 0 <= i < len(result), result[i]._key in keys)",
        "duplicates": "forall((i, j), 0 <= i < j < len(result), implies(result[i]._key == result[j]._key, result[i]._key in duplicate_keys))",
        "duplicates-size": "len(duplicate_keys) >= 0 and implies(len(duplicate_keys) == 0, forall(k, 'str', True, not (k in duplicate_keys)))",
        "key-start": "0 <= key_start <= BLEN() and (midx(self._unaccepted_mark) >= 0 or (len(result) == 0 and key_start == first_key_start) or (len(result) > 0 and ghost('fr', len(result) - 1) == CUR() - 1 and mk(CUR() - 1) == 4 and key_start == me(CUR() - 1)))",
        "no-at": "no_block_start(old(CUR()), CUR())",
    }, "decreases": "2 * (NMARKS() - CUR()) + (1 if midx(self._unaccepted_mark) >= 0 else 0)", "props": ("C01", "C02", "C03", "C04")}}
    ensures = {
        "C02.closed": "exists(r, old(CUR()) <= r < NMARKS(), mk(r) == 2 and CUR() == r + 1 and result[1] == me(r) and self._current_char_index == ms(r)) and midx(self._unaccepted_mark) == -1 and scan(self)",
        "C02.fields": "fresh(result[0]) and allocated(result[0]) and fresh(result[2]) and forall(i, 0 <= i < len(result[0]), fresh(result[0][i]) and allocated(result[0][i]) and field_at(result[0][i], self, ghost('fe', i), ghost('fr', i), ghost('fks', i)) and old(CUR()) <= ghost('fe', i) and ghost('fr', i) < CUR() and key_start_ok(i, first_key_start))",
        "C09.duplicate-field-keys": "forall((i, j), 0 <= i < j < len(result[0]), implies(result[0][i]._key == result[0][j]._key, result[0][i]._key in result[2]))",
        "C09.no-duplicates-means-empty": "len(result[2]) >= 0 and implies(len(result[2]) == 0, forall(k, 'str', True, not (k in result[2])))",
        "C04.no-at-consumed": "no_block_start(old(CUR()), CUR())",
    }
    raises = {"BlockAbortedException": {
        "when": None,
        "ensures": {
            "C04.handback-or-eof": "scan(self) and ((midx(self._unaccepted_mark) >= old(CUR()) and CUR() == midx(self._unaccepted_mark) + 1 and no_block_start(old(CUR()), midx(self._unaccepted_mark)) and isint(exc.end_index) and ival(exc.end_index) == ms(midx(self._unaccepted_mark))) or (midx(self._unaccepted_mark) == -1 and CUR() == NMARKS() and no_block_start(old(CUR()), NMARKS()) and isint(exc.end_index) and ival(exc.end_index) == BLEN()))",
        }}}
    modifies = ["@self._unaccepted_mark", "@self._current_char_index", "@self._current_line", "ghost:cur:int", "ghost:fe:arr", "ghost:fr:arr", "ghost:fks:arr"]


# ---- raw texts as regions of the text ---------------------------------------------------------------------------

@rec(args={"v": "any", "text": "str", "a": "int", "b": "int"}, ret="bool", opaque=True)
def raw_is_region(v, text, a, b):
    """the (dynamic) raw value v is the piece text[a:b] of the text, 0 <= a <= b <= len(text) (opaque: split() passes
    this fact from the handlers to its tiling invariant without ever looking at the characters)"""
    return isstr(v) and 0 <= a <= b <= len(text) and sval(v) == cut(text, a, b)


lemma("slice-is-region", doc="a Python slice within the bounds of the text is that region of the text",
      vars={"text": "str", "a": "int", "b": "int"}, requires=["0 <= a <= b <= len(text)"],
      ensures="raw_is_region(text[a:b], text, a, b)", reveals=["raw_is_region"], props=("C03",))


# ---- block handlers ---------------------------------------------------------------------------------------------
# each is entered right after split() consumed the '@type' mark a = CUR() - 1; by A-RE (R4) the next mark is the
# '{' that directly follows it, so the "regex mismatch" branches are dead code: proved by the `raises` clauses.

@pred
def at_block_start(self):
    return (scan(self) and midx(self._unaccepted_mark) == -1 and not isnone(self._markiter) and CUR() >= 1 and mk(CUR() - 1) == 7
            and self._current_char_index == ms(CUR() - 1))


@pred
def closed_at(a, r):
    """r is the '}' that closes the '{' at mark a + 1 (the first one at balance 0), with no '@' mark in between"""
    return (a + 2 <= r < NMARKS() and mk(r) == 2 and bal(a + 2, r) == 0 and no_close_before(a + 2, r) and no_block_start(a + 2, r))


@pred
def aborted_after(self, a, exc):
    """a block handler gave up: either at a new '@' mark, which is handed back and is where the failed block ends,
    or at the end of the text; no '@' mark after a was consumed"""
    return (scan(self) and isint(exc.end_index)
            and ((midx(self._unaccepted_mark) > a and CUR() == midx(self._unaccepted_mark) + 1 and no_block_start(a + 1, midx(self._unaccepted_mark))
                  and ival(exc.end_index) == ms(midx(self._unaccepted_mark)))
                 or (midx(self._unaccepted_mark) == -1 and CUR() == NMARKS() and no_block_start(a + 1, NMARKS()) and ival(exc.end_index) == BLEN())))


@contract(S + "_handle_explicit_comment")
class _:
    """@comment{...}: the block ends at the '}' matching the opening '{'; raw is the text from the '@' to that '}'
    inclusive, the comment the stripped text between the braces, the line that of the '@'"""
    uses_marks = True
    reveals = ["raw_is_region"]
    sorts = {"self": "ref:Splitter", "result": "ref:ExplicitComment"}
    requires = {"at-block-start": "at_block_start(self)"}
    ensures = {
        "C03.raw-region": "raw_is_region(result._raw, self.bibstr, ms(old(CUR()) - 1), self._current_char_index + 1)",
        "C02.comment-block": "fresh(result) and exists(r, 0 <= r < NMARKS(), closed_at(old(CUR()) - 1, r) and CUR() == r + 1 and self._current_char_index == ms(r) and isstr(result._raw) and sval(result._raw) == self.bibstr[ms(old(CUR()) - 1):ms(r) + 1] and result._comment == self.bibstr[me(old(CUR())):ms(r)].strip())",
        "C03.start-line": "isint(result._start_line_in_file) and ival(result._start_line_in_file) == nls(0, old(CUR()) - 1) - 1",
        "C04.scan": "scan(self) and midx(self._unaccepted_mark) == -1",
    }
    raises = {"BlockAbortedException": {"when": None, "ensures": {"C04.aborted": "aborted_after(self, old(CUR()) - 1, exc)"}}}
    modifies = ["@self._unaccepted_mark", "@self._current_char_index", "@self._current_line", "ghost:cur:int"]


@contract(S + "_handle_preamble")
class _:
    """@preamble{...}: as for @comment; the value is the text between the braces, verbatim"""
    uses_marks = True
    reveals = ["raw_is_region"]
    sorts = {"self": "ref:Splitter", "result": "ref:Preamble"}
    requires = {"at-block-start": "at_block_start(self)"}
    ensures = {
        "C03.raw-region": "raw_is_region(result._raw, self.bibstr, ms(old(CUR()) - 1), self._current_char_index + 1)",
        "C02.preamble-block": "fresh(result) and exists(r, 0 <= r < NMARKS(), closed_at(old(CUR()) - 1, r) and CUR() == r + 1 and self._current_char_index == ms(r) and isstr(result._raw) and sval(result._raw) == self.bibstr[ms(old(CUR()) - 1):ms(r) + 1] and result._value == self.bibstr[me(old(CUR())):ms(r)])",
        "C03.start-line": "isint(result._start_line_in_file) and ival(result._start_line_in_file) == nls(0, old(CUR()) - 1) - 1",
        "C04.scan": "scan(self) and midx(self._unaccepted_mark) == -1",
    }
    raises = {"BlockAbortedException": {"when": None, "ensures": {"C04.aborted": "aborted_after(self, old(CUR()) - 1, exc)"}}}
    modifies = ["@self._unaccepted_mark", "@self._current_char_index", "@self._current_line", "ghost:cur:int"]


@contract(S + "_handle_string")
class _:
    """@string{key = value}: the mark after '{' must be '='; the key is the stripped text between them, the value the
    stripped text from the '=' to the '}' matching the opening '{'"""
    uses_marks = True
    reveals = ["raw_is_region"]
    sorts = {"self": "ref:Splitter", "m": "match", "result": "ref:String"}
    requires = {"at-block-start": "at_block_start(self)", "m": "midx(m) == CUR() - 1"}
    ensures = {
        "C03.raw-region": "raw_is_region(result._raw, self.bibstr, ms(old(CUR()) - 1), self._current_char_index + 1)",
        "C01.block-shape": "not isnone(result._parser_metadata) and fresh(result._parser_metadata) and isstr(result._value)",
        "C02.string-block": "fresh(result) and exists(e, old(CUR()) < e < NMARKS(), mk(e) == 5 and only_newlines(old(CUR()) + 1, e) and exists(r, e < r < NMARKS(), mk(r) == 2 and bal(e + 1, r) == 0 and no_close_before(e + 1, r) and no_block_start(old(CUR()), r) and CUR() == r + 1 and self._current_char_index == ms(r) and isstr(result._raw) and sval(result._raw) == self.bibstr[ms(old(CUR()) - 1):ms(r) + 1] and result._key == self.bibstr[me(old(CUR()) - 1) + 1:ms(e)].strip() and isstr(result._value) and sval(result._value) == self.bibstr[me(e):ms(r)].strip()))",
        "C03.start-line": "isint(result._start_line_in_file) and ival(result._start_line_in_file) == nls(0, old(CUR()) - 1) - 1",
        "C04.scan": "scan(self) and midx(self._unaccepted_mark) == -1",
    }
    raises = {"BlockAbortedException": {"when": None, "ensures": {"C04.aborted": "scan(self) and isint(exc.end_index) and ((midx(self._unaccepted_mark) > old(CUR()) - 1 and CUR() == midx(self._unaccepted_mark) + 1 and no_block_start(old(CUR()), midx(self._unaccepted_mark)) and ival(exc.end_index) == ms(midx(self._unaccepted_mark))) or (midx(self._unaccepted_mark) == -1 and CUR() == NMARKS() and no_block_start(old(CUR()), NMARKS()) and ival(exc.end_index) == BLEN()))"}}}
    modifies = ["@self._unaccepted_mark", "@self._current_char_index", "@self._current_line", "ghost:cur:int"]


@pred
def entry_read(E, self, a, m_val, c):
    """E is the entry read from the '@type' mark a; c is the first mark after the '{' that is not a newline (ghost
    `ec`, recorded by ghost code).  Type and key are the stripped texts after '@' and after '{'; `@type{key}` has no
    fields and ends at its '}' (c); `@type{key, f = v, ...}` (c a comma) has the fields read by the entry scanner
    (ghost arrays fe / fr / fks) and ends at the '}' that closes it; raw runs from the '@' to that '}' inclusive"""
    return (fresh(E) and E._entry_type == m_val[1:].strip()
            and isint(E._start_line_in_file) and ival(E._start_line_in_file) == nls(0, a) - 1
            and a + 2 <= c < CUR() and only_newlines(a + 2, c) and E._key == self.bibstr[me(a) + 1:ms(c)].strip()
            and mk(CUR() - 1) == 2 and isstr(E._raw) and sval(E._raw) == self.bibstr[ms(a):me(CUR() - 1)]
            and ((mk(c) == 2 and CUR() == c + 1 and len(E._fields) == 0)
                 or (mk(c) == 4 and no_block_start(c + 1, CUR())
                     and forall(i, 0 <= i < len(E._fields), fresh(E._fields[i]) and field_at(E._fields[i], self, ghost('fe', i), ghost('fr', i), ghost('fks', i))
                                and c < ghost('fe', i) and ghost('fr', i) < CUR() and key_start_ok(i, me(c))))))


@contract(S + "_handle_entry")
class _:
    """@type{key, field = value, ...}: an Entry (wrapped in a DuplicateFieldKeyBlock that exposes it when a field key
    occurs twice); a mark other than ',' or '}' after the key aborts the block there"""
    uses_marks = True
    reveals = ["raw_is_region"]
    sorts = {"self": "ref:Splitter", "m": "match", "m_val": "str", "result": "ref:Block"}
    requires = {"at-block-start": "at_block_start(self)", "m": "midx(m) == CUR() - 1", "m_val": "len(m_val) >= 1"}
    ghost_code = [("comma_mark = self._next_mark(", [("ec", None, "midx(comma_mark)")])]
    ensures = {
        "C03.raw-region": "raw_is_region(result._raw, self.bibstr, ms(old(CUR()) - 1), self._current_char_index + 1)",
        "C02.entry": "implies(cls_is(result, 'Entry'), entry_read(as_ref(result, 'ref:Entry'), self, old(CUR()) - 1, m_val, ghost('ec')))",
        "C01.block-shape": "allocated(result) and implies(cls_is(result, 'Entry'), not isnone(result._parser_metadata) and fresh(result._parser_metadata) and fresh(as_ref(result, 'ref:Entry')._fields) and allocated(as_ref(result, 'ref:Entry')._fields) and forall(i, 0 <= i < len(as_ref(result, 'ref:Entry')._fields), fresh(as_ref(result, 'ref:Entry')._fields[i]) and allocated(as_ref(result, 'ref:Entry')._fields[i]) and isstr(as_ref(result, 'ref:Entry')._fields[i]._value)))",
        "C09.duplicates-flagged": "implies(cls_is(result, 'Entry'), forall((i, j), 0 <= i < j < len(as_ref(result, 'ref:Entry')._fields), as_ref(result, 'ref:Entry')._fields[i]._key != as_ref(result, 'ref:Entry')._fields[j]._key))",
        "C09.duplicate-fields-wrapper": "implies(not cls_is(result, 'Entry'), cls_is(result, 'DuplicateFieldKeyBlock') and fresh(result) and not isnone(as_ref(result, 'ref:DuplicateFieldKeyBlock')._ignore_error_block) and cls_is(as_ref(as_ref(result, 'ref:DuplicateFieldKeyBlock')._ignore_error_block, 'ref:Block'), 'Entry') and entry_read(as_ref(as_ref(result, 'ref:DuplicateFieldKeyBlock')._ignore_error_block, 'ref:Entry'), self, old(CUR()) - 1, m_val, ghost('ec')) and same(result._raw, as_ref(as_ref(result, 'ref:DuplicateFieldKeyBlock')._ignore_error_block, 'ref:Entry')._raw) and same(result._start_line_in_file, as_ref(as_ref(result, 'ref:DuplicateFieldKeyBlock')._ignore_error_block, 'ref:Entry')._start_line_in_file))",
        "C04.scan": "scan(self) and midx(self._unaccepted_mark) == -1 and no_block_start(old(CUR()), CUR()) and self._current_char_index == ms(CUR() - 1) and mk(CUR() - 1) == 2",
    }
    raises = {"BlockAbortedException": {"when": None, "ensures": {"C04.aborted": "scan(self) and isint(exc.end_index) and ((midx(self._unaccepted_mark) > old(CUR()) - 1 and CUR() == midx(self._unaccepted_mark) + 1 and no_block_start(old(CUR()), midx(self._unaccepted_mark)) and ival(exc.end_index) == ms(midx(self._unaccepted_mark))) or (midx(self._unaccepted_mark) == -1 and CUR() == NMARKS() and no_block_start(old(CUR()), NMARKS()) and ival(exc.end_index) == BLEN()))"}}}
    modifies = ["@self._unaccepted_mark", "@self._current_char_index", "@self._current_line", "@self._open_brackets", "ghost:cur:int", "ghost:fe:arr", "ghost:fr:arr", "ghost:fks:arr", "ghost:ec:int"]


# ---- free text between blocks -------------------------------------------------------------------------------------

@rec(args={"s": "str", "i": "int"}, ret="int")
def nlc(s, i):
    """number of newline characters among the first i characters of s"""
    return 0 if i <= 0 else nlc(s, i - 1) + (1 if s[i - 1] == "\n" else 0)


@pred
def free_text(self, end_char_index):
    return self.bibstr[ival(self._implicit_comment_start):end_char_index]


@contract(S + "_end_implicit_comment")
class _:
    """the free text from the pending implicit-comment start to end_char_index (the `region`).  Ghost `lead` is the
    index the scan for the first non-blank character stops at.  Proved: every character of the region before `lead` is
    whitespace; the result is None exactly when nothing is pending or region[lead:].rstrip() is empty; otherwise it is
    a fresh ImplicitComment whose raw and comment are region[lead:].rstrip() (non-empty) and whose start line is the
    pending line plus the newlines before `lead` whenever region[lead] is not whitespace.

    Read together with two facts about str.rstrip that are NOT proved here (A-STR: rstrip removes exactly the trailing
    whitespace; it returns '' exactly for an all-whitespace string) this says: what is dropped around an implicit
    comment is whitespace only, and nothing is returned exactly for a blank region."""
    sorts = {"self": "ref:Splitter", "end_char_index": "int", "result": "optref:ref:ImplicitComment"}
    requires = {"range": "implies(not isnone(self._implicit_comment_start), isint(self._implicit_comment_start) and 0 <= ival(self._implicit_comment_start) <= end_char_index <= len(self.bibstr))"}
    locals = {"comment": "str", "char": "str", "i": "int"}
    ghost_code = [("comment = comment[i:].rstrip()", [("lead", None, "i")])]
    loops = {1: {"cursor": "_i", "invariant": {
        "index": "(_i == 0 and i == 0) or (_i > 0 and i == _i - 1)",
        "whitespace": "forall(p, 0 <= p < _i, comment[p].isspace())",
        "count": "leading_empty_lines == nlc(comment, _i)",
    }, "props": ("C03",)}}
    ensures = {
        "C03.nothing-pending": "implies(isnone(self._implicit_comment_start), isnone(result))",
        "C03.leading-whitespace": "implies(not isnone(self._implicit_comment_start), 0 <= ghost('lead') <= len(free_text(self, end_char_index)) and forall(p, 0 <= p < ghost('lead'), free_text(self, end_char_index)[p].isspace()))",
        "C03.none-iff-rest-blank": "implies(not isnone(self._implicit_comment_start), isnone(result) == (free_text(self, end_char_index)[ghost('lead'):].rstrip() == ''))",
        "C03.comment": "implies(not isnone(result), fresh(result) and result._comment == free_text(self, end_char_index)[ghost('lead'):].rstrip() and isstr(result._raw) and sval(result._raw) == result._comment and len(result._comment) > 0)",
        "C03.comment-line": "implies(not isnone(result) and ghost('lead') < len(free_text(self, end_char_index)) and not free_text(self, end_char_index)[ghost('lead')].isspace(), isint(result._start_line_in_file) and ival(result._start_line_in_file) == self._implicit_comment_start_line + nlc(free_text(self, end_char_index), ghost('lead')))",
    }
    raises = {}
    modifies = ["ghost:lead:int"]


@contract(S + "_end_implicit_comment#for-split")
class _:
    """the same function as seen by split(): all split() needs is that nothing but a fresh comment object comes back and
    nothing is written (keeping the character-level clauses of the full contract out of split()'s proof context);
    verified against the code like the full contract"""
    for_callers = ["bibtexparser.splitter.Splitter.split"]
    sorts = {"self": "ref:Splitter", "end_char_index": "int", "result": "optref:ref:ImplicitComment"}
    requires = {"range": "implies(not isnone(self._implicit_comment_start), isint(self._implicit_comment_start) and 0 <= ival(self._implicit_comment_start) <= end_char_index <= len(self.bibstr))"}
    locals = {"comment": "str", "char": "str", "i": "int"}
    loops = {1: {"cursor": "_i", "invariant": {"index": "_i >= 0"}, "props": ("C03",)}}
    ensures = {"C03.fresh-or-none": "implies(not isnone(result), fresh(result))"}
    raises = {}
    modifies = []


# ---- split() ------------------------------------------------------------------------------------------------------

@pred
def comment_start_ok(self):
    """a pending free-text start lies at or before everything not yet consumed"""
    return (isnone(self._implicit_comment_start)
            or (isint(self._implicit_comment_start) and 0 <= ival(self._implicit_comment_start) <= BLEN()
                and forall(j, CUR() <= j < NMARKS(), ival(self._implicit_comment_start) <= ms(j))
                and implies(midx(self._unaccepted_mark) >= 0, ival(self._implicit_comment_start) <= ms(midx(self._unaccepted_mark)))))


@pred
def region_raw(self, k):
    """region k (a block) is the raw text of the block recorded for it"""
    return raw_is_region(as_ref(ghost('gb', k), 'ref:Block')._raw, self.bibstr, ghost('gs', k), ghost('ge', k))


@pred
def regions_tile(n):
    """the regions 0 .. n-1 are consecutive pieces of the text starting at its beginning"""
    return (n >= 0 and forall(i, 0 <= i < n, 0 <= ghost('gs', i) <= ghost('ge', i) <= BLEN())
            and forall(i, 0 <= i < n - 1, ghost('ge', i) == ghost('gs', i + 1))
            and implies(n > 0, ghost('gs', 0) == 0))


class _SplitContract:
    """never raises and terminates (C01): every BlockAbortedException becomes a ParsingFailedBlock, the parser-state
    and regex-mismatch branches are dead under A-RE, Library.add is called without fail_on_duplicate_key; the marks
    are consumed strictly left to right and a handed-back '@' mark is the next block start (C04); the library given
    is the library returned and stays well formed (C08).

    Source order (C02, C04): the block of every block region sits in the library at a position recorded with it, and
    later regions sit at later positions -- the blocks come out in the order of their source text.

    Tiling (C03): ghost code records one *region* of the text per step -- the free text handed to
    _end_implicit_comment (kind 0) and the raw text of the block or failed block added to the library (kind 1, with
    the block).  The regions are consecutive, start at 0 and end at the end of the text, and the raw of every block
    region is exactly that piece of the text: no character is in two regions or in none.  (What
    _end_implicit_comment does inside a free-text region -- strip surrounding whitespace -- is its own, assumed,
    contract.)"""
    uses_marks = True
    reveals = ["raw_is_region"]      # opened only for the failed block, whose raw text split() slices itself
    requires = {"fresh-splitter": "midx(self._unaccepted_mark) == -1 and self._current_line == -1 and isint(self._implicit_comment_start) and ival(self._implicit_comment_start) == 0 and self._implicit_comment_start_line == -1",
                }
    locals = {"library": "ref:Library"}
    ghost_code = [
        ("self._markiter = re.finditer(", [("gk", None, "0"), ("glast", None, "-1")]),
        ("implicit_comment = self._end_implicit_comment(m.start())",
         [("gs", "ghost('gk')", "ival(self._implicit_comment_start)"), ("ge", "ghost('gk')", "ms(midx(m))"), ("gkind", "ghost('gk')", "0"), ("gk", None, "ghost('gk') + 1")]),
        ("self._reset_block_status(current_char_index=next_block_start)",
         [("gs", "ghost('gk')", "ms(midx(m))"), ("ge", "ghost('gk')", "ival(next_block_start)"), ("gkind", "ghost('gk')", "1"),
          ("gb", "ghost('gk')", "ref_id(library._blocks[len(library._blocks) - 1])"),
          ("gi", "ghost('gk')", "len(library._blocks) - 1"), ("glast", None, "len(library._blocks) - 1"), ("gk", None, "ghost('gk') + 1")]),
        ("comment = self._end_implicit_comment(len(self.bibstr))",
         [("gs", "ghost('gk')", "ival(self._implicit_comment_start)"), ("ge", "ghost('gk')", "BLEN()"), ("gkind", "ghost('gk')", "0"), ("gk", None, "ghost('gk') + 1")]),
    ]
    loops = {1: {"invariant": {
        "scan": "scan(self) and not isnone(self._markiter)",
        "library": "allocated(library) and allocated(library._blocks) and allocated(library._entries_by_key) and allocated(library._strings_by_key) and WF(library) and (fresh(library) if isnone(old(library)) else same(library, old(library)))",
        "comment-start": "comment_start_ok(self) and isint(self._implicit_comment_start)",
        "tiling": "regions_tile(ghost('gk')) and ival(self._implicit_comment_start) == (ghost('ge', ghost('gk') - 1) if ghost('gk') > 0 else 0)",
        "source-order": "-1 <= ghost('glast') < len(library._blocks) and forall(k, 0 <= k < ghost('gk'), implies(ghost('gkind', k) == 1, 0 <= ghost('gi', k) <= ghost('glast') and ref_id(library._blocks[ghost('gi', k)]) == ghost('gb', k))) and forall((k, q), 0 <= k < q < ghost('gk'), implies(ghost('gkind', k) == 1 and ghost('gkind', q) == 1, ghost('gi', k) < ghost('gi', q)))",
        "tiling-raw": "forall(k, 0 <= k < ghost('gk'), implies(ghost('gkind', k) == 1, allocated(as_ref(ghost('gb', k), 'ref:Block')) and ghost('gb', k) > 0 and region_raw(self, k)))",
    }, "decreases": "2 * (NMARKS() - CUR()) + (1 if midx(self._unaccepted_mark) >= 0 else 0)", "props": ("C01", "C03", "C04", "C08")}}
    ensures = {
        "C01.returns-library": "WF(result)",
        "C04.all-consumed": "CUR() == NMARKS() and midx(self._unaccepted_mark) == -1",
        "C03.regions-tile-the-text": "regions_tile(ghost('gk')) and ghost('gk') > 0 and ghost('ge', ghost('gk') - 1) == BLEN()",
        "C02+C04.source-order": "forall(k, 0 <= k < ghost('gk'), implies(ghost('gkind', k) == 1, 0 <= ghost('gi', k) < len(result._blocks) and ref_id(result._blocks[ghost('gi', k)]) == ghost('gb', k))) and forall((k, q), 0 <= k < q < ghost('gk'), implies(ghost('gkind', k) == 1 and ghost('gkind', q) == 1, ghost('gi', k) < ghost('gi', q)))",
        "C03.block-regions-are-raw": "forall(k, 0 <= k < ghost('gk'), implies(ghost('gkind', k) == 1, region_raw(self, k)))",
    }
    raises = {}


SPLITTER_ATTRS = ["Splitter._markiter", "Splitter._unaccepted_mark", "Splitter._current_line", "Splitter._current_char_index",
                  "Splitter._open_brackets", "Splitter._is_quote_open", "Splitter._expected_next", "Splitter._implicit_comment_start_line",
                  "Splitter._implicit_comment_start"]
SPLIT_GHOSTS = ["ghost:cur:int", "ghost:fe:arr", "ghost:fr:arr", "ghost:fks:arr", "ghost:ec:int", "ghost:gk:int", "ghost:gs:arr", "ghost:ge:arr",
                "ghost:gkind:arr", "ghost:gb:arr", "ghost:gi:arr", "ghost:glast:int"]


def _split_variant(doc, library_sort, extra_requires, target_clause, footprint, extra_invariants=None, extra_ensures=None):
    d = {k: v for k, v in vars(_SplitContract).items() if not k.startswith("__")}
    if extra_invariants:
        d["loops"] = {1: dict(d["loops"][1], invariant=dict(d["loops"][1]["invariant"], **extra_invariants))}
    if extra_ensures:
        d["ensures"] = dict(d["ensures"], **extra_ensures)
    d["__doc__"] = _SplitContract.__doc__ + "\n\n    " + doc
    d["sorts"] = {"self": "ref:Splitter", "library": library_sort, "result": "ref:Library"}
    d["requires"] = dict(d["requires"], **extra_requires)
    d["ensures"] = dict(d["ensures"], **{"C01.returns-library": target_clause})
    d["modifies"] = SPLITTER_ATTRS + footprint + SPLIT_GHOSTS
    return type("_", (), d)


# The footprint is exact: the splitter's own attributes and -- when a library is given -- the contents of its block list
# and two indexes; every other object that existed stays as it was (frame obligations).  These two variants are what the
# entry-point proofs (contracts/entrypoint.py, C20) use as the interface of split().
contract(S + "split#new")(_split_variant(
    "Variant: no target library -- a fresh, well-formed Library is returned.", "none", {},
    "WF(result) and fresh(result)", [],
    extra_invariants={"parsed": "parsed_ok(library)"},
    extra_ensures={"C01.parsed-ok": "parsed_ok(result)"}))
# parsed_ok (contracts/library.py) is the precondition under which the two default parse middlewares are proved
# exception-free (contracts/defaultparse.py): the handlers export the per-block facts (C01.block-shape), Library.add keeps
# parsed_ok when given such a block (C01.parsed-kept).
contract(S + "split#into")(_split_variant(
    "Variant: a target library is given -- it is the library returned, and it stays well formed.", "ref:Library",
    {"library": "WF(library)"},
    "WF(result) and same(result, library)",
    ["@content(library._blocks)", "@content(library._entries_by_key)", "@content(library._strings_by_key)"]))


# ---- a brace-enclosed value is read back as one field value (mark level; used by C05 / C10's re-parse clauses) -----------

lemma("braced-value-state", uses_marks=True,
      doc="inside a brace-enclosed value whose inner braces never close more than was opened, the field-value scanner is "
          "never inside quotes, counts no quoted braces, and its open-brace count is one more than the inner balance",
      vars={"k0": "int", "b": "int"},
      requires=["0 <= k0", "mk(k0) == 1", "k0 + 1 <= b <= NMARKS()", "forall(j, k0 + 1 <= j < b, bal(k0 + 1, j) >= 0)"],
      ensures="fq(k0, b, False, 0) == False and fqc(k0, b, False, 0) == 0 and foc(k0, b, False, 0) == 1 + bal(k0 + 1, b)",
      induction=("b", "k0 + 1"), props=("C05", "C10"))

lemma("braced-value-is-one-field", uses_marks=True, uses_lemmas=["braced-value-state"],
      doc="a value written as '{' v '}' with v brace-balanced (never negative, zero at the end) and free of '@' marks, followed "
          "by a comma, is read as exactly one field value: the scan that starts at the '{' stops at that comma and nowhere before",
      vars={"k0": "int", "r": "int"},
      requires=["0 <= k0 < r", "r + 1 < NMARKS()", "mk(k0) == 1", "mk(r) == 2", "mk(r + 1) == 4",
                "forall(j, k0 + 1 <= j <= r, bal(k0 + 1, j) >= 0)", "bal(k0 + 1, r) == 0", "no_block_start(k0, r + 1)"],
      ensures="field_stop(k0, r + 1, False, 0) and forall(j, k0 <= j <= r, not field_stop(k0, j, False, 0))",
      props=("C05", "C10"))
