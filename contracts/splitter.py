"""Contracts of bibtexparser/splitter.py on the ghost mark model of pyvc/marks.py (properties C01-C04, C09).

cur  = ghost('cur'): index of the next match the iterator yields;  pend = self._unaccepted_mark (-1: none).
Scan invariant: 0 <= cur <= N, and a pending mark is one that was already yielded (pend < cur)."""
from pyvc.api import contract, pred

S = "bibtexparser.splitter.Splitter."
NLK, ATK, LBK, RBK, QTK, CMK, EQK = 6, 7, 1, 2, 3, 4, 5


@pred
def scan(self):
    return (0 <= CUR() <= NMARKS() and -1 <= midx(self._unaccepted_mark) < CUR() and midx(self._unaccepted_mark) < NMARKS()
            and len(self.bibstr) == BLEN())


@pred
def only_newlines(a, b):
    return forall(j, a <= j < b, mk(j) == 6)


@contract(S + "_next_mark")
class _:
    """hands back the pending mark if there is one, otherwise the next mark that is not a newline, counting the
    newlines it skips; at the end of the text: None if accept_eof, else BlockAbortedException(end_index = len(text))"""
    uses_marks = True
    sorts = {"self": "ref:Splitter", "accept_eof": "bool", "result": "match"}
    requires = {"scan": "scan(self)", "iterator": "not isnone(self._markiter)"}
    loops = {1: {"invariant": {
        "cursor": "old(CUR()) < CUR() <= NMARKS() + 0 or (CUR() == NMARKS() and midx(m) == -1)",
        "range": "old(CUR()) <= CUR() <= NMARKS() and midx(self._unaccepted_mark) == -1 and old(midx(self._unaccepted_mark)) == -1",
        "current": "(midx(m) == -1 and CUR() == NMARKS()) or (midx(m) == CUR() - 1 and midx(m) >= old(CUR()))",
        "skipped": "only_newlines(old(CUR()), CUR() - 1 if midx(m) >= 0 else NMARKS())",
        "lines": "self._current_line == old(self._current_line) + ((CUR() - 1 if midx(m) >= 0 else NMARKS()) - old(CUR()))",
        "cci": "self._current_char_index == old(self._current_char_index)",
    }, "decreases": "NMARKS() - CUR() + (1 if midx(m) >= 0 else 0)", "props": ("C01", "C03", "C04")}}
    ensures = {
        "C04.pending-first": "implies(old(midx(self._unaccepted_mark)) >= 0, midx(result) == old(midx(self._unaccepted_mark)) and CUR() == old(CUR()) and self._current_line == old(self._current_line) and self._current_char_index == ms(midx(result)))",
        "C02.next-non-newline": "implies(old(midx(self._unaccepted_mark)) == -1 and midx(result) >= 0, old(CUR()) <= midx(result) < NMARKS() and mk(midx(result)) != 6 and only_newlines(old(CUR()), midx(result)) and CUR() == midx(result) + 1 and self._current_char_index == ms(midx(result)))",
        "C03.lines-counted": "implies(old(midx(self._unaccepted_mark)) == -1 and midx(result) >= 0, self._current_line == old(self._current_line) + (midx(result) - old(CUR())))",
        "C01.eof-none": "implies(midx(result) == -1, accept_eof and old(midx(self._unaccepted_mark)) == -1 and only_newlines(old(CUR()), NMARKS()) and CUR() == NMARKS() and self._current_char_index == BLEN() and self._current_line == old(self._current_line) + (NMARKS() - old(CUR())))",
        "C04.pending-cleared": "midx(self._unaccepted_mark) == -1",
        "C04.monotone": "CUR() >= old(CUR())",
        "C04.result-range": "-1 <= midx(result) < CUR() and scan(self)",
    }
    raises = {"BlockAbortedException": {
        "when": "not accept_eof and midx(self._unaccepted_mark) == -1 and only_newlines(CUR(), NMARKS())",
        "ensures": {"C01.eof-abort": "CUR() == NMARKS() and midx(self._unaccepted_mark) == -1 and self._current_char_index == BLEN() and isint(exc.end_index) and ival(exc.end_index) == BLEN() and self._current_line == old(self._current_line) + (NMARKS() - old(CUR()))"}}}
    modifies = ["@self._unaccepted_mark", "@self._current_char_index", "@self._current_line", "ghost:cur:int"]


from pyvc.api import rec, lemma  # noqa: E402


@rec(args={"a": "int", "b": "int"}, ret="int")
def bal(a, b):
    """number of '{' marks minus number of '}' marks among the marks a .. b-1"""
    return 0 if b <= a else bal(a, b - 1) + (1 if mk(b - 1) == 1 else (-1 if mk(b - 1) == 2 else 0))


lemma("bal-skips-newlines", uses_marks=True,
      doc="newline marks do not change the brace balance",
      vars={"k0": "int", "a": "int", "b": "int"},
      requires=["k0 <= a <= b", "only_newlines(a, b)"],
      ensures="bal(k0, b) == bal(k0, a)",
      induction=("b", "a"), props=("C02",))


@pred
def no_block_start(a, b):
    return forall(j, a <= j < b, mk(j) != 7)


@pred
def no_close_before(k0, b):
    """no mark in k0 .. b-1 closes the bracket opened just before k0"""
    return forall(q, k0 <= q < b, not (mk(q) == 2 and bal(k0, q) == 0))


@contract(S + "_move_to_closed_bracket")
class _:
    """returns the start of the '}' that closes the bracket opened just before the cursor: the first '}' mark at
    brace balance 0 -- unless a new '@block{' starts first (the mark is handed back and the block aborted at its
    start) or the text ends (abort at the end of the text); no '@' mark is ever consumed"""
    uses_marks = True
    uses_lemmas = ["bal-skips-newlines"]
    sorts = {"self": "ref:Splitter", "result": "int"}
    requires = {"scan": "scan(self)", "nothing-pending": "midx(self._unaccepted_mark) == -1", "iterator": "not isnone(self._markiter)"}
    loops = {1: {"invariant": {
        "range": "old(CUR()) <= CUR() <= NMARKS() and midx(self._unaccepted_mark) == -1 and len(self.bibstr) == BLEN() and not isnone(self._markiter)",
        "balance": "num_additional_brackets == bal(old(CUR()), CUR()) and num_additional_brackets >= 0",
        "no-at": "no_block_start(old(CUR()), CUR())",
        "no-close": "no_close_before(old(CUR()), CUR())",
    }, "decreases": "NMARKS() - CUR()", "props": ("C01", "C02", "C04")}}
    ensures = {
        "C02.closing-bracket": "exists(r, old(CUR()) <= r < NMARKS(), mk(r) == 2 and bal(old(CUR()), r) == 0 and no_close_before(old(CUR()), r) and no_block_start(old(CUR()), r) and result == ms(r) and CUR() == r + 1)",
        "C03.cci": "self._current_char_index == result",
        "C04.nothing-pending": "midx(self._unaccepted_mark) == -1",
    }
    raises = {"BlockAbortedException": {
        "when": None,
        "ensures": {
            "C04.handback-or-eof": "(midx(self._unaccepted_mark) >= 0 and mk(midx(self._unaccepted_mark)) == 7 and CUR() == midx(self._unaccepted_mark) + 1 and no_block_start(old(CUR()), midx(self._unaccepted_mark)) and isint(exc.end_index) and ival(exc.end_index) == ms(midx(self._unaccepted_mark))) or (midx(self._unaccepted_mark) == -1 and CUR() == NMARKS() and no_block_start(old(CUR()), NMARKS()) and isint(exc.end_index) and ival(exc.end_index) == BLEN())",
            "C04.monotone": "CUR() >= old(CUR())",
        }}}
    modifies = ["@self._unaccepted_mark", "@self._current_char_index", "@self._current_line", "ghost:cur:int"]
