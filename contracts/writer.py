"""Contracts of bibtexparser/writer.py (property C06; used by C01, C05, C07)."""
from pyvc.api import contract, pred, rec

COLUMN_INT = "isint(bibtex_format._align_field_values) and ival(bibtex_format._align_field_values) >= 0"


@pred
def pad(col, key):
    return ' ' * max(0, col - len(key) - 3)


@pred
def field_line(fs, j, n, indent, col, tc):
    return (indent + fs[j]._key + pad(col, fs[j]._key) + " = " + sval(fs[j]._value)
            + ("," if tc or j < n - 1 else "") + "\n")


@rec(args={"fs": "list:ref:Field", "i": "int", "n": "int", "indent": "str", "col": "int", "tc": "bool"}, ret="str")
def field_lines(fs, i, n, indent, col, tc):
    return "" if i <= 0 else field_lines(fs, i - 1, n, indent, col, tc) + field_line(fs, i - 1, n, indent, col, tc)


@pred
def entry_text(block, indent, tc, col):
    return ("@" + block._entry_type + "{" + block._key + ",\n"
            + field_lines(block._fields, len(block._fields), len(block._fields), indent, col, tc)
            + "}\n")


@pred
def string_text(block):
    return "@string{" + block._key + " = " + sval(block._value) + "}\n"


@pred
def failed_text(block, pfc):
    # pfc: the CONFIGURED comment (property C06), formatted with the number of raw lines
    return pfc.format(n=nlines(sval(block._raw))) + "\n" + sval(block._raw) + "\n"


@rec(args={"block": "ref:Block", "indent": "str", "tc": "bool", "pfc": "str", "col": "int"}, ret="str")
def block_text(block, indent, tc, pfc, col):
    return (entry_text(as_ref(block, 'ref:Entry'), indent, tc, col) if isinstance(block, Entry)
            else string_text(as_ref(block, 'ref:String')) if isinstance(block, String)
            else "@preamble{" + as_ref(block, 'ref:Preamble')._value + "}\n" if isinstance(block, Preamble)
            else "@comment{" + as_ref(block, 'ref:ExplicitComment')._comment + "}\n" if isinstance(block, ExplicitComment)
            else as_ref(block, 'ref:ImplicitComment')._comment + "\n" if isinstance(block, ImplicitComment)
            else failed_text(as_ref(block, 'ref:ParsingFailedBlock'), pfc))


@pred
def writable(block):
    """type invariant of a block the writer can serialise (what AddEnclosing / the splitter produce)"""
    return ((isinstance(block, Entry) or isinstance(block, String) or isinstance(block, Preamble)
             or isinstance(block, ExplicitComment) or isinstance(block, ImplicitComment)
             or isinstance(block, ParsingFailedBlock))
            and implies(isinstance(block, Entry), forall(j, 0 <= j < len(as_ref(block, 'ref:Entry')._fields),
                                                         isstr(as_ref(block, 'ref:Entry')._fields[j]._value)))
            and implies(isinstance(block, String), isstr(as_ref(block, 'ref:String')._value))
            and implies(isinstance(block, ParsingFailedBlock), isstr(block._raw)))


@pred
def fmt_block_text(block, fmt, col):
    return block_text(block, fmt._indent, fmt._trailing_comma, fmt._parsing_failed_comment, col)


@pred
def fmt_blocks_text(bs, i, n, fmt, col):
    return blocks_text(bs, i, n, fmt._indent, fmt._block_separator, fmt._trailing_comma, fmt._parsing_failed_comment, col)


@rec(args={"bs": "list:ref:Block", "i": "int", "n": "int", "indent": "str", "sep": "str", "tc": "bool", "pfc": "str", "col": "int"}, ret="str")
def blocks_text(bs, i, n, indent, sep, tc, pfc, col):
    """the writer's output for the first i of n blocks: block texts in order, the separator after every
    block but the last; `col` is the value column in force (the configured int, or the auto column)"""
    return "" if i <= 0 else (blocks_text(bs, i - 1, n, indent, sep, tc, pfc, col) + block_text(bs[i - 1], indent, tc, pfc, col)
                              + (sep if i - 1 < n - 1 else ""))


@contract("bibtexparser.writer._val_intent_string")
class _:
    """padding = spaces(max(0, value_column - len(key) - 3))"""
    sorts = {"bibtex_format": "ref:BibtexFormat", "key": "str", "result": "str"}
    requires = {"column-int": COLUMN_INT}
    ensures = {
        "C06.pad": "result == pad(ival(bibtex_format._align_field_values), key)",
        "C06.column": "implies(len(key) + 3 <= ival(bibtex_format._align_field_values), len(key) + len(result) + 3 == ival(bibtex_format._align_field_values))",
        "C06.long-key": "implies(len(key) + 3 >= ival(bibtex_format._align_field_values), result == '')",
    }
    raises = {}
    modifies = []
    allocates = False


@contract("bibtexparser.writer._treat_entry")
class _:
    """the pieces of an entry concatenate to entry_text: header, one line per field (indent, key, padding,
    ' = ', value, comma rule, newline), closing brace"""
    sorts = {"block": "ref:Entry", "bibtex_format": "ref:BibtexFormat", "result": "list:str"}
    requires = {"column-int": COLUMN_INT,
                "values-str": "forall(j, 0 <= j < len(block._fields), isstr(block._fields[j]._value))"}
    locals = {"res": "list:str"}
    loops = {1: {"cursor": "_i",
                 "invariant": {
                     "range": "0 <= _i <= len(block._fields)",
                     "text": "joined(res) == '@' + block._entry_type + '{' + block._key + ',\\n' + field_lines(block._fields, _i, len(block._fields), bibtex_format._indent, ival(bibtex_format._align_field_values), bibtex_format._trailing_comma)",
                     "res-fresh": "fresh(res)"},
                 "props": ("C06",)}}
    ensures = {"C06.entry-text": "joined(result) == entry_text(block, bibtex_format._indent, bibtex_format._trailing_comma, ival(bibtex_format._align_field_values))",
               "C07.fresh": "fresh(result)"}
    raises = {}
    modifies = []


@contract("bibtexparser.writer._treat_string")
class _:
    sorts = {"block": "ref:String", "bibtex_format": "ref:BibtexFormat", "result": "list:str"}
    requires = {"value-str": "isstr(block._value)"}
    ensures = {"C06.string-text": "joined(result) == string_text(block)", "C07.fresh": "fresh(result)"}
    raises = {}
    modifies = []


@contract("bibtexparser.writer._treat_preamble")
class _:
    sorts = {"block": "ref:Preamble", "bibtex_format": "ref:BibtexFormat", "result": "list:str"}
    ensures = {"C06.preamble-text": "joined(result) == '@preamble{' + block._value + '}\\n'", "C07.fresh": "fresh(result)"}
    raises = {}
    modifies = []


@contract("bibtexparser.writer._treat_impl_comment")
class _:
    sorts = {"block": "ref:ImplicitComment", "bibtex_format": "ref:BibtexFormat", "result": "list:str"}
    ensures = {"C06.icomment-text": "joined(result) == block._comment + '\\n'", "C07.fresh": "fresh(result)"}
    raises = {}
    modifies = []


@contract("bibtexparser.writer._treat_expl_comment")
class _:
    sorts = {"block": "ref:ExplicitComment", "bibtex_format": "ref:BibtexFormat", "result": "list:str"}
    ensures = {"C06.ecomment-text": "joined(result) == '@comment{' + block._comment + '}\\n'", "C07.fresh": "fresh(result)"}
    raises = {}
    modifies = []


@contract("bibtexparser.writer._treat_failed_block")
class _:
    """failed blocks are emitted verbatim under the CONFIGURED warning comment (property text)"""
    sorts = {"block": "ref:ParsingFailedBlock", "bibtex_format": "ref:BibtexFormat", "result": "list:str"}
    requires = {"raw-str": "isstr(block._raw)"}
    ensures = {"C06.failed-text": "joined(result) == failed_text(block, bibtex_format._parsing_failed_comment)", "C07.fresh": "fresh(result)"}
    raises = {}
    modifies = []


@contract("bibtexparser.writer._treat_block")
class _:
    sorts = {"bibtex_format": "ref:BibtexFormat", "block": "ref:Block", "result": "list:str"}
    requires = {"column-int": COLUMN_INT, "writable": "writable(block)"}
    ensures = {"C06.block-text": "joined(result) == fmt_block_text(block, bibtex_format, ival(bibtex_format._align_field_values))", "C07.fresh": "fresh(result)"}
    raises = {}
    modifies = []


@pred
def auto_bound(library, c):
    return forall((p, q), 0 <= p < len(library._blocks) and isinstance(library._blocks[p], Entry) and 0 <= q < len(as_ref(library._blocks[p], 'ref:Entry')._fields), len(as_ref(library._blocks[p], 'ref:Entry')._fields[q]._key) + 3 <= c)


@pred
def auto_attained(library, c):
    return c == 3 or exists((p, q), 0 <= p < len(library._blocks) and isinstance(library._blocks[p], Entry) and 0 <= q < len(as_ref(library._blocks[p], 'ref:Entry')._fields), len(as_ref(library._blocks[p], 'ref:Entry')._fields[q]._key) + 3 == c)


@contract("bibtexparser.writer._calculate_auto_value_align")
class _:
    """3 + the longest field key over all Entry blocks (no key: 3).  `auto-bound`: every key of every
    entry fits the column; `auto-min`: some key attains it, so no smaller column would do."""
    sorts = {"library": "ref:Library", "result": "int"}
    loops = {
        1: {"cursor": "_i", "iter_name": "ents",
            "invariant": {
                "range": "0 <= _i <= len(ents)",
                "bound": "forall((p, q), 0 <= p < _i and 0 <= q < len(ents[p]._fields), len(ents[p]._fields[q]._key) <= max_key_len)",
                "attained": "max_key_len == 0 or exists((p, q), 0 <= p < _i and 0 <= q < len(ents[p]._fields), len(ents[p]._fields[q]._key) == max_key_len)",
                "nonneg": "max_key_len >= 0"},
            "props": ("C06",)},
        2: {"cursor": "_j", "iter_name": "fd",
            "invariant": {
                "range": "0 <= _j <= len(fd)",
                "outer": "0 <= _i < len(ents) and same(entry, ents[_i])",
                "bound-outer": "forall((p, q), 0 <= p < _i and 0 <= q < len(ents[p]._fields), len(ents[p]._fields[q]._key) <= max_key_len)",
                "bound-inner": "forall(t, 0 <= t < _j, len(dict_key_at(fd, t)) <= max_key_len)",
                "attained": "max_key_len == 0 or exists((p, q), 0 <= p <= _i and 0 <= q < len(ents[p]._fields), len(ents[p]._fields[q]._key) == max_key_len)",
                "nonneg": "max_key_len >= 0"},
            "props": ("C06",)},
    }
    ensures = {
        "C06.auto-bound": "auto_bound(library, result)",
        "C06.auto-min": "auto_attained(library, result)",
        "C06.auto-ge3": "result >= 3",
    }
    raises = {}
    modifies = []


@contract("bibtexparser.writer.BibtexFormat.__init__")
class _:
    sorts = {"self": "ref:BibtexFormat"}
    ensures = {"C06.defaults": "self._indent == '\\t' and isint(self._align_field_values) and ival(self._align_field_values) == 0 and self._block_separator == '\\n\\n' and self._trailing_comma == False and self._parsing_failed_comment == '% WARNING Parsing failed for the following {n} lines.'"}
    raises = {}
    modifies = ["@self._indent", "@self._align_field_values", "@self._block_separator", "@self._trailing_comma", "@self._parsing_failed_comment"]
    allocates = False


@contract("bibtexparser.writer.BibtexFormat.value_column.setter")
class _:
    """accepts exactly non-negative ints and 'auto'"""
    sorts = {"self": "ref:BibtexFormat", "align_values": "any"}
    ensures = {"C06.setter-stores": "self._align_field_values == align_values"}
    raises = {"ValueError": {"when": "not ((isint(align_values) and ival(align_values) >= 0) or isinstance(align_values, bool) or (isstr(align_values) and sval(align_values) == 'auto'))",
                             "ensures": {"C06.setter-rollback": "self._align_field_values == old(self._align_field_values)"}}}
    modifies = ["@self._align_field_values"]
    allocates = False


@pred
def all_writable(library):
    return forall(j, 0 <= j < len(library._blocks), writable(library._blocks[j]))


@contract("bibtexparser.writer.write")
class _:
    """output = blocks in library order, each block's text, the separator between blocks and none after
    the last; with 'auto' the column is 3 + the longest key and the caller's format is not written to"""
    sorts = {"library": "ref:Library", "bibtex_format": "optref:ref:BibtexFormat", "result": "str"}
    requires = {
        "writable": "all_writable(library)",
        "column-valid": "isnone(bibtex_format) or (isint(bibtex_format._align_field_values) and ival(bibtex_format._align_field_values) >= 0) or (isstr(bibtex_format._align_field_values) and sval(bibtex_format._align_field_values) == 'auto')",
    }
    locals = {"string_pieces": "list:str"}
    loops = {1: {"cursor": "_i", "iter_name": "blks",
                 "invariant": {
                     "range": "0 <= _i <= len(library._blocks) and same(blks, library._blocks)",
                     "fmt": "not isnone(bibtex_format) and isint(bibtex_format._align_field_values) and ival(bibtex_format._align_field_values) >= 0",
                     "text": "joined(string_pieces) == fmt_blocks_text(library._blocks, _i, len(library._blocks), bibtex_format, ival(bibtex_format._align_field_values))",
                     "copy-fresh": "implies(not isnone(old(bibtex_format)) and isstr(old(bibtex_format._align_field_values)), fresh(bibtex_format))",
                     "copy-indent": "implies(not isnone(old(bibtex_format)) and isstr(old(bibtex_format._align_field_values)), bibtex_format._indent == old(bibtex_format._indent))",
                     "copy-sep": "implies(not isnone(old(bibtex_format)) and isstr(old(bibtex_format._align_field_values)), bibtex_format._block_separator == old(bibtex_format._block_separator))",
                     "copy-comma": "implies(not isnone(old(bibtex_format)) and isstr(old(bibtex_format._align_field_values)), bibtex_format._trailing_comma == old(bibtex_format._trailing_comma))",
                     "copy-comment": "implies(not isnone(old(bibtex_format)) and isstr(old(bibtex_format._align_field_values)), bibtex_format._parsing_failed_comment == old(bibtex_format._parsing_failed_comment))",
                     "copy-bound": "implies(not isnone(old(bibtex_format)) and isstr(old(bibtex_format._align_field_values)), auto_bound(library, ival(bibtex_format._align_field_values)))",
                     "copy-attained": "implies(not isnone(old(bibtex_format)) and isstr(old(bibtex_format._align_field_values)), auto_attained(library, ival(bibtex_format._align_field_values)))",
                     "fmt-same": "implies(not isnone(old(bibtex_format)) and not isstr(old(bibtex_format._align_field_values)), same(bibtex_format, old(bibtex_format)))",
                     "pieces-fresh": "fresh(string_pieces)",
                 },
                 "props": ("C06",)}}
    ensures = {
        "C06.int-column": "implies(not isnone(bibtex_format) and isint(bibtex_format._align_field_values), result == fmt_blocks_text(library._blocks, len(library._blocks), len(library._blocks), bibtex_format, ival(bibtex_format._align_field_values)))",
        "C06.auto-column": "implies(not isnone(bibtex_format) and isstr(bibtex_format._align_field_values), forall(c, 3 <= c and auto_bound(library, c) and auto_attained(library, c), result == fmt_blocks_text(library._blocks, len(library._blocks), len(library._blocks), bibtex_format, c)))",
        "C06.format-unchanged": "isnone(bibtex_format) or (bibtex_format._align_field_values == old(bibtex_format._align_field_values) and bibtex_format._indent == old(bibtex_format._indent) and bibtex_format._block_separator == old(bibtex_format._block_separator) and bibtex_format._trailing_comma == old(bibtex_format._trailing_comma) and bibtex_format._parsing_failed_comment == old(bibtex_format._parsing_failed_comment))",
    }
    raises = {}
    modifies = []
