"""Contracts of bibtexparser/writer.py (property C06; used by C01, C05, C07)."""
from pyvc.api import contract, pred, rec

COLUMN_INT = "isint(bibtex_format._align_field_values) and ival(bibtex_format._align_field_values) >= 0"


@pred
def pad(col, key):
    return ' ' * max(0, col - len(key) - 3)


@pred
def field_line(fs, j, n, indent, col, tc):
    return (indent + fs[j]._key + pad(col, fs[j]._key) + " = " + sval(fs[j]._value)
            + ("," if tc or j < n - 1 else "") + "\n")


@rec(args={"fs": "list:ref:Field", "i": "int", "n": "int", "indent": "str", "col": "int", "tc": "bool"}, ret="str")
def field_lines(fs, i, n, indent, col, tc):
    return "" if i <= 0 else field_lines(fs, i - 1, n, indent, col, tc) + field_line(fs, i - 1, n, indent, col, tc)


@pred
def entry_text(block, fmt):
    return ("@" + block._entry_type + "{" + block._key + ",\n"
            + field_lines(block._fields, len(block._fields), len(block._fields), fmt._indent,
                          ival(fmt._align_field_values), fmt._trailing_comma)
            + "}\n")


@pred
def string_text(block, fmt):
    return "@string{" + block._key + " = " + sval(block._value) + "}\n"


@pred
def failed_text(block, fmt):
    # the CONFIGURED comment (property C06), formatted with the number of raw lines
    return fmt._parsing_failed_comment.format(n=len(sval(block._raw).splitlines())) + "\n" + sval(block._raw) + "\n"


@pred
def block_text(block, fmt):
    return (entry_text(as_ref(block, 'ref:Entry'), fmt) if isinstance(block, Entry)
            else string_text(as_ref(block, 'ref:String'), fmt) if isinstance(block, String)
            else "@preamble{" + as_ref(block, 'ref:Preamble')._value + "}\n" if isinstance(block, Preamble)
            else "@comment{" + as_ref(block, 'ref:ExplicitComment')._comment + "}\n" if isinstance(block, ExplicitComment)
            else as_ref(block, 'ref:ImplicitComment')._comment + "\n" if isinstance(block, ImplicitComment)
            else failed_text(as_ref(block, 'ref:ParsingFailedBlock'), fmt))


@pred
def writable(block):
    """type invariant of a block the writer can serialise (what AddEnclosing / the splitter produce)"""
    return ((isinstance(block, Entry) or isinstance(block, String) or isinstance(block, Preamble)
             or isinstance(block, ExplicitComment) or isinstance(block, ImplicitComment)
             or isinstance(block, ParsingFailedBlock))
            and implies(isinstance(block, Entry), forall(j, 0 <= j < len(as_ref(block, 'ref:Entry')._fields),
                                                         isstr(as_ref(block, 'ref:Entry')._fields[j]._value)))
            and implies(isinstance(block, String), isstr(as_ref(block, 'ref:String')._value))
            and implies(isinstance(block, ParsingFailedBlock), isstr(block._raw)))


@rec(args={"bs": "list:ref:Block", "i": "int", "n": "int", "fmt": "ref:BibtexFormat"}, ret="str")
def blocks_text(bs, i, n, fmt):
    return "" if i <= 0 else (blocks_text(bs, i - 1, n, fmt) + block_text(bs[i - 1], fmt)
                              + (fmt._block_separator if i - 1 < n - 1 else ""))


@contract("bibtexparser.writer._val_intent_string")
class _:
    """padding = spaces(max(0, value_column - len(key) - 3))"""
    sorts = {"bibtex_format": "ref:BibtexFormat", "key": "str", "result": "str"}
    requires = {"column-int": COLUMN_INT}
    ensures = {
        "C06.pad": "result == pad(ival(bibtex_format._align_field_values), key)",
        "C06.column": "implies(len(key) + 3 <= ival(bibtex_format._align_field_values), len(key) + len(result) + 3 == ival(bibtex_format._align_field_values))",
        "C06.long-key": "implies(len(key) + 3 >= ival(bibtex_format._align_field_values), result == '')",
    }
    raises = {}
    modifies = []
    allocates = False


@contract("bibtexparser.writer._treat_entry")
class _:
    """the pieces of an entry concatenate to entry_text: header, one line per field (indent, key, padding,
    ' = ', value, comma rule, newline), closing brace"""
    sorts = {"block": "ref:Entry", "bibtex_format": "ref:BibtexFormat", "result": "list:str"}
    requires = {"column-int": COLUMN_INT,
                "values-str": "forall(j, 0 <= j < len(block._fields), isstr(block._fields[j]._value))"}
    locals = {"res": "list:str"}
    loops = {1: {"cursor": "_i",
                 "invariant": {
                     "range": "0 <= _i <= len(block._fields)",
                     "text": "joined(res) == '@' + block._entry_type + '{' + block._key + ',\\n' + field_lines(block._fields, _i, len(block._fields), bibtex_format._indent, ival(bibtex_format._align_field_values), bibtex_format._trailing_comma)",
                     "res-fresh": "fresh(res)"},
                 "props": ("C06",)}}
    ensures = {"C06.entry-text": "joined(result) == entry_text(block, bibtex_format)",
               "C07.fresh": "fresh(result)"}
    raises = {}
    modifies = []


@contract("bibtexparser.writer._treat_string")
class _:
    sorts = {"block": "ref:String", "bibtex_format": "ref:BibtexFormat", "result": "list:str"}
    requires = {"value-str": "isstr(block._value)"}
    ensures = {"C06.string-text": "joined(result) == string_text(block, bibtex_format)", "C07.fresh": "fresh(result)"}
    raises = {}
    modifies = []


@contract("bibtexparser.writer._treat_preamble")
class _:
    sorts = {"block": "ref:Preamble", "bibtex_format": "ref:BibtexFormat", "result": "list:str"}
    ensures = {"C06.preamble-text": "joined(result) == '@preamble{' + block._value + '}\\n'", "C07.fresh": "fresh(result)"}
    raises = {}
    modifies = []


@contract("bibtexparser.writer._treat_impl_comment")
class _:
    sorts = {"block": "ref:ImplicitComment", "bibtex_format": "ref:BibtexFormat", "result": "list:str"}
    ensures = {"C06.icomment-text": "joined(result) == block._comment + '\\n'", "C07.fresh": "fresh(result)"}
    raises = {}
    modifies = []


@contract("bibtexparser.writer._treat_expl_comment")
class _:
    sorts = {"block": "ref:ExplicitComment", "bibtex_format": "ref:BibtexFormat", "result": "list:str"}
    ensures = {"C06.ecomment-text": "joined(result) == '@comment{' + block._comment + '}\\n'", "C07.fresh": "fresh(result)"}
    raises = {}
    modifies = []


@contract("bibtexparser.writer._treat_failed_block")
class _:
    """failed blocks are emitted verbatim under the CONFIGURED warning comment (property text)"""
    sorts = {"block": "ref:ParsingFailedBlock", "bibtex_format": "ref:BibtexFormat", "result": "list:str"}
    requires = {"raw-str": "isstr(block._raw)"}
    ensures = {"C06.failed-text": "joined(result) == failed_text(block, bibtex_format)", "C07.fresh": "fresh(result)"}
    raises = {}
    modifies = []


@contract("bibtexparser.writer._treat_block")
class _:
    sorts = {"bibtex_format": "ref:BibtexFormat", "block": "ref:Block", "result": "list:str"}
    requires = {"column-int": COLUMN_INT, "writable": "writable(block)"}
    ensures = {"C06.block-text": "joined(result) == block_text(block, bibtex_format)", "C07.fresh": "fresh(result)"}
    raises = {}
    modifies = []
