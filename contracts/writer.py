"""Contracts of bibtexparser/writer.py (property C06; used by C01, C05, C07)."""
from pyvc.api import contract, pred, rec


@contract("bibtexparser.writer._val_intent_string")
class _:
    """padding = spaces(max(0, value_column - len(key) - 3))"""
    sorts = {"bibtex_format": "ref:BibtexFormat", "key": "str", "result": "str"}
    requires = {"column-int": "isinstance(bibtex_format._align_field_values, int) and not isinstance(bibtex_format._align_field_values, bool)"}
    ensures = {
        "C06.pad": "result == ' ' * max(0, ival(bibtex_format._align_field_values) - len(key) - 3)",
        "C06.column": "implies(len(key) + 3 <= ival(bibtex_format._align_field_values), len(key) + len(result) + 3 == ival(bibtex_format._align_field_values))",
        "C06.long-key": "implies(len(key) + 3 >= ival(bibtex_format._align_field_values), result == '')",
    }
    raises = {}
    modifies = []
    allocates = False
