"""Contracts of bibtexparser/middlewares/interpolate.py (property C11; used by C01, C05)."""
from pyvc.api import contract, pred

I = "bibtexparser.middlewares.interpolate."


@pred
def enclosed(v):
    """value enclosed in braces or quotes (first/last character test of the stripped source value)"""
    return (sval(v).startswith('"') and sval(v).endswith('"')) or (sval(v).startswith('{') and sval(v).endswith('}'))


@pred
def resolvable(lib, v):
    """a bare identifier equal (case-sensitively: dictionary lookup) to the key of a live @string"""
    return isstr(v) and not enclosed(v) and sval(v) in lib._strings_by_key


@contract(I + "_value_is_nonstring_or_enclosed")
class _:
    sorts = {"value": "any", "result": "bool"}
    ensures = {"C11.skip-rule": "result == (not isstr(value) or enclosed(value))"}
    raises = {}
    modifies = []
    allocates = False


@pred
def entry_blocks_fields_distinct(lib):
    """no Field object occurs twice (within an entry or across entries), stated through an owner map: some function
    sends every field of every held entry to its entry and position (a left inverse, hence injectivity)"""
    return forall((p, a), 0 <= p < len(lib._blocks) and isinstance(lib._blocks[p], Entry) and 0 <= a < len(as_ref(lib._blocks[p], 'ref:Entry')._fields),
                  ghostfn('rsr_owner', ref_id(as_ref(lib._blocks[p], 'ref:Entry')._fields[a])) == ref_id(lib._blocks[p])
                  and ghostfn('rsr_pos', ref_id(as_ref(lib._blocks[p], 'ref:Entry')._fields[a])) == a)


@pred
def field_resolved(lib, e, q):
    """field q of entry e holds the referenced string's content if its old value was resolvable, else its old value"""
    return (same(e._fields[q]._value, was(lib._strings_by_key[sval(was(e._fields[q], '_value'))], '_value'))
            if resolvable(lib, was(e._fields[q], '_value')) else same(e._fields[q]._value, was(e._fields[q], '_value')))


@contract(I + "ResolveStringReferencesMiddleware.transform")
class _:
    """in-place mode: every resolvable field value is replaced by the content of the @string with that key
    (the live = first one, by the library's first-wins index); every other field keeps its value object;
    @string blocks, keys, types, raw are outside the frame"""
    sorts = {"self": "ref:ResolveStringReferencesMiddleware", "library": "ref:Library", "result": "ref:Library"}
    requires = {"inplace": "self._allow_inplace_modification",
                "fields-distinct": "entry_blocks_fields_distinct(library)",
                "entries-once": "forall((p, q), 0 <= p < q < len(library._blocks), implies(isinstance(library._blocks[p], Entry), not same(library._blocks[p], library._blocks[q])))",
                "meta-dicts": "forall(p, 0 <= p < len(library._blocks), not isnone(library._blocks[p]._parser_metadata) and not same(library._blocks[p]._parser_metadata, library._strings_by_key) and not same(library._blocks[p]._parser_metadata, library._entries_by_key))"}
    locals = {"resolved_fields": "list:str"}
    loops = {
        1: {"cursor": "_i", "iter_name": "ents",
            "invariant": {
                "range": "0 <= _i <= len(ents)",
                "ents-owner": "forall((p, a), 0 <= p < len(ents) and 0 <= a < len(ents[p]._fields), ghostfn('rsr_owner', ref_id(ents[p]._fields[a])) == ref_id(ents[p]) and ghostfn('rsr_pos', ref_id(ents[p]._fields[a])) == a)",
                "ents-once": "forall((p, q), 0 <= p < q < len(ents), not same(ents[p], ents[q]))",
                "ents-meta": "forall(p, 0 <= p < len(ents), not isnone(ents[p]._parser_metadata) and not same(ents[p]._parser_metadata, library._strings_by_key))",
                "structure": "unchanged('Library._blocks') and unchanged('list:ref:Block') and unchanged('Entry._fields') and unchanged('Field._key') and unchanged('String._value') and unchanged('String._key') and unchanged('Library._strings_by_key')",
                "strings-index": "content_unchanged(library._strings_by_key)",
                "done": "forall((p, q), 0 <= p < _i and 0 <= q < len(ents[p]._fields), field_resolved(library, ents[p], q))",
                "todo": "forall((p, q), _i <= p < len(ents) and 0 <= q < len(ents[p]._fields), same(ents[p]._fields[q]._value, was(ents[p]._fields[q], '_value')))",
            },
            "props": ("C11",)},
        2: {"cursor": "_j", "iter_name": "flds",
            "invariant": {
                "range": "0 <= _j <= len(flds) and 0 <= _i < len(ents) and same(entry, ents[_i]) and same(flds, entry._fields)",
                "ents-owner": "forall((p, a), 0 <= p < len(ents) and 0 <= a < len(ents[p]._fields), ghostfn('rsr_owner', ref_id(ents[p]._fields[a])) == ref_id(ents[p]) and ghostfn('rsr_pos', ref_id(ents[p]._fields[a])) == a)",
                "ents-once": "forall((p, q), 0 <= p < q < len(ents), not same(ents[p], ents[q]))",
                "ents-meta": "forall(p, 0 <= p < len(ents), not isnone(ents[p]._parser_metadata) and not same(ents[p]._parser_metadata, library._strings_by_key))",
                "structure": "unchanged('Library._blocks') and unchanged('list:ref:Block') and unchanged('Entry._fields') and unchanged('Field._key') and unchanged('String._value') and unchanged('String._key') and unchanged('Library._strings_by_key')",
                "strings-index": "content_unchanged(library._strings_by_key)",
                "done-outer": "forall((p, q), 0 <= p < _i and 0 <= q < len(ents[p]._fields), field_resolved(library, ents[p], q))",
                "done-inner": "forall(q, 0 <= q < _j, field_resolved(library, entry, q))",
                "todo-inner": "forall(q, _j <= q < len(entry._fields), same(entry._fields[q]._value, was(entry._fields[q], '_value')))",
                "todo-outer": "forall((p, q), _i < p < len(ents) and 0 <= q < len(ents[p]._fields), same(ents[p]._fields[q]._value, was(ents[p]._fields[q], '_value')))",
                "resolved-fresh": "fresh(resolved_fields)",
            },
            "props": ("C11",)},
    }
    ensures = {
        "C11.resolution-rule": "forall((p, q), 0 <= p < len(library._blocks) and isinstance(library._blocks[p], Entry) and 0 <= q < len(as_ref(library._blocks[p], 'ref:Entry')._fields), field_resolved(library, as_ref(library._blocks[p], 'ref:Entry'), q))",
        "C11.same-library": "same(result, library)",
        "C11.strings-stay": "unchanged('String._value') and unchanged('String._key') and unchanged('Library._blocks') and unchanged('list:ref:Block') and content_unchanged(library._strings_by_key)",
        "C11.keys-types-untouched": "unchanged('Field._key') and unchanged('Entry._fields') and unchanged('Entry._key') and unchanged('Entry._entry_type') and unchanged('Block._raw')",
    }
    raises = {}
    modifies = ["Field._value", "dict:str:any"]
