"""Contract of SortBlocksByTypeAndKeyMiddleware._block_junks (property C16: "keeping comments attached").

The grouping that keeps comments on top of their block is a partition of the block list into consecutive "junks":
every junk but possibly the last ends with exactly one non-comment block (its main block) and holds only comments
before it; a trailing junk may hold comments only; concatenating the junks gives back the input, every block once, in
order.  The sort key of a junk is the key of its main block when that block has a key (Entry, String, duplicate-key
block), else "".  The sort itself uses closures with exception control flow as sort keys and is decided by the bounded
layer (p16); A-SORT (stable permutation) then carries "comments stay attached" from this partition."""
from pyvc.api import contract, pred

SB = "bibtexparser.middlewares.sorting_blocks.SortBlocksByTypeAndKeyMiddleware."


@pred
def is_comment(b):
    return cls_is(b, 'ExplicitComment') or cls_is(b, 'ImplicitComment')


@pred
def has_key(b):
    return cls_is(b, 'Entry') or cls_is(b, 'String') or cls_is(b, 'DuplicateBlockKeyBlock')


@pred
def key_of(b):
    return (as_ref(b, 'ref:Entry')._key if cls_is(b, 'Entry') else (as_ref(b, 'ref:String')._key if cls_is(b, 'String') else as_ref(b, 'ref:DuplicateBlockKeyBlock')._key))


@pred
def junk_start(t):
    """ghost array je[t] = number of input blocks in the junks 0 .. t"""
    return 0 if t == 0 else ghost('je', t - 1)


@pred
def junk_shape(J, t):
    """junk J is the t-th junk: it holds je[t] - junk_start(t) >= 1 blocks, its last block is not a comment and
    determines the sort key"""
    return (junk_start(t) < ghost('je', t) and len(J.blocks) == ghost('je', t) - junk_start(t)
            and not is_comment(J.blocks[len(J.blocks) - 1])
            and isstr(J.sort_key))


@pred
def junk_key(J):
    """the sort key of a junk is the key of its main (last) block when that block has one, else the empty string"""
    return (implies(cls_is(J.blocks[len(J.blocks) - 1], 'Entry'), sval(J.sort_key) == as_ref(J.blocks[len(J.blocks) - 1], 'ref:Entry')._key)
            and implies(cls_is(J.blocks[len(J.blocks) - 1], 'String'), sval(J.sort_key) == as_ref(J.blocks[len(J.blocks) - 1], 'ref:String')._key)
            and implies(cls_is(J.blocks[len(J.blocks) - 1], 'DuplicateBlockKeyBlock'), sval(J.sort_key) == as_ref(J.blocks[len(J.blocks) - 1], 'ref:DuplicateBlockKeyBlock')._key)
            and implies(not has_key(J.blocks[len(J.blocks) - 1]), sval(J.sort_key) == ""))


@pred
def junks_hold_input(junks, n, blocks):
    """the junks 0 .. n-1 hold exactly the input blocks of their ranges, in order"""
    return forall((t, q), 0 <= t < n and 0 <= q < len(junks[t].blocks), same(junks[t].blocks[q], blocks[junk_start(t) + q]))


@pred
def junks_comments_first(junks, n):
    """in the junks 0 .. n-1 every block before the last one is a comment"""
    return forall((t, q), 0 <= t < n and 0 <= q < len(junks[t].blocks) - 1, is_comment(junks[t].blocks[q]))


@contract(SB + "_block_junks")
class _:
    sorts = {"blocks": "list:ref:Block", "result": "list:ref:_BlockJunk"}
    requires = {"blocks-exist": "forall(i, 0 <= i < len(blocks), existed(blocks[i]))"}
    locals = {"block_junks": "list:ref:_BlockJunk", "current_junk": "ref:_BlockJunk"}
    # ghost: jn = number of input blocks consumed, cs = input position where the current junk starts, je[t] = input
    # position where junk t ends
    ghost_code = [("block_junks = []", [("jn", None, "0")]),
                  ("current_junk = _BlockJunk()", [("cs", None, "ghost('jn')")]),
                  ("block_junks.append(current_junk)", [("je", "len(block_junks) - 1", "ghost('jn')")]),
                  ("current_junk.blocks.append(block)", [("jn", None, "ghost('jn') + 1")])]
    loops = {1: {"cursor": "_i", "invariant": {
        "range": "0 <= _i <= len(blocks) and len(blocks) == old(len(blocks)) and ghost('jn') == _i",
        "input-untouched": "forall(p, 0 <= p < len(blocks), same(blocks[p], old(blocks[p])))",
        "frame": "unchanged('list:ref:Block') and unchanged('_BlockJunk.sort_key') and unchanged('_BlockJunk.blocks') and len(block_junks) >= 0 and len(current_junk.blocks) >= 0",
        "fresh": "fresh(block_junks) and fresh(current_junk) and allocated(current_junk) and fresh(current_junk.blocks) and allocated(current_junk.blocks) and not same(current_junk.blocks, block_junks)",
        "junks-distinct": "forall(t, 0 <= t < len(block_junks), fresh(block_junks[t]) and allocated(block_junks[t]) and fresh(block_junks[t].blocks) and allocated(block_junks[t].blocks) and not same(block_junks[t], current_junk) and not same(block_junks[t].blocks, current_junk.blocks) and not same(block_junks[t].blocks, block_junks))",
        "junks-shape": "forall(t, 0 <= t < len(block_junks), junk_shape(block_junks[t], t))",
        "junks-key": "forall(t, 0 <= t < len(block_junks), junk_key(block_junks[t]))",
        "junks-bounded": "forall(t, 0 <= t < len(block_junks), 0 < ghost('je', t) <= ghost('cs'))",
        "junk-blocks-exist": "forall((t, q), 0 <= t < len(block_junks) and 0 <= q < len(block_junks[t].blocks), existed(block_junks[t].blocks[q])) and forall(p, 0 <= p < len(current_junk.blocks), existed(current_junk.blocks[p]))",
        "junks-input": "junks_hold_input(block_junks, len(block_junks), blocks)",
        "junks-comments": "junks_comments_first(block_junks, len(block_junks))",
        "current": "ghost('cs') == junk_start(len(block_junks)) and 0 <= ghost('cs') <= _i and len(current_junk.blocks) == _i - ghost('cs') and forall(p, 0 <= p < len(current_junk.blocks), same(current_junk.blocks[p], blocks[ghost('cs') + p])) and isstr(current_junk.sort_key) and sval(current_junk.sort_key) == ''",
        "current-comments": "forall(p, 0 <= p < len(current_junk.blocks), is_comment(current_junk.blocks[p]))",
    }, "props": ("C16",)}}
    ensures = {
        "C16.partition": "fresh(result) and junks_hold_input(result, len(result), blocks)",
        "C16.main-block-last": "forall(t, 0 <= t < len(result) - 1, junk_shape(result[t], t)) and junks_comments_first(result, len(result) - 1)",
        "C16.sort-key": "forall(t, 0 <= t < len(result) - 1, junk_key(result[t])) and implies(len(result) > 0, junk_key(result[len(result) - 1]) or forall(p, 0 <= p < len(result[len(result) - 1].blocks), is_comment(result[len(result) - 1].blocks[p])))",
        "C16.last-junk": "implies(len(result) > 0, (junk_shape(result[len(result) - 1], len(result) - 1) and junks_comments_first(result, len(result))) or (len(result[len(result) - 1].blocks) == len(blocks) - junk_start(len(result) - 1) and len(result[len(result) - 1].blocks) > 0 and forall(p, 0 <= p < len(result[len(result) - 1].blocks), is_comment(result[len(result) - 1].blocks[p]))))",
        "C16.covers-all": "implies(len(result) == 0, len(blocks) == 0) and implies(len(result) > 0, junk_start(len(result) - 1) + len(result[len(result) - 1].blocks) == len(blocks))",
        "C16.input-untouched": "len(blocks) == old(len(blocks)) and forall(p, 0 <= p < len(blocks), same(blocks[p], old(blocks[p])))",
    }
    raises = {}
    modifies = ["ghost:je:arr", "ghost:jn:int", "ghost:cs:int"]
