"""Contracts of bibtexparser/library.py (properties C08, C09; used by C01, C02, C11, C16, C20).

Class invariant WF(lib) (a statement about every finite history, because every public method has it as
pre- and postcondition on normal AND exceptional exits):
  (i)   every held Entry/String block is the value of its key in the matching index
  (ii)  every index value is an Entry/String whose key is its index key
  (iii) no Entry/String object is held at two positions
"Every index value is held" (no stale index entry) follows from the exact functional postconditions of
add / remove / replace below; as a stand-alone invariant it needs an existential witness per key and is
checked by the bounded history layer (native/p08.py).
"""
from pyvc.api import contract, pred

L = "bibtexparser.library.Library."


@pred
def held_indexed(lib):
    return forall(i, 0 <= i < len(lib._blocks),
                  implies(isinstance(lib._blocks[i], Entry),
                          as_ref(lib._blocks[i], 'ref:Entry')._key in lib._entries_by_key
                          and same(lib._entries_by_key[as_ref(lib._blocks[i], 'ref:Entry')._key], lib._blocks[i]))
                  and implies(isinstance(lib._blocks[i], String),
                              as_ref(lib._blocks[i], 'ref:String')._key in lib._strings_by_key
                              and same(lib._strings_by_key[as_ref(lib._blocks[i], 'ref:String')._key], lib._blocks[i])))


@pred
def index_typed(lib):
    return (not same(lib._entries_by_key, lib._strings_by_key)
            and forall(k, 'str', k in lib._entries_by_key, allocated(lib._entries_by_key[k]) and lib._entries_by_key[k]._key == k and cls_is(lib._entries_by_key[k], 'Entry'))
            and forall(k, 'str', k in lib._strings_by_key, allocated(lib._strings_by_key[k]) and lib._strings_by_key[k]._key == k and cls_is(lib._strings_by_key[k], 'String')))


@pred
def keyed_once(lib):
    return forall(i, 0 <= i < len(lib._blocks), allocated(lib._blocks[i])) and forall((i, j), 0 <= i < j < len(lib._blocks),
                  implies(isinstance(lib._blocks[i], Entry) or isinstance(lib._blocks[i], String), not same(lib._blocks[i], lib._blocks[j])))


@pred
def unique_keys(lib):
    """consequence of held_indexed (kept as a separate conjunct: it is the fact remove() needs)"""
    return forall((i, j), 0 <= i < len(lib._blocks) and 0 <= j < len(lib._blocks),
                  implies(isinstance(lib._blocks[i], Entry) and isinstance(lib._blocks[j], Entry)
                          and as_ref(lib._blocks[i], 'ref:Entry')._key == as_ref(lib._blocks[j], 'ref:Entry')._key, same(lib._blocks[i], lib._blocks[j]))
                  and implies(isinstance(lib._blocks[i], String) and isinstance(lib._blocks[j], String)
                              and as_ref(lib._blocks[i], 'ref:String')._key == as_ref(lib._blocks[j], 'ref:String')._key, same(lib._blocks[i], lib._blocks[j])))


@pred
def WF(lib):
    return held_indexed(lib) and index_typed(lib) and keyed_once(lib) and len(lib._blocks) >= 0


@pred
def lib_unchanged(lib):
    """the library is exactly what it was: same block list content, same two indexes incl. their order"""
    return (same(lib._blocks, old(lib._blocks)) and len(lib._blocks) == old(len(lib._blocks))
            and forall(i, 0 <= i < len(lib._blocks), same(lib._blocks[i], old(lib._blocks[i])))
            and unchanged('dict:str:ref:Entry'))


@pred
def appended(lib, x):
    return (same(lib._blocks, old(lib._blocks)) and len(lib._blocks) == old(len(lib._blocks)) + 1
            and forall(i, 0 <= i < old(len(lib._blocks)), same(lib._blocks[i], old(lib._blocks[i])))
            and same(lib._blocks[old(len(lib._blocks))], x))


@pred
def is_dup_wrapper(w, key, prev, dup):
    return (cls_is(w, 'DuplicateBlockKeyBlock') and fresh(w) and as_ref(w, 'ref:DuplicateBlockKeyBlock')._key == key
            and same(as_ref(w, 'ref:DuplicateBlockKeyBlock')._previous_block, prev)
            and same(as_ref(w, 'ref:DuplicateBlockKeyBlock')._ignore_error_block, dup)
            and same(w._raw, dup._raw) and same(w._start_line_in_file, dup._start_line_in_file))


@contract(L + "_cast_to_duplicate")
class _:
    sorts = {"prev_block_with_same_key": "ref:Block", "duplicate": "ref:Block", "result": "ref:DuplicateBlockKeyBlock"}
    requires = {"same-family": "(cls_is(prev_block_with_same_key, 'Entry') and cls_is(duplicate, 'Entry')) or (cls_is(prev_block_with_same_key, 'String') and cls_is(duplicate, 'String'))",
                "same-key": "implies(cls_is(duplicate, 'Entry'), as_ref(prev_block_with_same_key, 'ref:Entry')._key == as_ref(duplicate, 'ref:Entry')._key) and implies(cls_is(duplicate, 'String'), as_ref(prev_block_with_same_key, 'ref:String')._key == as_ref(duplicate, 'ref:String')._key)"}
    ensures = {
        "C09.wrapper": "is_dup_wrapper(result, as_ref(duplicate, 'ref:Entry')._key if cls_is(duplicate, 'Entry') else as_ref(duplicate, 'ref:String')._key, prev_block_with_same_key, duplicate)",
        "C09.wrapper-raw": "same(result._raw, duplicate._raw) and same(result._start_line_in_file, duplicate._start_line_in_file)",
    }
    raises = {}
    modifies = []


@contract(L + "_add_to_dicts")
class _:
    """first wins: a later Entry/String with an indexed key comes back wrapped and the index is NOT overwritten;
    entries and strings use separate indexes; other blocks pass through"""
    sorts = {"self": "ref:Library", "block": "ref:Block", "result": "ref:Block"}
    requires = {"index-typed": "index_typed(self)"}
    ensures = {
        "C09.entry-new": "implies(cls_is(block, 'Entry') and not old(as_ref(block, 'ref:Entry')._key in self._entries_by_key), same(result, block) and same(self._entries_by_key[as_ref(block, 'ref:Entry')._key], block) and forall(k, 'str', True, (k in self._entries_by_key) == (old(k in self._entries_by_key) or k == as_ref(block, 'ref:Entry')._key)) and forall(k, 'str', old(k in self._entries_by_key), same(self._entries_by_key[k], old(self._entries_by_key[k]))))",
        "C09.entry-dup": "implies(cls_is(block, 'Entry') and old(as_ref(block, 'ref:Entry')._key in self._entries_by_key), is_dup_wrapper(result, as_ref(block, 'ref:Entry')._key, old(self._entries_by_key[as_ref(block, 'ref:Entry')._key]), block) and unchanged('dict:str:ref:Entry'))",
        "C09.string-new": "implies(cls_is(block, 'String') and not old(as_ref(block, 'ref:String')._key in self._strings_by_key), same(result, block) and same(self._strings_by_key[as_ref(block, 'ref:String')._key], block) and forall(k, 'str', True, (k in self._strings_by_key) == (old(k in self._strings_by_key) or k == as_ref(block, 'ref:String')._key)) and forall(k, 'str', old(k in self._strings_by_key), same(self._strings_by_key[k], old(self._strings_by_key[k]))))",
        "C09.string-dup": "implies(cls_is(block, 'String') and old(as_ref(block, 'ref:String')._key in self._strings_by_key), is_dup_wrapper(result, as_ref(block, 'ref:String')._key, old(self._strings_by_key[as_ref(block, 'ref:String')._key]), block) and unchanged('dict:str:ref:Entry'))",
        "C09.other": "implies(not cls_is(block, 'Entry') and not cls_is(block, 'String'), same(result, block) and unchanged('dict:str:ref:Entry'))",
        "C09.separate-indexes": "implies(cls_is(block, 'Entry'), content_unchanged(self._strings_by_key)) and implies(cls_is(block, 'String'), content_unchanged(self._entries_by_key))",
        "C08.index-typed": "index_typed(self)",
        "C08.blocks-untouched": "unchanged('Library._blocks') and unchanged('list:ref:Block')",
    }
    raises = {}
    modifies = ["@content(self._entries_by_key)", "@content(self._strings_by_key)"]


EQ_CONTRACT = ("forall(x, 'ref:Block', allocated(x), x == x) and forall((x, y), 'ref:Block', allocated(x) and allocated(y) and x == y, "
               "(cls_is(x, 'Entry') == cls_is(y, 'Entry')) and (cls_is(x, 'String') == cls_is(y, 'String')) "
               "and implies(cls_is(x, 'Entry'), as_ref(x, 'ref:Entry')._key == as_ref(y, 'ref:Entry')._key) "
               "and implies(cls_is(x, 'String'), as_ref(x, 'ref:String')._key == as_ref(y, 'ref:String')._key))")

ADD_LOOPS = {
    1: {"cursor": "_i", "iter_name": "blks",
        "invariant": {
            "range": "0 <= _i <= len(blks) and not same(blks, self._blocks) and not same(_added_blocks, self._blocks) and not same(_added_blocks, blks)",
            "blocks-grow": "same(self._blocks, old(self._blocks)) and len(self._blocks) == old(len(self._blocks)) + _i and forall(i, 0 <= i < old(len(self._blocks)), same(self._blocks[i], old(self._blocks[i])))",
            "added": "fresh(_added_blocks) and len(_added_blocks) == _i and forall(t, 0 <= t < _i, same(_added_blocks[t], self._blocks[old(len(self._blocks)) + t]) and (same(_added_blocks[t], blks[t]) or (cls_is(_added_blocks[t], 'DuplicateBlockKeyBlock') and fresh(_added_blocks[t]) and same(as_ref(_added_blocks[t], 'ref:DuplicateBlockKeyBlock')._ignore_error_block, blks[t]))) and same(_added_blocks[t]._raw, blks[t]._raw) and same(_added_blocks[t]._start_line_in_file, blks[t]._start_line_in_file))",
            "wf-held": "held_indexed(self)", "wf-typed": "index_typed(self)", "wf-once": "keyed_once(self)",
            "index-monotone": "forall(k, 'str', old(k in self._entries_by_key), k in self._entries_by_key and same(self._entries_by_key[k], old(self._entries_by_key[k]))) and forall(k, 'str', old(k in self._strings_by_key), k in self._strings_by_key and same(self._strings_by_key[k], old(self._strings_by_key[k])))",
            "arg-unchanged": "ARG_UNCHANGED",
        },
        "props": ("C08",)},
    2: {"cursor": "_j",
        "invariant": {
            "range": "0 <= _j",
            "state": "fresh(duplicate_keys)",
        },
        "props": ("C08",)},
}


@contract(L + "add#single")
class _:
    """a single block is appended: itself, or -- when an Entry/String with its key is already indexed -- a
    fresh DuplicateBlockKeyBlock(key, previous = the live block, duplicate = the argument); nothing else
    changes; a ValueError leaves the library as it was"""
    sorts = {"self": "ref:Library", "blocks": "ref:Block", "fail_on_duplicate_key": "bool"}
    requires = {"wf": "WF(self)"}
    assumes = {"A-EQ": EQ_CONTRACT}
    locals = {"_added_blocks": "list:ref:Block", "duplicate_keys": "list:str"}
    loops = {1: dict(ADD_LOOPS[1], invariant=dict(ADD_LOOPS[1]["invariant"], **{"arg-unchanged": "len(blks) == 1 and fresh(blks)"})), 2: dict(ADD_LOOPS[2])}
    ensures = {
        "C08.add-position": "same(self._blocks, old(self._blocks)) and len(self._blocks) == old(len(self._blocks)) + 1 and forall(i, 0 <= i < old(len(self._blocks)), same(self._blocks[i], old(self._blocks[i])))",
        "C08.add-element": "same(self._blocks[old(len(self._blocks))], blocks) or (cls_is(self._blocks[old(len(self._blocks))], 'DuplicateBlockKeyBlock') and fresh(self._blocks[old(len(self._blocks))]) and same(as_ref(self._blocks[old(len(self._blocks))], 'ref:DuplicateBlockKeyBlock')._ignore_error_block, blocks))",
        "C08.wf-held": "held_indexed(self)", "C08.wf-typed": "index_typed(self)", "C08.wf-once": "keyed_once(self)",
    }
    raises = {"ValueError": {"when": None, "ensures": {"C08.rollback": "lib_unchanged(self)", "C08.wf-exc-held": "held_indexed(self)", "C08.wf-exc-typed": "index_typed(self)", "C08.wf-exc-once": "keyed_once(self)"}}}
    modifies = ["@content(self._blocks)", "@content(self._entries_by_key)", "@content(self._strings_by_key)"]


@contract(L + "add#list")
class _:
    sorts = {"self": "ref:Library", "blocks": "list:ref:Block", "fail_on_duplicate_key": "bool"}
    requires = {"wf": "WF(self)", "not-own-list": "not same(blocks, self._blocks)"}
    assumes = {"A-EQ": EQ_CONTRACT}
    locals = {"_added_blocks": "list:ref:Block", "duplicate_keys": "list:str"}
    loops = {1: dict(ADD_LOOPS[1], invariant=dict(ADD_LOOPS[1]["invariant"], **{"arg-unchanged": "len(blks) == old(len(blks)) and forall(t, 0 <= t < len(blks), same(blks[t], old(blks[t])))"})), 2: dict(ADD_LOOPS[2])}
    ensures = {
        "C08.add-position": "same(self._blocks, old(self._blocks)) and len(self._blocks) == old(len(self._blocks)) + len(blocks) and forall(i, 0 <= i < old(len(self._blocks)), same(self._blocks[i], old(self._blocks[i])))",
        "C08.add-elements": "forall(t, 0 <= t < len(blocks), same(self._blocks[old(len(self._blocks)) + t], blocks[t]) or (cls_is(self._blocks[old(len(self._blocks)) + t], 'DuplicateBlockKeyBlock') and fresh(self._blocks[old(len(self._blocks)) + t]) and same(as_ref(self._blocks[old(len(self._blocks)) + t], 'ref:DuplicateBlockKeyBlock')._ignore_error_block, blocks[t])))",
        "C08.wf-held": "held_indexed(self)", "C08.wf-typed": "index_typed(self)", "C08.wf-once": "keyed_once(self)",
    }
    raises = {"ValueError": {"when": None, "ensures": {"C08.rollback": "lib_unchanged(self)", "C08.wf-exc-held": "held_indexed(self)", "C08.wf-exc-typed": "index_typed(self)", "C08.wf-exc-once": "keyed_once(self)"}}}
    modifies = ["@content(self._blocks)", "@content(self._entries_by_key)", "@content(self._strings_by_key)"]


@pred
def removed_at(lib, p):
    """the block list is the old one without position p"""
    return (same(lib._blocks, old(lib._blocks)) and len(lib._blocks) == old(len(lib._blocks)) - 1
            and forall(i, 0 <= i < p, same(lib._blocks[i], old(lib._blocks[i])))
            and forall(i, p <= i < len(lib._blocks), same(lib._blocks[i], old(lib._blocks[i + 1]))))


@contract(L + "remove#single")
class _:
    """removes the first block equal (==) to the argument together with that key's index entry; a block that
    is not held raises ValueError and leaves the library as it was"""
    sorts = {"self": "ref:Library", "blocks": "ref:Block"}
    requires = {"wf": "WF(self)"}
    assumes = {"A-EQ": EQ_CONTRACT}
    locals = {"remaining": "list:ref:Block"}
    loops = {1: {"cursor": "_p", "iter_name": "blks0",
                 "invariant": {
                     "single": "len(blks0) == 1 and fresh(blks0) and same(blks0[0], old(blocks)) and 0 <= _p <= 1 and same(blks0, blocks)",
                     "untouched": "lib_unchanged(self) and WF(self) and fresh(remaining) and not same(remaining, blks0)",
                     "copy": "implies(_p == 0, len(remaining) == len(self._blocks) and forall(i, 0 <= i < len(remaining), same(remaining[i], self._blocks[i])))",
                 },
                 "props": ("C08",)},
             2: {"cursor": "_i", "iter_name": "blks",
                 "invariant": {
                     "single": "len(blks) == 1 and fresh(blks) and same(blks[0], old(blocks)) and 0 <= _i <= 1",
                     "before": "implies(_i == 0, lib_unchanged(self) and WF(self))",
                     "after": "implies(_i == 1, exists(p, 0 <= p < old(len(self._blocks)), old(self._blocks[p]) == old(blocks) and forall(q, 0 <= q < p, not (old(self._blocks[q]) == old(blocks))) and removed_at(self, p)))",
                     "after-index": "implies(_i == 1, implies(cls_is(old(blocks), 'Entry'), not (as_ref(old(blocks), 'ref:Entry')._key in self._entries_by_key) and forall(k, 'str', k != as_ref(old(blocks), 'ref:Entry')._key, (k in self._entries_by_key) == old(k in self._entries_by_key) and implies(k in self._entries_by_key, same(self._entries_by_key[k], old(self._entries_by_key[k])))) and content_unchanged(self._strings_by_key)) and implies(cls_is(old(blocks), 'String'), not (as_ref(old(blocks), 'ref:String')._key in self._strings_by_key) and forall(k, 'str', k != as_ref(old(blocks), 'ref:String')._key, (k in self._strings_by_key) == old(k in self._strings_by_key) and implies(k in self._strings_by_key, same(self._strings_by_key[k], old(self._strings_by_key[k])))) and content_unchanged(self._entries_by_key)) and implies(not cls_is(old(blocks), 'Entry') and not cls_is(old(blocks), 'String'), content_unchanged(self._entries_by_key) and content_unchanged(self._strings_by_key)))",
                     "after-wf": "implies(_i == 1, held_indexed(self) and index_typed(self) and keyed_once(self))",
                 },
                 "props": ("C08",)}}
    ensures = {
        "C08.remove-first-equal": "exists(p, 0 <= p < old(len(self._blocks)), old(self._blocks[p]) == blocks and forall(q, 0 <= q < p, not (old(self._blocks[q]) == blocks)) and removed_at(self, p))",
        "C08.remove-index": "implies(cls_is(blocks, 'Entry'), not (as_ref(blocks, 'ref:Entry')._key in self._entries_by_key) and content_unchanged(self._strings_by_key)) and implies(cls_is(blocks, 'String'), not (as_ref(blocks, 'ref:String')._key in self._strings_by_key) and content_unchanged(self._entries_by_key))",
        "C08.index-only-shrinks": "forall(k, 'str', k in self._entries_by_key, old(k in self._entries_by_key) and same(self._entries_by_key[k], old(self._entries_by_key[k]))) and forall(k, 'str', k in self._strings_by_key, old(k in self._strings_by_key) and same(self._strings_by_key[k], old(self._strings_by_key[k])))",
        "C08.wf-held": "held_indexed(self)", "C08.wf-typed": "index_typed(self)", "C08.wf-once": "keyed_once(self)",
    }
    raises = {"ValueError": {"when": "forall(q, 0 <= q < len(self._blocks), not (self._blocks[q] == blocks))",
                             "ensures": {"C08.rollback": "lib_unchanged(self)"}}}
    modifies = ["@content(self._blocks)", "@content(self._entries_by_key)", "@content(self._strings_by_key)"]


@contract(L + "remove#list")
class _:
    """list form: the class invariant is kept on the normal exit; the rollback of a partially processed list
    is decided by the bounded history layer (the loop removes block by block)"""
    sorts = {"self": "ref:Library", "blocks": "list:ref:Block"}
    requires = {"wf": "WF(self)", "not-own-list": "not same(blocks, self._blocks)"}
    assumes = {"A-EQ": EQ_CONTRACT}
    locals = {"remaining": "list:ref:Block"}
    loops = {1: {"cursor": "_p", "iter_name": "blks0",
                 "invariant": {
                     "arg": "same(blks0, old(blocks)) and same(blocks, old(blocks)) and 0 <= _p <= len(blks0)",
                     "untouched": "lib_unchanged(self) and WF(self) and fresh(remaining)",
                     "arg-untouched": "content_unchanged(blks0)",
                 },
                 "props": ("C08",)},
             2: {"cursor": "_i", "iter_name": "blks",
                 "invariant": {
                     "arg": "same(blks, old(blocks)) and not same(blks, self._blocks) and 0 <= _i <= len(blks)",
                     "list-same": "same(self._blocks, old(self._blocks)) and len(self._blocks) == old(len(self._blocks)) - _i",
                     "wf-held": "held_indexed(self)", "wf-typed": "index_typed(self)", "wf-once": "keyed_once(self)", "wf-unique": "unique_keys(self)", "no-new-blocks": "forall(i, 0 <= i < len(self._blocks), existed(self._blocks[i])) and forall(t, 0 <= t < len(blks), existed(blks[t]))",
                 },
                 "props": ("C08",)}}
    ensures = {
        "C08.remove-count": "same(self._blocks, old(self._blocks)) and len(self._blocks) == old(len(self._blocks)) - len(blocks)",
        "C08.wf-held": "held_indexed(self)", "C08.wf-typed": "index_typed(self)", "C08.wf-once": "keyed_once(self)",
    }
    raises = {"ValueError": {"when": None, "ensures": {"C08.wf-exc-held": "held_indexed(self)", "C08.wf-exc-typed": "index_typed(self)", "C08.wf-exc-once": "keyed_once(self)"}}}
    modifies = ["@content(self._blocks)", "@content(self._entries_by_key)", "@content(self._strings_by_key)"]


@contract(L + "replace")
class _:
    """the first block equal to old_block is replaced AT ITS POSITION by new_block, or by a duplicate wrapper
    of it when its key is taken by another live block and fail_on_duplicate_key is off; otherwise ValueError
    and the library is what it was"""
    sorts = {"self": "ref:Library", "old_block": "ref:Block", "new_block": "ref:Block", "fail_on_duplicate_key": "bool"}
    requires = {"wf": "WF(self)"}
    assumes = {"A-EQ": EQ_CONTRACT}
    decreases = "1 if fail_on_duplicate_key else 0"
    depth_bound = "1 if fail_on_duplicate_key else 0"
    ensures = {
        "C08.replace-position": "exists(p, 0 <= p < old(len(self._blocks)), old(self._blocks[p]) == old_block and forall(q, 0 <= q < p, not (old(self._blocks[q]) == old_block)) and same(self._blocks, old(self._blocks)) and len(self._blocks) == old(len(self._blocks)) and forall(i, 0 <= i < len(self._blocks) and i != p, same(self._blocks[i], old(self._blocks[i]))) and (same(self._blocks[p], new_block) or (cls_is(self._blocks[p], 'DuplicateBlockKeyBlock') and fresh(self._blocks[p]) and same(as_ref(self._blocks[p], 'ref:DuplicateBlockKeyBlock')._ignore_error_block, new_block))))",
        "C08.replace-fail-mode": "implies(fail_on_duplicate_key, exists(p, 0 <= p < len(self._blocks), same(self._blocks[p], new_block)))",
        "C08.wf-held": "held_indexed(self)", "C08.wf-typed": "index_typed(self)", "C08.wf-once": "keyed_once(self)",
    }
    raises = {"ValueError": {"when": None,
                             "ensures": {"C08.rollback": "lib_unchanged(self)",
                                         "C08.wf-exc-held": "held_indexed(self)", "C08.wf-exc-typed": "index_typed(self)", "C08.wf-exc-once": "keyed_once(self)"}}}
    modifies = ["@content(self._blocks)", "@content(self._entries_by_key)", "@content(self._strings_by_key)"]


@contract(L + "__init__#empty")
class _:
    sorts = {"self": "ref:Library", "blocks": "none"}
    ensures = {"C08.init": "len(self._blocks) == 0 and fresh(self._blocks) and fresh(self._entries_by_key) and fresh(self._strings_by_key) and allocated(self._blocks) and allocated(self._entries_by_key) and allocated(self._strings_by_key) and forall(k, 'str', True, not (k in self._entries_by_key) and not (k in self._strings_by_key))",
               "C08.wf-held": "held_indexed(self)", "C08.wf-typed": "index_typed(self)", "C08.wf-once": "keyed_once(self)"}
    raises = {}
    modifies = ["@self._blocks", "@self._entries_by_key", "@self._strings_by_key"]


@contract(L + "entries")
class _:
    """the Entry blocks of `blocks`, in that order (a fresh list)"""
    sorts = {"self": "ref:Library", "result": "list:ref:Entry"}
    ensures = {
        "C08.entries-are-entries": "fresh(result) and forall(t, 0 <= t < len(result), exists(i, 0 <= i < len(self._blocks), same(result[t], self._blocks[i]) and isinstance(self._blocks[i], Entry)))",
        "C08.entries-complete": "forall(i, 0 <= i < len(self._blocks) and isinstance(self._blocks[i], Entry), exists(t, 0 <= t < len(result), same(result[t], self._blocks[i])))",
    }
    raises = {}
    modifies = []


@contract(L + "entries_dict")
class _:
    """a COPY of the entry index (writing to it does not touch the library)"""
    sorts = {"self": "ref:Library", "result": "dict:str:ref:Entry"}
    ensures = {"C08.entries-dict-copy": "fresh(result) and forall(k, 'str', True, (k in result) == (k in self._entries_by_key) and implies(k in result, same(result[k], self._entries_by_key[k])))"}
    raises = {}
    modifies = []


@contract(L + "add#single-quiet")
class _:
    """the splitter's call: with fail_on_duplicate_key False nothing is raised (duplicates come back wrapped)"""
    for_callers = ["bibtexparser.splitter.Splitter.split"]
    sorts = {"self": "ref:Library", "blocks": "ref:Block", "fail_on_duplicate_key": "bool"}
    requires = {"wf": "WF(self)", "quiet": "not fail_on_duplicate_key"}
    assumes = {"A-EQ": EQ_CONTRACT}
    locals = {"_added_blocks": "list:ref:Block", "duplicate_keys": "list:str"}
    loops = {1: dict(ADD_LOOPS[1], invariant=dict(ADD_LOOPS[1]["invariant"], **{
        "arg-unchanged": "len(blks) == 1 and fresh(blks) and same(blks[0], old(blocks))",
        "parsed": "implies(old(parsed_ok(self)) and old(block_ok(self, blocks)), parsed_ok(self))",
        "index-values": "forall(k, 'str', k in self._strings_by_key, (old(k in self._strings_by_key) and same(self._strings_by_key[k], old(self._strings_by_key[k]))) or (_i >= 1 and same(self._strings_by_key[k], blks[0]))) and forall(k, 'str', k in self._entries_by_key, (old(k in self._entries_by_key) and same(self._entries_by_key[k], old(self._entries_by_key[k]))) or (_i >= 1 and same(self._entries_by_key[k], blks[0])))",
    })), 2: dict(ADD_LOOPS[2])}
    ensures = {
        "C08.add-position": "same(self._blocks, old(self._blocks)) and len(self._blocks) == old(len(self._blocks)) + 1 and forall(i, 0 <= i < old(len(self._blocks)), same(self._blocks[i], old(self._blocks[i])))",
        "C08.add-element": "same(self._blocks[old(len(self._blocks))], blocks) or (cls_is(self._blocks[old(len(self._blocks))], 'DuplicateBlockKeyBlock') and fresh(self._blocks[old(len(self._blocks))]) and same(as_ref(self._blocks[old(len(self._blocks))], 'ref:DuplicateBlockKeyBlock')._ignore_error_block, blocks))",
        "C03+C09.added-raw": "same(self._blocks[old(len(self._blocks))]._raw, blocks._raw) and same(self._blocks[old(len(self._blocks))]._start_line_in_file, blocks._start_line_in_file)",
        "C01.parsed-kept": "implies(old(parsed_ok(self)) and old(block_ok(self, blocks)), parsed_ok(self))",
        "C01+C08.index-values": "forall(k, 'str', k in self._strings_by_key, (old(k in self._strings_by_key) and same(self._strings_by_key[k], old(self._strings_by_key[k]))) or same(self._strings_by_key[k], blocks)) and forall(k, 'str', k in self._entries_by_key, (old(k in self._entries_by_key) and same(self._entries_by_key[k], old(self._entries_by_key[k]))) or same(self._entries_by_key[k], blocks))",
        "C08.wf-held": "held_indexed(self)", "C08.wf-typed": "index_typed(self)", "C08.wf-once": "keyed_once(self)",
    }
    raises = {}
    modifies = ["@content(self._blocks)", "@content(self._entries_by_key)", "@content(self._strings_by_key)"]


@contract(L + "add#list-quiet")
class _:
    """Library(blocks=...): the constructor's call, fail_on_duplicate_key False -> nothing is raised"""
    for_callers = ["bibtexparser.library.Library.__init__"]
    sorts = {"self": "ref:Library", "blocks": "list:ref:Block", "fail_on_duplicate_key": "bool"}
    requires = {"wf": "WF(self)", "not-own-list": "not same(blocks, self._blocks)", "quiet": "not fail_on_duplicate_key"}
    assumes = {"A-EQ": EQ_CONTRACT}
    locals = {"_added_blocks": "list:ref:Block", "duplicate_keys": "list:str"}
    loops = {1: dict(ADD_LOOPS[1], invariant=dict(ADD_LOOPS[1]["invariant"], **{"arg-unchanged": "len(blks) == old(len(blks)) and forall(t, 0 <= t < len(blks), same(blks[t], old(blks[t])))"})), 2: dict(ADD_LOOPS[2])}
    ensures = {
        "C08.add-position": "same(self._blocks, old(self._blocks)) and len(self._blocks) == old(len(self._blocks)) + len(blocks) and forall(i, 0 <= i < old(len(self._blocks)), same(self._blocks[i], old(self._blocks[i])))",
        "C08.add-elements": "forall(t, 0 <= t < len(blocks), same(self._blocks[old(len(self._blocks)) + t], blocks[t]) or (cls_is(self._blocks[old(len(self._blocks)) + t], 'DuplicateBlockKeyBlock') and fresh(self._blocks[old(len(self._blocks)) + t]) and same(as_ref(self._blocks[old(len(self._blocks)) + t], 'ref:DuplicateBlockKeyBlock')._ignore_error_block, blocks[t])))",
        "C08.wf-held": "held_indexed(self)", "C08.wf-typed": "index_typed(self)", "C08.wf-once": "keyed_once(self)",
    }
    raises = {}
    modifies = ["@content(self._blocks)", "@content(self._entries_by_key)", "@content(self._strings_by_key)"]


@contract(L + "__init__#blocks")
class _:
    """Library(blocks): a well-formed library holding one block per given block, in order (an Entry / String whose key
    is already taken by an earlier one comes wrapped); the given list and blocks are not modified"""
    sorts = {"self": "ref:Library", "blocks": "list:ref:Block"}
    requires = {"blocks-exist": "forall(i, 0 <= i < len(blocks), allocated(blocks[i])) and allocated(blocks)"}
    ensures = {
        "C08.init-blocks": "fresh(self._blocks) and fresh(self._entries_by_key) and fresh(self._strings_by_key) and len(self._blocks) == len(blocks)",
        "C08.init-elements": "forall(t, 0 <= t < len(blocks), same(self._blocks[t], blocks[t]) or (cls_is(self._blocks[t], 'DuplicateBlockKeyBlock') and fresh(self._blocks[t]) and same(as_ref(self._blocks[t], 'ref:DuplicateBlockKeyBlock')._ignore_error_block, blocks[t])))",
        "C08.wf-held": "held_indexed(self)", "C08.wf-typed": "index_typed(self)", "C08.wf-once": "keyed_once(self)",
    }
    raises = {}
    modifies = ["@self._blocks", "@self._entries_by_key", "@self._strings_by_key"]


@pred
def parsed_ok(library):
    """what the splitter's output looks like, as far as the default middlewares care (true whatever aliases what)"""
    return (forall(p, 0 <= p < len(library._blocks), allocated(library._blocks[p])
                   and implies(isinstance(library._blocks[p], Entry), not isnone(library._blocks[p]._parser_metadata) and allocated(as_ref(library._blocks[p], 'ref:Entry')._fields) and not same(as_ref(library._blocks[p], 'ref:Entry')._fields, library._blocks)
                               and not same(library._blocks[p]._parser_metadata, library._strings_by_key) and not same(library._blocks[p]._parser_metadata, library._entries_by_key))
                   and implies(isinstance(library._blocks[p], String), not isnone(library._blocks[p]._parser_metadata) and isstr(as_ref(library._blocks[p], 'ref:String')._value)
                               and not same(library._blocks[p]._parser_metadata, library._strings_by_key) and not same(library._blocks[p]._parser_metadata, library._entries_by_key)))
            and forall((p, q), 0 <= p < len(library._blocks) and isinstance(library._blocks[p], Entry) and 0 <= q < len(as_ref(library._blocks[p], 'ref:Entry')._fields),
                       isstr(as_ref(library._blocks[p], 'ref:Entry')._fields[q]._value) and allocated(as_ref(library._blocks[p], 'ref:Entry')._fields[q]))
            and forall(k, 'str', k in library._strings_by_key, isstr(library._strings_by_key[k]._value) and allocated(library._strings_by_key[k])))


@pred
def block_ok(lib, b):
    """the part of parsed_ok that speaks about one block"""
    return (allocated(b)
            and implies(isinstance(b, Entry), not isnone(b._parser_metadata) and allocated(as_ref(b, 'ref:Entry')._fields) and not same(as_ref(b, 'ref:Entry')._fields, lib._blocks)
                        and not same(b._parser_metadata, lib._strings_by_key) and not same(b._parser_metadata, lib._entries_by_key)
                        and forall(q, 0 <= q < len(as_ref(b, 'ref:Entry')._fields), isstr(as_ref(b, 'ref:Entry')._fields[q]._value) and allocated(as_ref(b, 'ref:Entry')._fields[q])))
            and implies(isinstance(b, String), not isnone(b._parser_metadata) and isstr(as_ref(b, 'ref:String')._value)
                        and not same(b._parser_metadata, lib._strings_by_key) and not same(b._parser_metadata, lib._entries_by_key)))


# ---- the other views and the partition clause of C08 ------------------------------------------------------------------

def _view(cls_test, result_kind, doc):
    return type("_", (), {
        "__doc__": doc, "sorts": {"self": "ref:Library", "result": result_kind},
        "ensures": {
            "C08.view-members": "fresh(result) and forall(t, 0 <= t < len(result), exists(i, 0 <= i < len(self._blocks), same(result[t], self._blocks[i]) and %s))" % cls_test,
            "C08.view-complete": "forall(i, 0 <= i < len(self._blocks) and %s, exists(t, 0 <= t < len(result), same(result[t], self._blocks[i])))" % cls_test,
        },
        "raises": {}, "modifies": []})


contract(L + "failed_blocks")(_view("isinstance(self._blocks[i], ParsingFailedBlock)", "list:ref:ParsingFailedBlock",
                                    "the failed blocks (ParsingFailedBlock and its subclasses) of `blocks`, in that order (a fresh list)"))
contract(L + "preambles")(_view("isinstance(self._blocks[i], Preamble)", "list:ref:Preamble", "the Preamble blocks of `blocks`, in that order"))
contract(L + "comments")(_view("(isinstance(self._blocks[i], ExplicitComment) or isinstance(self._blocks[i], ImplicitComment))", "list:ref:Block",
                               "the explicit and implicit comment blocks of `blocks`, in that order"))


from pyvc.api import lemma  # noqa: E402

lemma("block-kinds-partition",
      doc="every block of a shipped class falls under exactly one of the five views: Entry, String, Preamble, comment "
          "(explicit or implicit), failed block (ParsingFailedBlock and its subclasses) -- the classes are pairwise disjoint "
          "and together cover every concrete class below Block except the bare base class",
      vars={"b": "ref:Block"}, requires=["allocated(b)", "not cls_is(b, 'Block')"],
      ensures="((1 if isinstance(b, Entry) else 0) + (1 if isinstance(b, String) else 0) + (1 if isinstance(b, Preamble) else 0) "
              "+ (1 if (isinstance(b, ExplicitComment) or isinstance(b, ImplicitComment)) else 0) + (1 if isinstance(b, ParsingFailedBlock) else 0)) == 1",
      props=("C08",))
