"""Contracts of bibtexparser/middlewares/month.py (property C15).

The contract carries its OWN 12-row table (abbreviation, full name); the lemma `C15.shared-table`
checks that the module's three lists are that table, the function contracts state the three result
rules, type preservation of non-months and the absence of any exception."""
from pyvc.api import contract, pred, lemma

M = "bibtexparser.middlewares.month."
TABLE = [("jan", "January"), ("feb", "February"), ("mar", "March"), ("apr", "April"), ("may", "May"), ("jun", "June"),
         ("jul", "July"), ("aug", "August"), ("sep", "September"), ("oct", "October"), ("nov", "November"), ("dec", "December")]


def _chain(var, pairs, default):
    out = default
    for cond, val in reversed(pairs):
        out = f"({val} if {cond} else {out})"
    return out


L = "sval(v).lower()"
# month number of a name (abbreviation or full name, any letter case), 0 if none
NAME_MONTH = _chain("v", [(f"({L} == '{a}' or {L} == '{f.lower()}')", str(i + 1)) for i, (a, f) in enumerate(TABLE)], "0")
ASCII_DIGITS = "(sval(v).isascii() and sval(v).isdigit())"
# month number denoted by v (int 1..12, ASCII digit string 1..12, name), 0 if v is not a month
MONTH = (f"(ival(v) if (isint(v) and 1 <= ival(v) <= 12) else "
         f"((int(sval(v)) if 1 <= int(sval(v)) <= 12 else 0) if (isstr(v) and {ASCII_DIGITS}) else "
         f"({NAME_MONTH} if isstr(v) else 0)))")
# values on which only "no exception" is claimed: strings that str.isdigit() accepts but that are not ASCII digits
ODD_DIGITS = "(isstr(v) and sval(v).isdigit() and not sval(v).isascii())"
ABBR = _chain("m", [(f"m == {i + 1}", f"'{a}'") for i, (a, f) in enumerate(TABLE)], "''")
FULL = _chain("m", [(f"m == {i + 1}", f"'{f}'") for i, (a, f) in enumerate(TABLE)], "''")


def with_v(expr):
    return expr.replace("(v)", "(month_field._value)").replace("(v).", "(month_field._value).")


def with_m(expr, m):
    return expr.replace("m ==", f"{m} ==")


MV = with_v(MONTH)
COMMON = dict(
    sorts={"self": "ref:_MonthInterpolator", "month_field": "ref:Field", "result": "tuple:any,any"},
    requires={"value-kind": "isstr(month_field._value) or isint(month_field._value)"},
    raises={},
    modifies=[],
)


@contract(M + "MonthLongStringMiddleware.resolve_month_field_val")
class _:
    sorts = dict(COMMON["sorts"], self="ref:MonthLongStringMiddleware")
    requires = COMMON["requires"]
    ensures = {
        "C15.long-month": f"implies({MV} != 0, isstr(result[0]) and sval(result[0]) == {with_m(FULL, MV)})",
        "C15.long-other": f"implies({MV} == 0 and not {with_v(ODD_DIGITS)}, same(result[0], month_field._value))",
    }
    raises = {}
    modifies = []


@contract(M + "MonthAbbreviationMiddleware.resolve_month_field_val")
class _:
    sorts = dict(COMMON["sorts"], self="ref:MonthAbbreviationMiddleware")
    requires = COMMON["requires"]
    ensures = {
        "C15.abbr-month": f"implies({MV} != 0, isstr(result[0]) and sval(result[0]) == {with_m(ABBR, MV)})",
        "C15.abbr-other": f"implies({MV} == 0 and not {with_v(ODD_DIGITS)}, same(result[0], month_field._value))",
    }
    raises = {}
    modifies = []


@contract(M + "MonthIntMiddleware.resolve_month_field_val")
class _:
    sorts = dict(COMMON["sorts"], self="ref:MonthIntMiddleware")
    requires = COMMON["requires"]
    ensures = {
        "C15.int-month": f"implies({MV} != 0, isint(result[0]) and ival(result[0]) == {MV})",
        "C15.int-other": f"implies({MV} == 0 and not {with_v(ODD_DIGITS)}, same(result[0], month_field._value))",
    }
    raises = {}
    modifies = []


lemma("C15.shared-table",
      doc="the module's abbreviation list, full-name list and lower-cased full-name list are the contract's 12-row table",
      vars={},
      ensures=" and ".join(
          [f"modconst('bibtexparser.middlewares.month', '_MONTH_ABBREV')[{i}] == '{a}' and "
           f"modconst('bibtexparser.middlewares.month', '_MONTH_FULL')[{i}] == '{f}' and "
           f"modconst('bibtexparser.middlewares.month', '_LOWERCASE_FULL')[{i}] == '{f.lower()}'" for i, (a, f) in enumerate(TABLE)]
          + ["len(modconst('bibtexparser.middlewares.month', '_MONTH_ABBREV')) == 12",
             "len(modconst('bibtexparser.middlewares.month', '_MONTH_FULL')) == 12",
             "len(modconst('bibtexparser.middlewares.month', '_LOWERCASE_FULL')) == 12"]),
      props=("C15",))


def _month_of_out(kind):
    """composition: the month denoted by each middleware's output for month m is m again"""
    cl = []
    for i, (a, f) in enumerate(TABLE):
        m = i + 1
        out = {"int": None, "abbr": a, "long": f}[kind]
        if out is None:
            continue
        lo = f"'{out}'.lower()"
        name = _chain("v", [(f"({lo} == '{a2}' or {lo} == '{f2.lower()}')", str(j + 1)) for j, (a2, f2) in enumerate(TABLE)], "0")
        cl.append(f"{name} == {m} and not ('{out}'.isascii() and '{out}'.isdigit())")
    return " and ".join(cl)


lemma("C15.compose-abbr", doc="every abbreviation the contract's table outputs denotes its own month (so Y after X equals Y alone)",
      vars={}, ensures=_month_of_out("abbr"), props=("C15",))
lemma("C15.compose-long", doc="every full name the contract's table outputs denotes its own month",
      vars={}, ensures=_month_of_out("long"), props=("C15",))


def _at(expr, vexpr):
    return expr.replace("(v)", f"({vexpr})")


_OLDV = "old(entry._fields[j]._value)"
_NEWV = "entry._fields[j]._value"
_MJ = _at(MONTH, _OLDV)
_ODDJ = _at(ODD_DIGITS, _OLDV)


def _rule(kind):
    if kind == "int":
        month = f"isint({_NEWV}) and ival({_NEWV}) == {_MJ}"
    elif kind == "abbr":
        month = f"isstr({_NEWV}) and sval({_NEWV}) == {with_m(ABBR, _MJ)}"
    else:
        month = f"isstr({_NEWV}) and sval({_NEWV}) == {with_m(FULL, _MJ)}"
    return (f"forall(j, 0 <= j < len(entry._fields), implies(entry._fields[j]._key == 'month', "
            f"implies({_MJ} != 0, {month}) and implies({_MJ} == 0 and not {_ODDJ}, same({_NEWV}, {_OLDV}))))")


@contract(M + "_MonthInterpolator.transform_entry")
class _:
    """the resolved value is written into the month field only; an entry without a month field is untouched"""
    sorts = {"self": "ref:_MonthInterpolator", "entry": "ref:Entry", "library": "ref:Library", "result": "ref:Entry"}
    requires = {"values-kind": "forall(j, 0 <= j < len(entry._fields), isstr(entry._fields[j]._value) or isint(entry._fields[j]._value))",
                "distinct-keys": "forall((a, b), 0 <= a < b < len(entry._fields), entry._fields[a]._key != entry._fields[b]._key)",
                "distinct-fields": "forall((a, b), 0 <= a < b < len(entry._fields), not same(entry._fields[a], entry._fields[b]))",
                "meta-dict": "not isnone(entry._parser_metadata)",
                "concrete-middleware": "cls_is(self, 'MonthIntMiddleware') or cls_is(self, 'MonthAbbreviationMiddleware') or cls_is(self, 'MonthLongStringMiddleware')"}
    ensures = {
        "C15.others-untouched": "forall(j, 0 <= j < len(entry._fields), implies(entry._fields[j]._key != 'month', same(entry._fields[j]._value, old(entry._fields[j]._value))))",
        "C15.entry-int": f"implies(cls_is(self, 'MonthIntMiddleware'), {_rule('int')})",
        "C15.entry-abbr": f"implies(cls_is(self, 'MonthAbbreviationMiddleware'), {_rule('abbr')})",
        "C15.entry-long": f"implies(cls_is(self, 'MonthLongStringMiddleware'), {_rule('long')})",
        "C15.same-entry": "same(result, entry)",
        "C15.structure-untouched": "unchanged('Field._key') and unchanged('Entry._fields') and unchanged('list:ref:Field') and unchanged('Entry._key') and unchanged('Entry._entry_type')",
    }
    raises = {}
    modifies = ["Field._value", "@content(entry._parser_metadata)"]
